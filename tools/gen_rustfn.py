#!/usr/bin/env python3
"""Translator for a small fragment of Rust into Gallina (shallow embedding over Base/Rust.v).

It reads a struct declaration and named methods from a source file of /repo and writes one Gallina
definition per method, statement by statement, so that the theorems in Proofs/*GenProofs.v relate the
hand-written model to *what the source says now*.  A construct outside the fragment is an error (the
check then reports that the translator cannot read the function), never a guess.

Fragment
  items      : `pub struct S { pub f: T, ... }`, `pub fn m(&self|&mut self, x: T, ...) -> T { block }`
  types      : u64, u32, usize, bool, Vec<u64>
  statements : `let [mut] x [: T] = e;`  `x = e;`  `self.f = e;`  `self.f[e] = e;`
               `self.f.resize(e, e);`  `self.f.insert(e, e);`
               `for _ in 0..e { ... }`  `for x in self.f.iter() { ... }`
               `if e { ... } else { ... }` (as the tail of a block)
  expressions: literals (with optional type suffix), variables, `self.f`, `self.f[e]`, `*x`,
               `e as T`, `+ - * / %` on integers (profile-dependent overflow, `/` `%` panic on 0),
               `< <= > >= == !=`, `min(a, b)`, `a.saturating_add(b)`, `v.len()`, `self.m()` for
               a translated `&self` method m, parentheses.
               For functions that return `Result<(), ValidationError>` (Gallina: bool, true = Ok):
               `Option<u64>` parameters, `if let Some(x) = e { .. } [else { .. }]`, `Ok(())`,
               `return Ok(());`, `policy_err!(self, "tag", ..)` (= return Err unless the policy filter
               downgrades the tag: `warn tag`), `a.checked_mul(b).ok_or(..)?` (= return Err on
               overflow), `core::cmp::max(a, b)`, `self.policy.f` (a parameter of the translation),
               `.into()` from u8 to u64.
               `policy_err!(self, tag, fmt, args..)`: the format arguments are evaluated before the filter is asked
               (an operation that can panic there is kept as a bind; only integers, bools and strings may be
               formatted).  Logging macros (debug!, trace!, info!, warn!) are dropped, their arguments are not
               evaluated.

Second generation (class GenR; Gen/CommitmentPolicyGen.v): functions over struct parameters, errors keep their tag
  items      : methods `fn m(&self, x: T, ..) -> T` taken from the inherent `impl S { .. }` blocks of a file (exactly one
               definition must be found); `pub struct S { .. }` -> a Gallina record `S` with projections `S_f` (fields
               whose types are outside the fragment are left out: touching one is an error); a field-less
               `pub enum E { A, B }` that derives PartialEq (and has no hand-written one) -> an inductive `E` with `E_eqb`;
               `const NAME: T = <integer>;` of the files the names are imported from (the `use` lines of the file are
               checked: every struct, constant and free function used must come from the expected module)
  types      : the above and u16, `&T` (a shared borrow is read like the value), `&str` (Gallina string; only passed on,
               formatted, or used as a policy tag), `Vec<S>` for a struct S, tuples `(T, U)`, S / E by name; any other
               capitalised type is an opaque identity (N) that can only be passed around
  result     : `Result<(), ValidationError>` is `trap (result unit)`: a panic, `ErrR tag` (of a ValidationError only the
               policy tag is kept - policy/error.rs is checked for: policy_error(tag, ..) builds an error with that tag,
               prepend_msg keeps the tag, policy_err! is `$obj.policy().policy_error($tag.into(), ..)?`), or `OkR tt`.
               Statements are sequenced with bindR (`x <-? e ;; k`: the meaning of `e?`) and bindT (`x <- e ;; k`)
  statements : `let [mut] x [: T] = e;`  `let (a, b) = e;`  `x = e;`  `e?;`
               `let p = &self.policy;` (p then reads the policy record)
               `if c { .. }` without else, whose block assigns nothing outside itself and leaves only by `?` /
               policy_err! (no `return`): `_ <-? (if c then block else Val (OkR tt)) ;; rest`
               `for x in &v { .. }` / `for x in v.iter() { .. }` over a Vec<S>, whose body assigns exactly one variable of
               the enclosing block and may leave the function by `?` / policy_err!: fold_r (the first error ends the
               loop and is the function's answer)
               `policy_err!(self, tag, fmt, args..)` with a literal or `&str` tag: `_ <-? policy_err warn tag`
               `let mut g = scoped_debug_return!(..);` and `*g = false;` (a guard that logs when the function is left
               early) and the logging macros are dropped
               the tail of a function: `Ok(())`, a value, a tuple, or `if c { .. } else { .. }` of such
  expressions: the integer / boolean expressions of the first generation, and: `x.f` for a struct value, `self.policy.f`,
               string literals without escapes, `&e`, `E::A`, `==` / `!=` on an enum, widening `as` casts (u16 -> u32 ..;
               narrowing is an error), `v.len()` on a Vec<S>, `x.m(..)` for a translated `&self` method of the struct of
               x, `f(..)` for a free function translated into another generated file (its signature is read from the
               source in the same run), `(a, b)`, `if c { a } else { b }` as a value (no `?` inside),
               `a.checked_add(b).ok_or_else(|| policy_error(tag, msg))?` (also checked_sub, checked_mul; chains of them;
               msg is a literal, `"..".to_string()` or `format!(..)` with arguments that cannot panic): `x <-? ok_or
               (add_checked a b) tag` - the error is built without asking the filter,
               `self.m(..)?` for a translated Result method of the validator, optionally with
               `.map_err(|e| e.prepend_msg(msg))` in front of the `?` (the tag is kept),
               calls listed by the caller of the translator as *opaque* (here: LDK's `htlc_timeout_tx_weight(&setup.features())`
               and `htlc_success_tx_weight(&setup.features())`, where `setup` must be the unshadowed parameter): their
               answers are parameters of the generated function
  added for Gen/EnforcementRulesGen.v (the commitment-number rules):
               methods of `impl Trait for S { .. }` and provided methods of `pub trait T { .. }` (a declaration
               without body is not a definition; the caller checks that the validators do not override them);
               a struct declared in another generated file (EnforcementState = the record `res` of
               Gen/EnforcementGen.v) and its translated methods there (`x.m(..)` -> `EnforcementGen.gen_m prof x ..`);
               `Result<T, ValidationError>` for an opaque T (`Ok(v)` = `OkR v`); `&mut T` parameters that are only
               read, and one `&mut S` parameter p that is updated by statements `p.m(args);` for a translated
               `&mut self` method m of S at the top level of the body: the function's Ok then carries the updated
               value (`p <- gen_m prof p args ;; .. Val (OkR p)`), and `?` / policy_err! after an update are refused;
               `match opt { None => arm, Some(x) => arm }` as a statement (arms: a block or an `if` without else;
               `_ <-? (match o with None => .. | Some x => .. end) ;; rest`);
               `==` / `!=` on opaque values and on Options of them (equality of identities: `=?`, opt_id_eqb),
               `Some(v)`, `.as_ref()`, `.clone()` on them, `.unwrap()` / `.expect("..")` (expect_some: a panic on None);
               `a && b` / `a || b` whose right operand can panic: it is evaluated only when the left one does not
               decide (`if a then <b> else Val false`);
               `#[cfg(..)]` on a statement that is logging (dropped in every configuration); `};`;
               more dropped logging: dbgvals!(..), policy_log!(self, tag, fmt, variables..) (formats its message
               whatever the log level: only variables may be formatted), and a leading
               `if let Some(x) = &opt { .. }` whose block only logs and binds the results of helpers the caller lists
               as consumed by the log lines only (delta_offered_htlcs / delta_received_htlcs: lazy iterators);
               formatting an opaque value ({} / {:?} of a key or a commitment content) is assumed not to panic;
               opaque calls: (i) a call of a method of self on exactly the unshadowed parameters of the function,
               followed by `?` (`self.validate_commitment_tx(estate, ..)`, translated elsewhere): its answer is a
               parameter of type `trap (result unit)`; (ii) pure functions the caller lists
               (`PublicKey::from_secret_key`, `Secp256k1::signing_only`): uninterpreted function parameters.
  added for Gen/SweepGen.v (the sweep validators):
               `&dyn Trait` parameters (an identity) whose methods are *opaque methods*: uninterpreted function
               parameters that take the receiver first (`wallet.allowlist_contains(s, p)` ->
               `wallet_allowlist_contains wallet s p`); an opaque method that returns `Result<bool, foreign error>` is
               inside the fragment only as `recv.m(args).map_err(|err| policy_error(tag, msg))?`:
               `x <-? ok_or (wallet_can_spend wallet ..) tag` (the parameter answers `option bool`, None = the error);
               the same for methods of foreign value types (`tx.lock_time.is_satisfied_by(h, t)`), foreign functions and
               constants named by path (`Height::from_consensus(x)` -> `option`, `Time::MIN`, `Version::TWO`);
               structs of a foreign crate declared to the translator by hand (rust-bitcoin's Transaction, TxIn, TxOut,
               Sequence: compared with the crate's source when it is in the cargo registry), `x.0` of a tuple struct;
               `transaction_format_err!(self, tag, fmt, args..)` = `return Err(transaction_format_error(format!(..)))`:
               the macro ignores its object and tag; the error carries the tag transaction_format_error gives it (read
               from policy/error.rs); as a statement `_ <-? early_err TAG`, and as the diverging arm of
               `let x = match opt { Some(y) => value, None => transaction_format_err!(..) };`
               (`x <-? (match o with Some y => Val (OkR value) | None => Val (ErrR TAG) end)`);
               `v.get(i)` on a Vec<S> (vec_nth), `!b`, `for x in v.iter() { .. }` whose body assigns nothing (the
               loop-carried state is the unit value), `const NAME: [u32; n] = [..];` of an impl block (hex literals),
               `.to_vec()` on it, `v.contains(&x)` (vec_contains).
  added for Gen/MutualCloseGen.v (the cooperative-close validator):
               `Option<S>` for a declared struct S (fields and parameters), `String` (only built from a literal with
               `.to_string()` and formatted); `opt.ok_or_else(|| policy_error(tag, msg))?` on an Option of a struct or
               an opaque value (`x <-? ok_or o tag`); `.is_none()`, `.is_some()`, `v.is_empty()`;
               `if c { .. } else { .. }` as a statement (branches assign nothing outside, leave only by errors);
               `if let Some(x) = &opt { .. }` as a statement (`match o with Some x => block | None => Val (OkR tt) end`);
               `if let (true, x) = e { .. }` for a tuple value (boolean literals and binders): e is evaluated, the block
               runs when the literals match; calls `self.m(..)` of a translated validator method with a plain value, and
               of one translated into another generated file (validate_fee of Gen/CommitmentPolicyGen.v);
               an opaque call (i) may be any expression over the unshadowed parameters, given to the translator as
               source text and compared as a syntax tree (`mutual_close_tx_weight(&ClosingTransaction::new(..)..)`).
  added for Gen/OnchainGen.v (the numeric rules of the on-chain validator):
               `Result<u64, ValidationError>` (`Ok(v)` = `OkR v`; `self.m(..)?` of such a method has the value);
               `const NAME: S = S { f: <literal>, .. };` for a declared struct S (a record value);
               `opt.as_ref().unwrap_or(&CONST)` on an Option of a declared struct; `error!` among the dropped logging
               macros; `&[u64]` parameters (read like a Vec<u64>) and `for x in <slice parameter> { .. }`;
               a *tail* of a function body: the statements from a marker statement to the end of the body, verbatim,
               read as the body of a function of the variables they use - the caller of the translator names the marker
               and the variables and checks their declarations in the part that is not read (types from the signature,
               `let mut beneficial_sum = 0u64;`, no rebinding).  What the unread part computes is not covered.
  added for Gen/NodePaymentsGen.v (maps and sets; the node's payment check):
               types `Map<K, V>` / `OrderedMap<K, V>` / `HashMap` / `BTreeMap` with an opaque key type (an association list
               with one entry per key, Base/Rust.v: map_get, map_insert, map_keys, map_values), `UnorderedSet<K>` /
               `OrderedSet<K>` (a duplicate-free list: set_extend), `Arc<dyn Validator>`, `Option<&S>`, `Option<(u32, u32)>`;
               `m.get(&k)`, `m.contains_key(&k)`, `m.is_empty()`, `m.values()[.into_iter()].sum::<u64>()` (sum_p: the
               outcome does not depend on the order - Proofs/RustFacts.v sum_p_perm), `opt.map(|a| *a)`,
               `opt.map(|x| x.field)`, `opt.unwrap_or(v)`, `opt.map_or(d, |e| e.min(x) | e.max(x))`, `a.checked_add(b)`
               as a value with `.expect(..)`; method names with a type argument (`sum::<u64>`, `collect::<Vec<_>>`);
               locals `UnorderedSet::new()` / `Vec::new()` updated by `s.extend(m.keys());` / `v.push(x);`
               `for x in set.iter() { .. }`: the set is visited in the order `iter_order set`, an uninterpreted parameter
               of which the theorems only assume that it permutes its argument (a hash set's order is arbitrary);
               `if c {..} [else {..}]`, `if let Err(e) = <Result as bool> {..}`, `if let Some(x) = opt {..}` whose
               blocks assign ONE variable of the enclosing block (or `self`): the variable is the value of the statement;
               `let (a, b) = if let Some(p) = opt { stmts; value } else { value };` whose blocks may leave the function;
               `if let Some((a, b)) = e {..}`; `match (a, b) { (Some(x), Some(y)) => v1, _ => v2 }` as a value;
               calls `validator.m(..)` on the `dyn Validator` parameter are calls of the translated methods of
               SimpleValidator the caller of the translator lists (validate_payment_balance of Gen/PaymentsGen.v,
               Result as bool; validate_payment_cltv; enforce_balance); `policy_err!(validator, ..)`;
               a format argument that only renders a local vector of opaque values
               (`v.into_iter().map(|h| h.0.to_hex()).collect::<Vec<_>>()`);
               `&mut self` methods of a struct without a value (`self.f = e;`, `self.map_field.insert(k, v);`): the
               updated record is the value of the generated function.
  added for NodeState::apply_payments / htlc_fulfilled / is_forwarded_payment_prunable:
               state-passing methods: a `&mut self` method of a struct the caller lists is `trap (result S)` (no value) or
               `trap (result (S * bool))`; it cannot return errors (`?` and policy_err! are refused in it);
               a local that stands for `&mut` a map entry of self: `let x = self.F.get_mut(&k).expect("..");`,
               `let x = self.F.entry(k).or_insert_with(|| v);` (v only when the key is missing; the entry exists
               afterwards), `if let Some(x) = self.F.get_mut(&k) { .. }`: x is a copy of the entry, and every update of
               it (`x.f = e;`, `x.m(..);` for a translated `&mut self` method m without a value) is written back with
               map_insert at once; conditionals and loops may hand on several variables (a tuple state,
               `'(a, b) <-? ..`); associated functions `fn f(..)` of a struct (`S::f(..)`); struct values `S { f: e, .. }`
               with all fields in order; `[e; n]` only inside an opaque call; `None` / `(None, None)` typed by what is
               expected; `v.iter().filter(|h| <bool>).map(|h| h.f).min()` / `.max()` over a Vec<S> (min_of / max_of);
               a logging macro as the last expression of a block; `trace_node_state!`.
  added for Gen/PaymentSummariesGen.v (EnforcementState::summarize_payments / payments_summary / incoming_payments_summary):
               plain-value functions the caller lists (`value_methods`): associated functions and `&self` methods whose
               body may loop; rendered `trap (result T)` (they never return an error; the result layer only carries the
               loops), called as `Self::f(..)`; parameter type `&[S]` (a list of records) and `for h in <that slice>`;
               `a.or(b)` on options (opt_or_else), `opt.map(|h| &h.f)` for a Vec field of a record;
               `opt.map(|h| Self::f(h)).unwrap_or_else(|| Map::new())` with f a listed value function (a match on the
               option: the call for Some, the empty map for None); a local `Map<K, u64>`;
               the statement `m.entry(k)[.and_modify(<closure>)][.or_insert(d)];` on such a local, with the closure one of
               `|e| *e += x` (add in the arithmetic of the build profile), `|e| *e = max(*e, v)`, `|e| *e = min(*e, v)`
               (core::cmp::{max, min}, checked in the use lines) - map_entry_update: the entry is rewritten when the key
               is present, d inserted when it is absent and an or_insert is written, nothing otherwise;
               `m.retain(|k, _| <bool in k>);` (map_retain: filter on the keys);
               `for (k, v) in m { .. }` consuming a local `Map<K, u64>`: the pairs are visited in the order
               `pair_order m`, an uninterpreted parameter of which the theorems only assume that it permutes its argument.
  added for NodeState::prune_forwarded_payments:
               in a state-passing method, at the top level of the body: `let x = &mut self.f;` for a map field f of
               records - x is another name of the field, nothing is generated - and its only use
               `x.retain(|k, v| { stmts; keep });` with a block closure that may call translated functions (so it may
               panic) and assigns captured variables of the function (not self): map_retain_st of Base/Rust.v, the assigned
               variables are the state handed from entry to entry, the entries are visited in the order of the association
               list (the theorems quantify over the state, hence over every list that represents the map); afterwards
               self.f is the retained map.  Any other use of x, or the same inside a conditional / loop, is refused.
  added for Gen/KvvGen.v (class GenKV: MemoryKVVStore::get_version / put_with_version / put / delete, vls-persist):
               a small translator of its own over the same syntax trees.  Types `&str` / `String` (the list of the UTF-8
               bytes), `Vec<u8>` (a list of bytes), `Result<(), Error>` / `Result<Option<u64>, Error>` with the store's Error;
               the struct is the record of its `data: Mutex<BTreeMap<String, (u64, Vec<u8>)>>` (bmap of Base/Rust.v: the
               entries in the byte order of the keys; bmap_get / bmap_insert).  `&self` methods are state-passing:
               `trap (result MemoryKVVStore)`; `let [mut] data = self.data.lock().unwrap();` names the map (the mutex is
               never poisoned: an operation that can panic, or a call of another method of self, while the guard is alive
               is refused); `data.get(key)`, `data.insert(key.to_string(), (version, value));`,
               `if let Some((a, b)) = <entry option> {..}`, `if c {..} [else {..} | else if ..]` and `return e;` in
               continuation style (what follows a conditional is read in each branch; `return` drops it); `Ok(())` = the
               store with the map as it is now, `Err(Error::VersionMismatch)` = ErrR "VersionMismatch", refused after a
               write; `<` `<=` `==` `!=` on u64, `==` / `!=` on Vec<u8> (bytes_eqb), `*x`, `&x`; `self.m(..)?` of a
               translated reader, `opt.map(|v| <u64 arithmetic in v>).unwrap_or(d)`, `opt.map(|(v, _)| *v)`, a tail call
               `self.m(..)` of a translated writer, `Vec::new()`; error! / warn! / info! / debug! / trace! have no effect.
               For put_batch: parameter `Vec<KVV>` (KVV = (String, (u64, Vec<u8>)), checked in kvv.rs with into_inner);
               a local `let mut m: BTreeMap<String, (u64, Vec<u8>)> = BTreeMap::new();`, `m.insert(k, e);`,
               `a.or_else(|| b)` on two look-ups (opt_or_else); `let (k, (v, c)) = kvv.into_inner();`;
               `for kvv in kvvs.into_iter() { .. }` whose body inserts into ONE local map: fold_r with that map as the
               state - `continue` and the end of the body hand it on, `return Err(Error::VersionMismatch)` leaves the
               function, any other way out of the loop is refused;
               `for (k, e) in m.into_iter() { data.insert(k, e); }`: the entries of the local map in key order inserted
               into the locked map (fold_left of bmap_insert), the local map is gone afterwards.
               For CloudKVVStore<L> with L = MemoryKVVStore (put_with_version / put / delete; the record is the local
               store, the commit log `Option<BTreeMap<..>>` and the poisoned flag of its mutex):
               `let [mut] g = self.commit_log.lock().unwrap();` (Trap when poisoned), `let log = g.as_mut().expect("..");`
               (Trap when None; log names the map inside the option, `log.insert(..)` ends up in the option on Ok(())),
               `self.local.m(..)?` for the translated readers get_version / get of the memory store (allowed while the
               guard of the commit log is alive: another mutex), `opt.expect("..")` on an entry option (Trap when None),
               `e.0` / `e.1` of an entry, `if let Some(v) = <Option<u64>> {..}`, `_` in a pair pattern, `.cloned()`;
               here operations that can panic under the guard are accepted - the poisoning such a panic causes is NOT
               represented (a panic is Trap, without a state).
  refused    : a Rust binder whose name the generated text uses itself (prof, warn, policy, Val, t<digits>, gen_.., ..), a
               `let` that shadows a variable in scope, `return`, `else`
               branches of statements, `match`, `&mut`, closures anywhere else, struct literals, everything not listed.
Meaning of each construct: coq/theories/Base/Rust.v.  usize is u64 (64-bit target)."""
import os, re, sys

HERE = os.path.dirname(os.path.abspath(__file__))
ROOT = os.environ.get("VERIF_GEN_ROOT") or os.path.dirname(HERE)


class GenError(Exception):
    pass


# ---------------------------------------------------------------- lexer

TOK = re.compile(r"""
    (?P<ws>\s+|//[^\n]*|/\*.*?\*/)
  | (?P<str>"(?:[^"\\]|\\.)*")
  | (?P<num>\d[\d_]*(?:u64|u32|usize|u16|u8)?)
  | (?P<id>[A-Za-z_][A-Za-z0-9_]*)
  | (?P<op>\.\.|->|=>|==|!=|<=|>=|&&|\|\||::|[-+*/%<>=!&|(){}\[\];:,.?#])
""", re.X | re.S)


def lex(src):
    out, i = [], 0
    while i < len(src):
        m = TOK.match(src, i)
        if not m:
            raise GenError("cannot tokenize at: %r" % src[i:i + 30])
        i = m.end()
        if m.lastgroup == "ws":
            continue
        out.append((m.lastgroup, m.group(m.lastgroup)))
    return out


# ---------------------------------------------------------------- source extraction

def struct_fields(src, name, skip_unknown=False, known=None):
    """fields of the struct with their fragment types; with skip_unknown, fields of types outside the
    fragment are left out (a method that touches one is then an error)"""
    m = re.search(r"\n(?:pub )?struct %s\s*\{(.*?)\n\}" % re.escape(name), src, re.S)
    if not m:
        raise GenError("struct %s not found" % name)
    body = re.sub(r"///[^\n]*|//[^\n]*|#\[[^\]]*\]", "", m.group(1))
    fields = []
    # split on commas outside <...> and (...)
    parts, depth, cur = [], 0, ""
    for ch in body:
        if ch in "<(":
            depth += 1
        elif ch in ">)":
            depth -= 1
        if ch == "," and depth == 0:
            parts.append(cur)
            cur = ""
        else:
            cur += ch
    parts.append(cur)
    for part in parts:
        part = part.strip()
        if not part:
            continue
        fm = re.match(r"(?:pub\s+)?([a-z_][a-z0-9_]*)\s*:\s*(.+)$", part, re.S)
        if not fm:
            raise GenError("cannot read field declaration %r of %s" % (part, name))
        try:
            fields.append((fm.group(1), norm_type(fm.group(2).strip(), known)))
        except GenError:
            if not skip_unknown:
                raise
    return fields


def norm_type(t, known=None):
    """known: names of structs / enums declared to the translator (name -> fragment type)"""
    t = re.sub(r"\s+", "", t)
    if t in ("u64", "u32", "usize", "bool", "u8", "u128"):
        return t
    if known is not None:
        if t in ("u16", "str"):
            return t
        if t in known and known[t] != "path":
            return known[t]
        if t == "String":
            return "str"
        if known.get("Error") == "enum:KvvError":
            # vls-persist/src/kvv: byte vectors, and results whose error is the store's Error enum
            if t == "Vec<u8>":
                return "bytes"
            if t == "Result<(),Error>":
                return "kvres:unit"
            if t == "Result<Option<u64>,Error>":
                return "kvres:opt_u64"
            if t == "Result<Option<(u64,Vec<u8>)>,Error>":
                return "kvres:opt_entry"
            if t == "Vec<KVV>":
                return "vec:kvv"
            if t == "BTreeMap<String,(u64,Vec<u8>)>":
                return "bmap"
        m = re.match(r"^Option<\((u32|u64),(u32|u64)\)>$", t)
        if m:
            return "opt:tuple:%s,%s" % (m.group(1), m.group(2))
        m = re.match(r"^(?:Map|OrderedMap|HashMap|BTreeMap)<&?[A-Z][A-Za-z0-9]*,(.+)>$", t)
        if m:
            return "map:" + norm_type(m.group(1), known)      # keys: opaque identities
        if re.match(r"^(?:UnorderedSet|OrderedSet|HashSet|BTreeSet)<&?[A-Z][A-Za-z0-9]*>$", t):
            return "set"
        m = re.match(r"^Arc<dyn([A-Z][A-Za-z0-9]*)>$", t)
        if m:
            return "dyn:" + m.group(1)
        m = re.match(r"^Option<&([A-Z][A-Za-z0-9]*)>$", t)
        if m and known.get(m.group(1), "").startswith("struct:"):
            return "opt_struct:" + m.group(1)
        m = re.match(r"^Option<([A-Z][A-Za-z0-9]*)>$", t)
        if m and known.get(m.group(1), "").startswith("struct:"):
            return "opt_struct:" + m.group(1)
        m = re.match(r"^Result<([A-Z][A-Za-z0-9]*),ValidationError>$", t)
        if m and m.group(1) not in known:
            return "result:id"            # Ok carries an opaque value
        if t == "Result<u64,ValidationError>":
            return "result:u64"
        m = re.match(r"^Vec<([A-Z][A-Za-z0-9]*)>$", t)
        if m and known.get(m.group(1), "").startswith("struct:"):
            return "vec:" + m.group(1)
    if t == "Vec<u64>":
        return "vec"
    if t == "Option<u64>":
        return "opt_u64"
    if t == "Option<u32>":
        return "opt_u32"
    if t == "Result<(),ValidationError>":
        return "result_unit"
    if re.match(r"^[A-Z][A-Za-z0-9]*$", t):
        return "id"            # an opaque value (a key, a commitment content): an identity in the model
    if re.match(r"^Option<[A-Z][A-Za-z0-9]*>$", t):
        return "opt_id"
    raise GenError("type %s is outside the fragment" % t)


def fn_source(src, impl, name):
    """text of `fn name(...) ... { ... }` inside `impl <impl> {`"""
    im = re.search(r"\nimpl %s\s*\{" % re.escape(impl), src)
    if not im:
        raise GenError("impl %s not found" % impl)
    m = re.search(r"\n\s*(?:pub(?:\([a-z]+\))?\s+)?fn %s\s*\(" % re.escape(name), src[im.end():])
    if not m:
        raise GenError("fn %s not found in impl %s" % (name, impl))
    start = im.end() + m.start()
    i = src.index("{", start)
    depth, j = 0, i
    while True:
        if src[j] == "{":
            depth += 1
        elif src[j] == "}":
            depth -= 1
            if depth == 0:
                break
        j += 1
    return src[start:j + 1]


def free_fn_source(src, name):
    """text of a function outside any impl block"""
    m = re.search(r"\n(?:pub(?:\([a-z]+\))?\s+)?fn %s\s*\(" % re.escape(name), src)
    if not m:
        raise GenError("fn %s not found" % name)
    start = m.start() + 1
    i = src.index("{", start)
    depth, j = 0, i
    while True:
        if src[j] == "{":
            depth += 1
        elif src[j] == "}":
            depth -= 1
            if depth == 0:
                break
        j += 1
    return src[start:j + 1]


# ---------------------------------------------------------------- parser (to a small AST)

class P:
    def __init__(self, toks, known=None):
        self.t, self.i = toks, 0
        self.known = known            # struct / enum names (second-generation translations only)

    def peek(self, k=0):
        return self.t[self.i + k] if self.i + k < len(self.t) else ("eof", "")

    def eat(self, val=None, kind=None):
        k, v = self.peek()
        if (val is not None and v != val) or (kind is not None and k != kind):
            raise GenError("expected %s, found %r (token %d)" % (val or kind, v, self.i))
        self.i += 1
        return v

    def at(self, val):
        return self.peek()[1] == val

    # fn item
    def fn(self):
        if self.at("pub"):
            self.eat("pub")
            if self.at("("):
                self.eat("(")
                self.eat(kind="id")
                self.eat(")")
        self.eat("fn")
        name = self.eat(kind="id")
        self.eat("(")
        params, selfmode, mut_params = [], None, []
        while not self.at(")"):
            if self.at("&"):
                self.eat("&")
                if self.at("mut"):
                    self.eat("mut")
                    selfmode = "mut"
                else:
                    selfmode = "ref"
                self.eat("self")
            else:
                x = self.eat(kind="id")
                self.eat(":")
                self.saw_mut = False
                params.append((x, self.type()))
                if self.saw_mut:
                    mut_params.append(x)
            if self.at(","):
                self.eat(",")
        self.eat(")")
        ret = "unit"
        if self.at("->"):
            self.eat("->")
            ret = self.type()
        body = self.block()
        return dict(name=name, params=params, selfmode=selfmode or "free", ret=ret, body=body, mut_params=mut_params)

    def type(self):
        if self.known is not None and self.at("&"):
            self.eat("&")                     # a shared borrow is read like the value it borrows
            if self.at("mut"):
                # no statement form of the second generation writes through a parameter or hands it to something
                # that could (calls of `&mut self` methods are refused): the parameter is only read
                self.eat("mut")
                self.saw_mut = True
            if self.at("dyn"):
                self.eat("dyn")
                return "dyn:" + self.eat(kind="id")     # a trait object: its methods are parameters of the translation
            if self.at("["):
                self.eat("[")
                inner = self.type()
                self.eat("]")
                if inner.startswith("struct:"):
                    return "vec:" + inner[7:]           # &[S]: read like a Vec<S>
                if inner != "u64":
                    raise GenError("a slice of %s is outside the fragment" % inner)
                return "vec"                            # &[u64]: read like a Vec<u64>
            return self.type()
        if self.known is not None and self.at("("):
            self.eat("(")
            parts = []
            while not self.at(")"):
                parts.append(self.type())
                if self.at(","):
                    self.eat(",")
            self.eat(")")
            if len(parts) < 2:
                raise GenError("a tuple type with fewer than two components is outside the fragment")
            return "tuple:" + ",".join(parts)
        v = self.eat(kind="id")
        if self.at("<"):
            self.eat("<")
            depth, inner = 1, ""
            while depth:
                k, t = self.peek()
                self.i += 1
                if t == "<":
                    depth += 1
                elif t == ">":
                    depth -= 1
                    if depth == 0:
                        break
                inner += t
            v = "%s<%s>" % (v, inner)
        return norm_type(v, self.known)

    def block(self):
        """-> (stmts, tail expr or None)"""
        self.eat("{")
        stmts, tail = [], None
        while not self.at("}"):
            if self.known is not None and self.at(";"):
                self.eat(";")                 # `};` : an empty statement
                continue
            if self.known is not None and self.at("#"):
                # #[attr] in front of a statement
                self.eat("#")
                self.eat("[")
                depth, toks = 1, []
                while depth:
                    kk, t = self.peek()
                    if kk == "eof":
                        raise GenError("unterminated attribute")
                    self.i += 1
                    if t == "[":
                        depth += 1
                    elif t == "]":
                        depth -= 1
                        if depth == 0:
                            break
                    toks.append(t)
                n0 = len(stmts)
                inner_ss, inner_tail = P.block_one(self)
                if inner_tail is not None or len(inner_ss) != 1:
                    raise GenError("an attribute on anything but a statement is outside the fragment")
                stmts.append(("attr", "".join(toks), inner_ss[0]))
                continue
            if self.known is not None and self.at("match") and self.peek(1)[1] != "(":
                stmts.append(self.match_stmt())
                continue
            if self.at("const"):
                self.eat("const")
                x = self.eat(kind="id")
                self.eat(":")
                ty = self.type()
                self.eat("=")
                e = self.expr()
                self.eat(";")
                stmts.append(("let", x, ty, e))
            elif self.at("let"):
                self.eat("let")
                if self.at("mut"):
                    self.eat("mut")
                if self.at("("):              # let (a, b) = e;
                    self.eat("(")
                    names = []
                    while not self.at(")"):
                        if self.known is not None and self.at("("):
                            self.eat("(")               # let (a, (b, c)) = e;  one nested pair
                            inner = []
                            while not self.at(")"):
                                inner.append(self.eat(kind="id"))
                                if self.at(","):
                                    self.eat(",")
                            self.eat(")")
                            names.append(("tuple_pat", inner))
                        else:
                            names.append(self.eat(kind="id"))
                        if self.at(","):
                            self.eat(",")
                    self.eat(")")
                    x = ("tuple_pat", names)
                else:
                    x = self.eat(kind="id")
                ty = None
                if self.at(":"):
                    self.eat(":")
                    ty = self.type()
                self.eat("=")
                e = self.expr()
                self.eat(";")
                stmts.append(("let", x, ty, e))
            elif self.at("for"):
                self.eat("for")
                if self.known is not None and self.at("("):
                    self.eat("(")
                    names_ = []
                    while not self.at(")"):
                        names_.append(self.eat(kind="id"))
                        if self.at(","):
                            self.eat(",")
                    self.eat(")")
                    var = ("tuple_pat", names_)
                else:
                    var = self.eat(kind="id")
                self.eat("in")
                lo = self.expr_norange()
                if self.at(".."):
                    self.eat("..")
                    hi = self.expr_norange()
                    body = self.block()
                    if body[1] is not None:
                        body = (body[0] + [("expr", body[1])], None)
                    stmts.append(("for_range", var, lo, hi, body[0]))
                else:
                    body = self.block()
                    if body[1] is not None:
                        body = (body[0] + [("expr", body[1])], None)
                    stmts.append(("for_iter", var, lo, body[0]))
            elif self.at("return"):
                self.eat("return")
                e = self.expr()
                if self.at(";"):
                    self.eat(";")
                stmts.append(("return", e))
            elif self.at("if"):
                e = self.if_expr()
                if e[0] in ("if_stmt", "iflet_stmt", "ifelse_stmt", "iflet_tuple", "iflet_err"):
                    stmts.append(e)
                elif self.at("}") or self.at(";"):
                    tail = e
                else:
                    raise GenError("an if/else statement that is not the tail of its block is outside the fragment")
            else:
                e = self.expr()
                if self.at("="):
                    self.eat("=")
                    rhs = self.expr()
                    if self.at(";"):
                        self.eat(";")
                    stmts.append(("assign", e, rhs))
                elif self.at(";"):
                    self.eat(";")
                    stmts.append(("expr", e))
                else:
                    tail = e
        self.eat("}")
        if self.known is not None and tail is not None and tail[0] == "macro" and tail[1] in ("debug", "trace", "info", "warn", "error"):
            stmts.append(("expr", tail))      # a logging macro as the last expression of a block: a statement of value ()
            tail = None
        # a trailing assignment without `;` inside a loop body arrives as ("assign") already
        return stmts, tail

    def block_one(self):
        """exactly one statement, parsed by the statement loop of block(): the tokens of the statement are wrapped in
        braces for it"""
        start = self.i
        # find the end of the statement: the first `;` at depth 0, or the `}` closing a block at depth 0
        depth, j = 0, self.i
        while True:
            kk, t = self.t[j] if j < len(self.t) else ("eof", "")
            if kk == "eof":
                raise GenError("statement after an attribute does not end")
            if t in "([{" and kk == "op":
                depth += 1
            elif t in ")]}" and kk == "op":
                depth -= 1
                if depth == 0 and t == "}":
                    j += 1
                    break
            elif t == ";" and depth == 0:
                j += 1
                break
            j += 1
        sub = P([("op", "{")] + self.t[start:j] + [("op", "}"), ("eof", "")], self.known)
        res = sub.block()
        self.i = j
        return res

    def match_stmt(self):
        """match e { None => <arm> Some(x) => <arm> } as a statement; an arm is a block or an `if` without else"""
        self.eat("match")
        scrut = self.expr()
        self.eat("{")
        arms = {}
        while not self.at("}"):
            if self.at("None"):
                self.eat("None")
                key, var = "None", None
            else:
                self.eat("Some")
                self.eat("(")
                var = self.eat(kind="id")
                self.eat(")")
                key = "Some"
            self.eat("=>")
            if self.at("{"):
                blk = self.block()
            elif self.at("if"):
                e = self.if_expr()
                if e[0] != "if_stmt":
                    raise GenError("a match arm that is an if/else or has a value is outside the fragment")
                blk = ([e], None)
            else:
                raise GenError("a match arm that is neither a block nor an `if` is outside the fragment")
            if blk[1] is not None:
                if blk[1][0] != "macro":
                    raise GenError("a match arm with a value is outside the fragment")
                blk = (blk[0] + [("expr", blk[1])], None)
            if self.at(","):
                self.eat(",")
            if key in arms:
                raise GenError("match with two %s arms" % key)
            arms[key] = (var, blk)
        self.eat("}")
        if set(arms) != {"None", "Some"}:
            raise GenError("only `match <option> { None => .., Some(x) => .. }` is inside the fragment")
        return ("match_opt", scrut, arms["None"][1], arms["Some"][0], arms["Some"][1])

    def if_expr(self):
        self.eat("if")
        if self.at("let") and self.known is not None and self.peek(1)[1] == "(":
            # if let (true, x) = e { .. } : a tuple pattern of boolean literals and binders, without else
            self.eat("let")
            self.eat("(")
            pats = []
            while not self.at(")"):
                kk, vv = self.peek()
                if vv in ("true", "false") or kk == "id":
                    pats.append(self.eat())
                else:
                    raise GenError("tuple pattern component %r is outside the fragment" % vv)
                if self.at(","):
                    self.eat(",")
            self.eat(")")
            self.eat("=")
            e = self.expr()
            a = self.block()
            if self.at("else"):
                raise GenError("`if let (..) = .. {} else {}` is outside the fragment")
            if a[1] is not None:
                if a[1][0] != "macro":
                    raise GenError("an `if let` block with a value is outside the fragment")
                a = (a[0] + [("expr", a[1])], None)
            return ("iflet_tuple", pats, e, a)
        if self.at("let") and self.known is not None and self.peek(1)[1] == "Err":
            # if let Err(x) = e { .. } : without else
            self.eat("let")
            self.eat("Err")
            self.eat("(")
            x = self.eat(kind="id")
            self.eat(")")
            self.eat("=")
            e = self.expr()
            a = self.block()
            if self.at("else") or a[1] is not None:
                raise GenError("`if let Err(..) = .. {}` with else or a value is outside the fragment")
            return ("iflet_err", x, e, a)
        if self.at("let") and self.known is not None and self.peek(1)[1] == "Some" and self.peek(3)[1] == "(":
            # if let Some((a, b)) = e { .. } : without else
            self.eat("let")
            self.eat("Some")
            self.eat("(")
            self.eat("(")
            names = []
            while not self.at(")"):
                names.append(self.eat(kind="id"))
                if self.at(","):
                    self.eat(",")
            self.eat(")")
            self.eat(")")
            self.eat("=")
            e = self.expr()
            a = self.block()
            if self.at("else"):
                raise GenError("`if let Some((..)) = .. {} else {}` is outside the fragment")
            if a[1] is not None:
                if a[1][0] != "macro":
                    raise GenError("an `if let` block with a value is outside the fragment")
                a = (a[0] + [("expr", a[1])], None)
            return ("iflet_stmt", ("tuple_pat", names), e, a)
        if self.at("let"):
            self.eat("let")
            self.eat("Some")
            self.eat("(")
            x = self.eat(kind="id")
            self.eat(")")
            self.eat("=")
            e = self.expr()
            a = self.block()
            if self.at("else"):
                self.eat("else")
                b = self.block()
                return ("iflet", x, e, a, b)
            return ("iflet_stmt", x, e, a)
        c = self.expr()
        a = self.block()
        if not self.at("else"):
            if a[1] is not None and a[1][0] != "macro":
                raise GenError("an if without else whose block has a value is outside the fragment")
            if a[1] is not None:
                a = (a[0] + [("expr", a[1])], None)
            return ("if_stmt", c, a)
        self.eat("else")
        if self.at("if"):
            inner = self.if_expr()
            b = ([inner], None) if inner[0] in ("if_stmt", "iflet_stmt", "ifelse_stmt", "iflet_tuple", "iflet_err") else ([], inner)
            if b[1] is None:
                return ("ifelse_stmt", c, a, b)
            return ("if", c, a, b)
        b = self.block()
        if a[1] is None and b[1] is None:
            return ("ifelse_stmt", c, a, b)
        return ("if", c, a, b)

    def expr_norange(self):
        return self.expr()

    def expr(self):
        a = self.conj()
        while self.at("||"):
            self.eat("||")
            a = ("bin", "||", a, self.conj())
        return a

    def conj(self):
        a = self.cmp()
        while self.at("&&"):
            self.eat("&&")
            a = ("bin", "&&", a, self.cmp())
        return a

    def cmp(self):
        a = self.add()
        while self.peek()[1] in ("<", "<=", ">", ">=", "==", "!="):
            op = self.eat()
            b = self.add()
            a = ("bin", op, a, b)
        return a

    def add(self):
        a = self.mul()
        while self.peek()[1] in ("+", "-"):
            op = self.eat()
            b = self.mul()
            a = ("bin", op, a, b)
        return a

    def mul(self):
        a = self.cast()
        while self.peek()[1] in ("*", "/", "%"):
            op = self.eat()
            b = self.cast()
            a = ("bin", op, a, b)
        return a

    def cast(self):
        a = self.unary()
        while self.at("as"):
            self.eat("as")
            a = ("as", a, self.type())
        return a

    def unary(self):
        if self.at("*"):
            self.eat("*")
            return ("deref", self.unary())
        if self.at("&"):
            self.eat("&")
            if self.at("mut"):
                if self.known is not None and self.peek(1)[1] == "self" and self.peek(2)[1] == "." and self.peek(3)[0] == "id" \
                        and self.peek(4)[1] == ";":
                    self.eat("mut"); self.eat("self"); self.eat(".")
                    return ("mutref_field", self.eat(kind="id"))      # let x = &mut self.f;  (x is another name of the field)
                raise GenError("a `&mut` borrow is outside the fragment")
            return ("ref", self.unary())
        if self.at("!"):
            self.eat("!")
            return ("not", self.unary())
        return self.postfix()

    def postfix(self):
        a = self.primary()
        while True:
            if self.at("."):
                if self.peek(1)[1] == ".":       # a range `a..b` lexes as `..`, never as two dots
                    break
                self.eat(".")
                if self.peek()[0] == "num" and self.known is not None:
                    a = ("field", a, self.eat(kind="num"))       # x.0 : the field of a tuple struct
                    continue
                name = self.eat(kind="id")
                if self.known is not None and self.at("::") and self.peek(1)[1] == "<":
                    # .name::<T>(..) : the type argument only selects an instance (sum::<u64>, collect::<Vec<_>>)
                    self.eat("::")
                    self.eat("<")
                    depth, targ = 1, ""
                    while depth:
                        kk, t = self.peek()
                        if kk == "eof":
                            raise GenError("unterminated type argument")
                        self.i += 1
                        if t == "<":
                            depth += 1
                        elif t == ">":
                            depth -= 1
                            if depth == 0:
                                break
                        targ += t
                    name = "%s::<%s>" % (name, targ)
                if self.at("("):
                    self.eat("(")
                    args = []
                    while not self.at(")"):
                        args.append(self.expr())
                        if self.at(","):
                            self.eat(",")
                    self.eat(")")
                    a = ("mcall", a, name, args)
                else:
                    a = ("field", a, name)
            elif self.at("["):
                self.eat("[")
                i = self.expr()
                self.eat("]")
                a = ("index", a, i)
            elif self.at("?"):
                self.eat("?")
                a = ("try", a)
            else:
                break
        return a

    def primary(self):
        k, v = self.peek()
        if k == "str":
            self.eat()
            return ("str", v)
        if k == "num":
            self.eat()
            m = re.match(r"([\d_]+)(u64|u32|usize|u16|u8)?$", v)
            return ("lit", int(m.group(1).replace("_", "")), m.group(2))
        if v == "(":
            self.eat("(")
            if self.at(")"):
                self.eat(")")
                return ("unit",)
            e = self.expr()
            if self.at(","):
                parts = [e]
                while self.at(","):
                    self.eat(",")
                    if self.at(")"):
                        break
                    parts.append(self.expr())
                self.eat(")")
                return ("tuple", parts)
            self.eat(")")
            return e
        if v == "||" and k == "op":             # closure without parameters
            self.eat("||")
            return ("closure", [], self.expr())
        if v == "|" and k == "op":              # closure |x, ..| body
            self.eat("|")
            names = []
            while not self.at("|"):
                if self.known is not None and self.at("("):
                    self.eat("(")                   # |(a, b)| ..  a tuple pattern
                    parts = []
                    while not self.at(")"):
                        parts.append(self.eat(kind="id"))
                        if self.at(","):
                            self.eat(",")
                    self.eat(")")
                    names.append(("tuple_pat", parts))
                else:
                    names.append(self.eat(kind="id"))
                if self.at(","):
                    self.eat(",")
            self.eat("|")
            if self.known is not None and self.at("*") and self.peek(1)[0] == "id":
                # |e| *e += x   and   |e| *e = v  : the closure updates what its parameter points to
                if self.peek(2)[1] == "+" and self.peek(3)[1] == "=":
                    self.eat("*"); tgt = self.eat(kind="id"); self.eat("+"); self.eat("=")
                    return ("closure", names, ("compound", "+", ("deref", ("var", tgt)), self.expr()))
                if self.peek(2)[1] == "=":
                    self.eat("*"); tgt = self.eat(kind="id"); self.eat("=")
                    return ("closure", names, ("assign_expr", ("deref", ("var", tgt)), self.expr()))
            return ("closure", names, self.expr())
        if v == "{" and k == "op":              # a block as an expression
            ss, tail = self.block()
            return ("block", ss, tail)
        if v in ("true", "false"):
            self.eat()
            return ("bool", v)
        if v == "if":
            return self.if_expr()
        if v == "match" and self.known is not None:
            # match e { Some(x) => value, None => value } with expressions as arms
            self.eat("match")
            scrut = self.expr()
            if scrut[0] == "tuple" and len(scrut[1]) == 2:
                # match (a, b) { (Some(x), Some(y)) => v1, _ => v2 }
                self.eat("{")
                self.eat("(")
                self.eat("Some"); self.eat("("); x1 = self.eat(kind="id"); self.eat(")")
                self.eat(",")
                self.eat("Some"); self.eat("("); x2 = self.eat(kind="id"); self.eat(")")
                self.eat(")")
                self.eat("=>")
                v1 = self.expr()
                if self.at(","):
                    self.eat(",")
                if self.eat(kind="id") != "_":
                    raise GenError("only `(Some(x), Some(y)) => .., _ => ..` is inside the fragment")
                self.eat("=>")
                v2 = self.expr()
                if self.at(","):
                    self.eat(",")
                self.eat("}")
                return ("match_pair", scrut[1][0], scrut[1][1], x1, x2, v1, v2)
            self.eat("{")
            arms = {}
            while not self.at("}"):
                if self.at("None"):
                    self.eat("None")
                    key, var = "None", None
                else:
                    self.eat("Some")
                    self.eat("(")
                    var = self.eat(kind="id")
                    self.eat(")")
                    key = "Some"
                self.eat("=>")
                arm = self.expr()
                if self.at(","):
                    self.eat(",")
                if key in arms:
                    raise GenError("match with two %s arms" % key)
                arms[key] = (var, arm)
            self.eat("}")
            if set(arms) != {"None", "Some"}:
                raise GenError("only `match <option> { None => .., Some(x) => .. }` is inside the fragment")
            return ("match_val", scrut, arms["None"][1], arms["Some"][0], arms["Some"][1])
        if v == "[" and k == "op" and self.known is not None:
            # [e; n] : an array of n copies
            self.eat("[")
            e = self.expr()
            self.eat(";")
            n = self.expr()
            self.eat("]")
            return ("array_rep", e, n)
        if k == "id" and self.known is not None and self.known.get(v, "").startswith("struct:") and self.peek(1)[1] == "{" \
                and self.peek(2)[0] == "id" and self.peek(3)[1] == ":":
            # S { f: e, .. } : a struct value
            self.eat()
            self.eat("{")
            inits = []
            while not self.at("}"):
                f = self.eat(kind="id")
                self.eat(":")
                inits.append((f, self.expr()))
                if self.at(","):
                    self.eat(",")
            self.eat("}")
            return ("struct_lit", v, inits)
        if k == "id":
            self.eat()
            while self.at("::"):          # a path: its last segment, qualified by an integer type if there is one
                self.eat("::")
                nxt = self.eat(kind="id")
                v = "%s::%s" % (v, nxt) if v in ("u32", "u64", "usize", "u128") \
                    or (self.known is not None and (self.known.get(v, "").startswith(("enum:", "struct:")) or self.known.get(v) == "path")) else nxt
            if self.at("!"):              # macro invocation: (receiver, "tag", format arguments ...)
                self.eat("!")
                self.eat("(")
                depth, args, cur = 1, [], []
                while depth:
                    kk, t = self.peek()
                    self.i += 1
                    if t in "([{":
                        depth += 1
                    elif t in ")]}":
                        depth -= 1
                        if depth == 0:
                            break
                    if t == "," and depth == 1:
                        args.append(cur)
                        cur = []
                    else:
                        cur.append((kk, t))
                args.append(cur)
                return ("macro", v, args)
            if self.at("("):
                self.eat("(")
                args = []
                while not self.at(")"):
                    args.append(self.expr())
                    if self.at(","):
                        self.eat(",")
                self.eat(")")
                return ("call", v, args)
            return ("var", v)
        if v == "(" :
            pass
        raise GenError("unexpected token %r in an expression" % v)


# ---------------------------------------------------------------- code generation

INT = ("u64", "usize", "u32", "u128")


class Gen:
    def __init__(self, struct, fields, methods, policy_fields=None):
        self.struct, self.fields, self.methods = struct, dict(fields), methods
        self.tmp = 0
        self.policy_fields = policy_fields or {}
        self.policy_used = []
        self.consts = {}

    def fresh(self):
        self.tmp += 1
        return "t%d" % self.tmp

    def setter(self, f, v):
        args = " ".join("(%s)" % v if g == f else "(%s self)" % self.fname(g) for g, _ in self.field_list)
        return "(mk_%s %s)" % (self.struct, args)

    def fname(self, f):
        return "%s_%s" % (self.struct, f)

    # expressions: -> (binds, code, type); binds = [(name, trap-valued code)]
    def expr(self, e, env, want=None):
        k = e[0]
        if k == "lit":
            ty = e[2] or want or "u64"
            return [], "%d" % e[1], ty
        if k == "bool":
            return [], e[1], "bool"
        if k == "var":
            if e[1] == "None":
                return [], "None", want or "opt_id"
            if e[1] in ("u32::MAX", "u64::MAX", "usize::MAX"):
                t_ = e[1].split("::")[0]
                return [], {"u32": "U32MAX", "u64": "U64MAX", "usize": "U64MAX"}[t_], t_
            if e[1] not in env and e[1] in self.consts:
                return [], "%d" % self.consts[e[1]][1], self.consts[e[1]][0]
            if e[1] not in env:
                raise GenError("unknown variable %s" % e[1])
            return [], e[1], env[e[1]]
        if k == "deref":
            return self.expr(e[1], env, want)
        if k == "field" and e[1] == ("field", ("var", "self"), "policy"):
            f = e[2]
            if f not in self.policy_fields:
                raise GenError("self.policy.%s: unknown policy field" % f)
            if f not in self.policy_used:
                self.policy_used.append(f)
            return [], "policy_%s" % f, self.policy_fields[f]
        if k == "if":
            b0, c0, t0 = self.expr(e[1], env)
            if t0 != "bool":
                raise GenError("if on a non-boolean")
            ta, ty_a = self.value_block(e[2], env, want)
            tb, ty_b = self.value_block(e[3], env, ty_a)
            if ty_a != ty_b:
                raise GenError("if: branches of type %s and %s" % (ty_a, ty_b))
            x = self.fresh()
            return b0 + [(x, "(if %s\nthen (%s)\nelse (%s))" % (c0, ta, tb))], x, ty_a
        if k == "iflet":
            b0, c0, t0 = self.expr(e[2], env)
            if t0 != "opt_u64":
                raise GenError("if let Some(..) on a %s" % t0)
            env_a = dict(env)
            env_a[e[1]] = "u64"
            ta, ty_a = self.value_block(e[3], env_a, want)
            tb, ty_b = self.value_block(e[4], env, ty_a)
            if ty_a != ty_b:
                raise GenError("if let: branches of type %s and %s" % (ty_a, ty_b))
            x = self.fresh()
            return b0 + [(x, "match %s with\n| Some %s => (%s)\n| None => (%s)\nend" % (c0, e[1], ta, tb))], x, ty_a
        if k == "try":
            inner = e[1]
            if inner[0] == "mcall" and inner[2] == "ok_or" and inner[1][0] == "mcall" and inner[1][2] == "checked_mul":
                b1, a, ta = self.expr(inner[1][1], env)
                b2, c, tc = self.expr(inner[1][3][0], env, ta)
                if ta != "u64" or tc != "u64":
                    raise GenError("checked_mul on %s" % ta)
                x = self.fresh()
                return b1 + b2 + [(x, "mul_checked %s %s" % (a, c), "try")], x, "u64"
            raise GenError("`?` on %r is outside the fragment" % (inner,))
        if k == "field":
            if e[1] != ("var", "self") or e[2] not in self.fields:
                raise GenError("field access %r is outside the fragment (or the field has a type outside it)" % (e,))
            return [], "(%s self)" % self.fname(e[2]), self.fields[e[2]]
        if k == "as":
            b, c, t = self.expr(e[1], env)
            if t not in INT or e[2] not in INT:
                raise GenError("cast to %s is outside the fragment" % e[2])
            if e[2] == "u32" and t != "u32":
                raise GenError("narrowing cast to u32 is outside the fragment")
            if t == "u128" and e[2] != "u128":
                raise GenError("narrowing cast from u128 is outside the fragment")
            # u32 -> u64/usize, u64 <-> usize: the identity on a 64-bit target
            return b, c, e[2]
        if k == "index":
            b1, v, tv = self.expr(e[1], env)
            b2, i, ti = self.expr(e[2], env, "usize")
            if tv != "vec":
                raise GenError("indexing a non-vector")
            x = self.fresh()
            return b1 + b2 + [(x, "vec_get %s %s" % (v, i))], x, "u64"
        if k == "call":
            if e[1] in ("min", "max") and len(e[2]) == 2:
                b1, a, ta = self.expr(e[2][0], env)
                b2, c, tc = self.expr(e[2][1], env, ta)
                if ta != tc or ta not in INT:
                    raise GenError("%s of %s and %s" % (e[1], ta, tc))
                return b1 + b2, "(N.%s %s %s)" % (e[1], a, c), ta
            if e[1] == "u32::try_from" and len(e[2]) == 1:
                b1, a, ta = self.expr(e[2][0], env)
                if ta not in INT:
                    raise GenError("u32::try_from of a %s" % ta)
                return b1, "(if %s <=? U32MAX then Some %s else None)" % (a, a), "opt_u32"
            if e[1] == "Ok" and e[2] == [("unit",)]:
                return [], "true", "result_unit"
            if e[1] == "Some" and len(e[2]) == 1:
                b1, a, ta = self.expr(e[2][0], env)
                if ta in ("u32", "u64"):
                    return b1, "(Some %s)" % a, "opt_" + ta
                if ta.startswith("tuple:"):
                    return b1, "(Some %s)" % a, "opt:" + ta
                if ta != "id":
                    raise GenError("Some(..) of a %s is outside the fragment" % ta)
                return b1, "(Some %s)" % a, "opt_id"
            raise GenError("call of %s is outside the fragment" % e[1])
        if k == "mcall":
            recv, name, args = e[1], e[2], e[3]
            if name == "saturating_add" and len(args) == 1:
                b1, a, ta = self.expr(recv, env)
                b2, c, tc = self.expr(args[0], env, ta)
                if ta != "u64" or tc != "u64":
                    raise GenError("saturating_add on %s" % ta)
                return b1 + b2, "(sat_add %s %s)" % (a, c), "u64"
            if name == "saturating_sub" and len(args) == 1:
                b1, a, ta = self.expr(recv, env)
                b2, c, tc = self.expr(args[0], env, ta)
                if ta != tc or ta not in INT:
                    raise GenError("saturating_sub on %s and %s" % (ta, tc))
                return b1 + b2, "(%s - %s)" % (a, c), ta          # N subtraction truncates at 0
            if name == "unwrap_or" and len(args) == 1:
                b1, a, ta = self.expr(recv, env)
                if ta not in ("opt_u32", "opt_u64"):
                    raise GenError("unwrap_or on a %s" % ta)
                inner = "u32" if ta == "opt_u32" else "u64"
                # the argument of unwrap_or is evaluated whether or not it is needed
                b2, c, tc = self.expr(args[0], env, inner)
                if tc != inner:
                    raise GenError("unwrap_or(%s) on %s" % (tc, ta))
                return b1 + b2, "(match %s with Some v_ => v_ | None => %s end)" % (a, c), inner
            if recv == ("var", "self") and name in self.methods and self.methods[name]["selfmode"] == "ref" and args:
                m2 = self.methods[name]
                if len(args) != len(m2["params"]):
                    raise GenError("call of %s with %d arguments" % (name, len(args)))
                bs, cs = [], []
                for a_, (pn, pt) in zip(args, m2["params"]):
                    b_, c_, t_ = self.expr(a_, env, pt)
                    if t_ != pt:
                        raise GenError("argument %s of %s: %s given, %s expected" % (pn, name, t_, pt))
                    bs += b_
                    cs.append(c_)
                x = self.fresh()
                return bs + [(x, "gen_%s prof self %s" % (name, " ".join(cs)))], x, m2["ret"]
            if name == "clone" and not args:
                b1, a, ta = self.expr(recv, env)
                if ta not in ("opt_id", "id"):
                    raise GenError(".clone() of a %s is outside the fragment" % ta)
                return b1, a, ta
            if name == "into" and not args:
                b1, a, ta = self.expr(recv, env)
                if ta == "u8" and (want or "u64") == "u64":
                    return b1, a, "u64"
                raise GenError(".into() from %s is outside the fragment" % ta)
            if name == "len" and not args:
                b1, v, tv = self.expr(recv, env)
                if tv != "vec":
                    raise GenError("len of a non-vector")
                return b1, "(vec_len %s)" % v, "usize"
            if recv == ("var", "self") and name in self.methods and self.methods[name]["selfmode"] == "ref" and not args:
                x = self.fresh()
                return [(x, "gen_%s prof self" % name)], x, self.methods[name]["ret"]
            raise GenError("method call .%s(..) is outside the fragment" % name)
        if k == "bin" and e[1] in ("||", "&&"):
            b1, a, ta = self.expr(e[2], env)
            b2, c, tc = self.expr(e[3], env)
            if ta != "bool" or tc != "bool":
                raise GenError("%s on %s and %s" % (e[1], ta, tc))
            if b2:
                # Rust evaluates the right operand only if needed; hoisting an operation that can panic
                # out of it would change the meaning
                raise GenError("an operation that can panic on the right of %s is outside the fragment" % e[1])
            return b1, "(%s %s %s)" % (a, e[1], c), "bool"
        if k == "bin":
            op = e[1]
            b1, a, ta = self.expr(e[2], env, want if op in "+-*/%" else None)
            b2, c, tc = self.expr(e[3], env, ta if ta in INT else None)
            if e[2][0] == "lit" and e[2][2] is None and tc in INT:
                ta = tc
            if ta != tc or ta not in INT:
                raise GenError("operator %s on %s and %s" % (op, ta, tc))
            if op in ("<", "<=", ">", ">=", "==", "!="):
                code = {"<": "(%s <? %s)", "<=": "(%s <=? %s)", ">": "(%s <? %s)", ">=": "(%s <=? %s)",
                        "==": "(%s =? %s)", "!=": "(negb (%s =? %s))"}[op]
                x, y = (c, a) if op in (">", ">=") else (a, c)
                return b1 + b2, code % (x, y), "bool"
            if ta == "u32":
                if op not in ("+", "-"):
                    raise GenError("u32 %s is outside the fragment" % op)
                fn = {"+": "add32_p prof", "-": "sub32_p prof"}[op]
            elif ta == "u128":
                if op not in ("+", "*", "/"):
                    raise GenError("u128 %s is outside the fragment" % op)
                fn = {"+": "add128_p prof", "*": "mul128_p prof", "/": "div_p"}[op]
            else:
                fn = {"+": "add_p prof", "-": "sub_p prof", "*": "mul_p prof", "/": "div_p", "%": "rem_p"}[op]
            x = self.fresh()
            return b1 + b2 + [(x, "%s %s %s" % (fn, a, c))], x, ta
        raise GenError("expression %r is outside the fragment" % (e,))

    # statements, in continuation style: returns Gallina text of "the rest of the block after stmts"
    def emit_binds(self, binds, k):
        for b in reversed(binds):
            name, code = b[0], b[1]
            if len(b) > 2 and b[2] == "try":
                # `expr?` : the function returns Err when the option is None
                if self.cur["ret"] != "result_unit":
                    raise GenError("`?` in a function that does not return Result<(), _>")
                k = "match %s with\n| Some %s =>\n%s\n| None => %s\nend" % (code, name, k, self.leave("false"))
            else:
                k = "%s <- %s ;;\n%s" % (name, code, k)
        return k

    PRINTABLE = ("u8", "u16", "u32", "u64", "usize", "u128", "bool", "str")

    def fmt_arg_binds(self, arglists, env):
        """arguments of a formatting macro: (format string, expressions ...) as token lists -> the binds their
        evaluation needs (in order).  Formatting an integer, a bool or a string cannot panic; anything else is
        outside the fragment.  Identifiers captured inside the format string are variable reads."""
        if not arglists or len(arglists[0]) != 1 or arglists[0][0][0] != "str":
            raise GenError("a formatting macro without a literal format string is outside the fragment")
        binds = []
        for toks in arglists[1:]:
            if not toks:
                continue                     # trailing comma
            pp = P(list(toks) + [("eof", "")], getattr(self, "known", None))
            ex = pp.expr()
            if pp.peek()[0] != "eof":
                raise GenError("format argument %r is outside the fragment" % (toks,))
            if ex[0] == "macro" and ex[1] in ("containing_function", "short_function") and ex[2] == [[]]:
                continue                     # the name of the enclosing function: a constant string
            if self.renders_only(ex, env):
                continue                     # e.g. v.into_iter().map(|h| h.0.to_hex()).collect::<Vec<_>>() over opaque values
            b, c, t = self.expr(ex, env)
            if t not in self.PRINTABLE:
                raise GenError("format argument of type %s is outside the fragment" % t)
            binds += b
        return binds

    def renders_only(self, ex, env):
        """an iterator chain over a local vector of opaque values that only renders them (into_iter / iter / map with a
        closure made of field reads and to_hex / to_string / clone / collect): cannot panic, has no effect"""
        chain = []
        while ex[0] == "mcall":
            chain.append((ex[2].split("::<")[0], ex[3]))
            ex = ex[1]
        if not (ex[0] == "var" and env.get(ex[1]) == "vec_id" and chain):
            return False
        for name, args in chain:
            if name in ("into_iter", "iter", "collect") and not args:
                continue
            if name == "map" and len(args) == 1 and args[0][0] == "closure" and len(args[0][1]) == 1:
                body = args[0][2]
                while body[0] in ("mcall", "field"):
                    if body[0] == "mcall" and (body[2] not in ("to_hex", "to_string", "clone") or body[3]):
                        return False
                    body = body[1]
                if body == ("var", args[0][1][0]):
                    continue
            return False
        return True

    def leave(self, code):
        return "Val (self, %s)" % code if self.cur["selfmode"] == "mut" else "Val %s" % code

    def value_block(self, blk, env, want=None):
        """a block used as a value: -> (monadic text ending in Val <value>, type)"""
        ss, tail = blk
        if tail is None:
            raise GenError("a block used as a value has no value")
        box = {}

        def k(env2):
            b, c, t = self.expr(tail, env2, want)
            box["t"] = t
            return self.emit_binds(b, "Val %s" % c)
        text = self.stmts(ss, env, k)
        return text, box["t"]

    def assigned(self, stmts):
        """variables (and `self`) a list of statements assigns"""
        out = []
        for s in stmts:
            if s[0] == "assign":
                tgt = s[1]
                while tgt[0] in ("index", "field"):
                    tgt = tgt[1]
                out.append(tgt[1])
            elif s[0] == "expr" and s[1][0] == "mcall" and s[1][2] in ("resize", "insert"):
                out.append("self")
            elif s[0] in ("for_range",):
                out += self.assigned(s[4])
            elif s[0] == "for_iter":
                out += self.assigned(s[3])
            elif s[0] == "if_stmt":
                out += self.assigned(s[2][0])
            elif s[0] == "iflet_stmt":
                out += self.assigned(s[3][0])
        seen = []
        for x in out:
            if x not in seen:
                seen.append(x)
        return seen

    def ret_value(self, e, env):
        m = self.cur
        b, c, t = self.expr(e, env, m["ret"])
        if t != m["ret"]:
            raise GenError("fn %s returns %s, `return` has %s" % (m["name"], m["ret"], t))
        return self.emit_binds(b, "Val (self, %s)" % c if m["selfmode"] == "mut" else "Val %s" % c)

    def stmts(self, ss, env, k):
        """k : function env -> text of the continuation"""
        if not ss:
            return k(env)
        s, rest = ss[0], ss[1:]
        if s[0] == "return":
            return self.ret_value(s[1], env)
        if s[0] == "if_stmt" and not self.assigned(s[2][0]):
            b, c, t = self.expr(s[1], env)
            if t != "bool":
                raise GenError("if on a non-boolean")
            # the block, then whatever follows the if (a `return` inside the block drops it)
            inside = self.stmts(s[2][0] + rest, env, k)
            return self.emit_binds(b, "if %s\nthen (%s)\nelse (%s)" % (c, inside, self.stmts(rest, env, k)))
        if s[0] == "iflet_stmt":
            b, c, t = self.expr(s[2], env)
            if t != "opt_u64":
                raise GenError("if let Some(..) on a %s" % t)
            if s[3][1] is not None or self.assigned(s[3][0]):
                raise GenError("an if let without else that has a value or assigns is outside the fragment")
            env_a = dict(env)
            env_a[s[1]] = "u64"
            inside = self.stmts(s[3][0] + rest, env_a, k)
            return self.emit_binds(b, "match %s with\n| Some %s => (%s)\n| None => (%s)\nend" % (c, s[1], inside, self.stmts(rest, env, k)))
        if s[0] == "expr" and s[1][0] == "macro" and s[1][1] in ("debug", "trace", "info", "warn"):
            return self.stmts(rest, env, k)          # logging: no effect on the state
        if s[0] == "expr" and s[1][0] == "macro" and s[1][1] in ("assert", "assert_eq", "assert_ne"):
            name, args = s[1][1], s[1][2]
            exprs = [P(a + [("eof", "")]).expr() for a in args[: 1 if name == "assert" else 2]]
            if name == "assert":
                b, c, t = self.expr(exprs[0], env)
                if t != "bool":
                    raise GenError("assert! on a non-boolean")
            else:
                b1, a1, t1 = self.expr(exprs[0], env)
                b2, a2, t2 = self.expr(exprs[1], env, t1)
                if exprs[0][0] == "lit" and exprs[0][2] is None:
                    t1 = t2
                if t1 != t2 or t1 not in INT:
                    raise GenError("%s! on %s and %s" % (name, t1, t2))
                b, c = b1 + b2, ("(%s =? %s)" if name == "assert_eq" else "(negb (%s =? %s))") % (a1, a2)
            return self.emit_binds(b, "if %s\nthen (%s)\nelse Trap" % (c, self.stmts(rest, env, k)))
        if s[0] in ("if_stmt", "ifelse_stmt") and (self.assigned(s[2][0]) or (s[0] == "ifelse_stmt" and self.assigned(s[3][0]))):
            # branches that assign: the assigned variables are the value of the statement
            carried = self.assigned(s[2][0] + (s[3][0] if s[0] == "ifelse_stmt" else []))
            for blk in ([s[2]] + ([s[3]] if s[0] == "ifelse_stmt" else [])):
                if any(x[0] == "return" for x in blk[0]):
                    raise GenError("a branch that both assigns and returns is outside the fragment")
            for x in carried:
                if x != "self" and x not in env:
                    raise GenError("branch assigns unknown variable %s" % x)
            tup = carried[0] if len(carried) == 1 else "(" + ", ".join(carried) + ")"
            pat = carried[0] if len(carried) == 1 else "'(" + ", ".join(carried) + ")"
            b, c, t = self.expr(s[1], env)
            if t != "bool":
                raise GenError("if on a non-boolean")
            then_t = self.stmts(s[2][0], env, lambda e2: "Val %s" % tup)
            else_t = self.stmts(s[3][0], env, lambda e2: "Val %s" % tup) if s[0] == "ifelse_stmt" else "Val %s" % tup
            return self.emit_binds(b, "%s <- (if %s\nthen (%s)\nelse (%s)) ;;\n%s" % (pat, c, then_t, else_t, self.stmts(rest, env, k)))
        if s[0] == "ifelse_stmt":
            b, c, t = self.expr(s[1], env)
            if t != "bool":
                raise GenError("if on a non-boolean")
            return self.emit_binds(b, "if %s\nthen (%s)\nelse (%s)" % (
                c, self.stmts(s[2][0] + rest, env, k), self.stmts(s[3][0] + rest, env, k)))
        if s[0] == "expr" and s[1][0] == "macro":
            name, args = s[1][1], s[1][2]
            if name == "policy_err" and len(args) >= 2 and args[0] == [("id", "self")] and len(args[1]) == 1 and args[1][0][0] == "str":
                if self.cur["ret"] != "result_unit":
                    raise GenError("policy_err! in a function that does not return Result<(), _>")
                # the message is formatted first (its arguments are evaluated: an operation that can panic there is
                # kept), then policy_error(tag, ..)? : Err unless the policy filter downgrades the tag to a warning
                fb = self.fmt_arg_binds(args[2:], env)
                return self.emit_binds(fb, "if warn %s%%string\nthen (%s)\nelse %s" % (args[1][0][1], self.stmts(rest, env, k), self.leave("false")))
            raise GenError("macro %s! is outside the fragment" % name)
        if s[0] == "let":
            if not isinstance(s[1], str):
                raise GenError("a tuple pattern in `let` is outside the fragment")
            if re.match(r"^t\d+$", s[1]) or any(s[1] in c_ for c_ in getattr(self, "carried_stack", [])):
                raise GenError("`let %s` would capture a name of the generated text or rebind a loop-carried variable" % s[1])
            b, c, t = self.expr(s[3], env, s[2])
            if s[2] and s[2] != t:
                raise GenError("let %s: declared %s, expression has %s" % (s[1], s[2], t))
            env2 = dict(env)
            env2[s[1]] = t
            return self.emit_binds(b, "let %s := %s in\n%s" % (s[1], c, self.stmts(rest, env2, k)))
        if s[0] == "assign":
            tgt, rhs = s[1], s[2]
            if tgt[0] == "var":
                if tgt[1] not in env:
                    raise GenError("assignment to unknown variable %s" % tgt[1])
                b, c, t = self.expr(rhs, env, env[tgt[1]])
                return self.emit_binds(b, "let %s := %s in\n%s" % (tgt[1], c, self.stmts(rest, env, k)))
            if tgt[0] == "field" and tgt[1] == ("var", "self") and rhs[0] == "mcall" and rhs[2] == "take" and not rhs[3] \
                    and rhs[1][0] == "field" and rhs[1][1] == ("var", "self"):
                # self.a = self.b.take();  : a gets b's value, b becomes None
                src_f = rhs[1][2]
                if self.fields.get(src_f) != "opt_id" or self.fields.get(tgt[2]) != "opt_id":
                    raise GenError(".take() between fields that are not Option<opaque> is outside the fragment")
                x = self.fresh()
                return "let %s := (%s self) in\nlet self := %s in\nlet self := %s in\n%s" % (
                    x, self.fname(src_f), self.setter(src_f, "None"), self.setter(tgt[2], x), self.stmts(rest, env, k))
            if tgt[0] == "field" and tgt[1] == ("var", "self"):
                if tgt[2] not in self.fields:
                    raise GenError("self.%s has a type outside the fragment" % tgt[2])
                b, c, t = self.expr(rhs, env, self.fields[tgt[2]])
                if t != self.fields[tgt[2]]:
                    raise GenError("self.%s: %s assigned a %s" % (tgt[2], self.fields[tgt[2]], t))
                return self.emit_binds(b, "let self := %s in\n%s" % (self.setter(tgt[2], c), self.stmts(rest, env, k)))
            if tgt[0] == "index" and tgt[1][0] == "field" and tgt[1][1] == ("var", "self"):
                f = tgt[1][2]
                b1, i, ti = self.expr(tgt[2], env, "usize")
                b2, c, t = self.expr(rhs, env, "u64")
                x = self.fresh()
                return self.emit_binds(b1 + b2 + [(x, "vec_set (%s self) %s %s" % (self.fname(f), i, c))],
                                       "let self := %s in\n%s" % (self.setter(f, x), self.stmts(rest, env, k)))
            raise GenError("assignment target %r is outside the fragment" % (tgt,))
        if s[0] == "expr":
            e = s[1]
            if e[0] == "mcall" and e[1][0] == "field" and e[1][1] == ("var", "self") and self.fields.get(e[1][2]) == "vec":
                f = e[1][2]
                if e[2] == "resize" and len(e[3]) == 2:
                    b1, n, tn = self.expr(e[3][0], env, "usize")
                    b2, v, tv = self.expr(e[3][1], env, "u64")
                    return self.emit_binds(b1 + b2, "let self := %s in\n%s" % (
                        self.setter(f, "vec_resize (%s self) %s %s" % (self.fname(f), n, v)), self.stmts(rest, env, k)))
                if e[2] == "insert" and len(e[3]) == 2:
                    b1, i, ti = self.expr(e[3][0], env, "usize")
                    b2, v, tv = self.expr(e[3][1], env, "u64")
                    x = self.fresh()
                    return self.emit_binds(b1 + b2 + [(x, "vec_insert (%s self) %s %s" % (self.fname(f), i, v))],
                                           "let self := %s in\n%s" % (self.setter(f, x), self.stmts(rest, env, k)))
            raise GenError("statement %r is outside the fragment" % (e,))
        if s[0] in ("for_range", "for_iter"):
            body = s[4] if s[0] == "for_range" else s[3]
            carried = self.assigned(body)
            if not carried:
                raise GenError("a loop that assigns nothing is outside the fragment")
            for x in carried:
                if x != "self" and x not in env:
                    raise GenError("loop assigns unknown variable %s" % x)
            tup = carried[0] if len(carried) == 1 else "(" + ", ".join(carried) + ")"
            pat = carried[0] if len(carried) == 1 else "'(" + ", ".join(carried) + ")"
            env_b = dict(env)
            return self.loop_stmt(s, rest, env, k, body, carried, tup, pat, env_b)
        raise GenError("statement %r is outside the fragment" % (s,))

    def loop_body(self, body, env_b, carried, tup):
        """the body of a loop; inside it a `let` must not rebind a loop-carried variable (the loop hands on the
        variable of that name at the end of the body)"""
        self.carried_stack = getattr(self, "carried_stack", []) + [carried]
        try:
            return self.stmts(body, env_b, lambda e2: "Val %s" % tup)
        finally:
            self.carried_stack = self.carried_stack[:-1]

    def loop_stmt(self, s, rest, env, k, body, carried, tup, pat, env_b):
        if True:
            if s[0] == "for_range":
                if s[2] != ("lit", 0, None):
                    raise GenError("a range that does not start at 0 is outside the fragment")
                b, n, tn = self.expr(s[3], env, "usize")
                if s[1] != "_":
                    raise GenError("a loop variable over a range is outside the fragment")
                inner = self.loop_body(body, env_b, carried, tup)
                loop = "iter_p (N.to_nat %s) (fun %s =>\n%s) %s" % (n, pat if len(carried) == 1 else "st => let " + pat + " := st in", inner, tup) \
                    if len(carried) == 1 else \
                    "iter_p (N.to_nat %s) (fun st => let %s := st in\n%s) %s" % (n, pat, inner, tup)
                return self.emit_binds(b, "%s <- %s ;;\n%s" % (pat, loop, self.stmts(rest, env, k)))
            else:
                it = s[2]
                if not (it[0] == "mcall" and it[2] == "iter" and not it[3]):
                    raise GenError("only `for x in <vec>.iter()` is inside the fragment")
                b, v, tv = self.expr(it[1], env)
                if tv != "vec":
                    raise GenError("iter over a non-vector")
                env_b[s[1]] = "u64"
                inner = self.loop_body(body, env_b, carried, tup)
                if len(carried) == 1:
                    loop = "fold_p (fun %s %s =>\n%s) %s %s" % (carried[0], s[1], inner, v, tup)
                else:
                    loop = "fold_p (fun st %s => let %s := st in\n%s) %s %s" % (s[1], pat, inner, v, tup)
                return self.emit_binds(b, "%s <- %s ;;\n%s" % (pat, loop, self.stmts(rest, env, k)))
        raise GenError("statement %r is outside the fragment" % (s,))

    def block_value(self, blk, env, m):
        ss, tail = blk

        def k(env2):
            if tail is None:
                if m["ret"] != "unit":
                    raise GenError("fn %s: block without a value" % m["name"])
                return "Val self" if m["selfmode"] == "mut" else "Val tt"
            if tail[0] == "if":
                b, c, t = self.expr(tail[1], env2)
                if t != "bool":
                    raise GenError("if on a non-boolean")
                return self.emit_binds(b, "if %s\nthen (%s)\nelse (%s)" % (
                    c, self.block_value(tail[2], env2, m), self.block_value(tail[3], env2, m)))
            b, c, t = self.expr(tail, env2, m["ret"])
            if t != m["ret"]:
                raise GenError("fn %s returns %s, tail expression has %s" % (m["name"], m["ret"], t))
            return self.emit_binds(b, "Val (self, %s)" % c if m["selfmode"] == "mut" else "Val %s" % c)
        return self.stmts(ss, env, k)

    def method(self, m):
        env = {x: t for x, t in m["params"]}
        self.cur = m
        rt = {"u64": "N", "usize": "N", "u32": "N", "bool": "bool", "unit": "unit", "vec": "list N", "result_unit": "bool", "opt_id": "option N", "id": "N", "u128": "N"}[m["ret"]]
        params = " ".join("(%s : %s)" % (x, {"bool": "bool", "vec": "list N", "opt_u64": "option N", "opt_id": "option N", "opt_u32": "option N"}.get(t, "N")) for x, t in m["params"])
        res = ("(%s * %s)" % (self.struct, rt) if m["ret"] != "unit" else self.struct) if m["selfmode"] == "mut" else rt
        self.tmp = 0
        self.policy_used = []
        body = self.block_value(m["body"], env, m)
        if m["selfmode"] == "free":
            return "Definition gen_%s (prof : profile) %s : trap %s :=\n%s." % (m["name"], params, paren(res), indent(body))
        if self.struct is None:
            # a method of a validator: `self` only reaches the policy; its fields and the filter are parameters
            pol = " ".join("(policy_%s : N)" % f for f in self.policy_used)
            return "Definition gen_%s (prof : profile) (warn : string -> bool) %s %s : trap %s :=\n%s." % (m["name"], pol, params, paren(res), indent(body))
        return "Definition gen_%s (prof : profile) (self : %s) %s : trap %s :=\n%s." % (m["name"], self.struct, params, paren(res), indent(body))

    field_list = []


def paren(t):
    return "(%s)" % t if " " in t and not t.startswith("(") else t


def indent(s):
    return "\n".join("  " + l for l in s.splitlines())


def translate(path, struct, impl, names, coq_struct):
    src = open(path).read()
    fields = struct_fields(src, struct)
    methods = {}
    texts = {}
    for n in names:
        texts[n] = fn_source(src, impl, n)
        methods[n] = P(lex(texts[n])).fn()
    g = Gen(coq_struct, fields, methods)
    g.field_list = fields
    out = []
    tmap = {"u64": "N", "usize": "N", "u32": "N", "bool": "bool", "vec": "list N"}
    out.append("Record %s := mk_%s {\n%s\n}." % (coq_struct, coq_struct, ";\n".join(
        "  %s_%s : %s" % (coq_struct, f, tmap[t]) for f, t in fields)))
    for n in names:      # callees first: the caller lists them in dependency order
        out.append("(* %s\n%s *)\n%s" % (n, "\n".join("   " + l for l in texts[n].strip().replace("(*", "( *").replace("*)", "* )").splitlines()),
                                            g.method(methods[n])))
    return "\n\n".join(out), fields


def generate_velocity(repo):
    path = os.path.join(repo, "vls-core", "src", "util", "velocity.rs")
    body, fields = translate(path, "VelocityControl", "VelocityControl", ["velocity", "insert"], "rvc")
    text = ("(** GENERATED by tools/gen_rustfn.py from vls-core/src/util/velocity.rs (struct VelocityControl,\n"
            "    fn velocity, fn insert) - do not edit.  One Gallina definition per method, statement by statement;\n"
            "    the meaning of every construct is in Base/Rust.v. *)\n"
            "From VLS Require Export Base.Rust.\n\n" + body + "\n")
    out = os.path.join(ROOT, "coq", "theories", "Gen", "VelocityGen.v")
    if not os.path.exists(out) or open(out).read() != text:
        open(out, "w").write(text)
    return {"translated": ["VelocityControl::velocity", "VelocityControl::insert"], "fields": [f for f, _ in fields]}


def policy_field_types(src, struct):
    """name -> type of the integer fields of a policy struct (fields of other types are not needed)"""
    m = re.search(r"pub struct %s\s*\{(.*?)\n\}" % re.escape(struct), src, re.S)
    if not m:
        raise GenError("struct %s not found" % struct)
    out = {}
    for fm in re.finditer(r"pub\s+([a-z_][a-z0-9_]*)\s*:\s*(u64|u32|u16|u8|usize)\s*,", m.group(1)):
        out[fm.group(1)] = fm.group(2)
    return out


def generate_payments(repo):
    path = os.path.join(repo, "vls-core", "src", "policy", "simple_validator.rs")
    src = open(path).read()
    pol = policy_field_types(src, "SimplePolicy")
    name = "validate_payment_balance"
    text_fn = fn_source(src, "SimpleValidator", name)
    m = P(lex(text_fn)).fn()
    g = Gen(None, [], {name: m}, pol)
    body = g.method(m)
    text = ("(** GENERATED by tools/gen_rustfn.py from vls-core/src/policy/simple_validator.rs\n"
            "    (SimpleValidator::validate_payment_balance) - do not edit.  Statement by statement; the meaning of\n"
            "    every construct is in Base/Rust.v.  Result<(), ValidationError> is rendered as bool (true = Ok),\n"
            "    `policy_err!(self, tag, ..)` as: Err unless the policy filter [warn] downgrades the tag. *)\n"
            "From Coq Require Import String.\nFrom VLS Require Export Base.Rust.\n\n"
            "(* %s\n%s *)\n%s\n" % (name, "\n".join("   " + l for l in text_fn.strip().replace("(*", "( *").replace("*)", "* )").splitlines()), body))
    out = os.path.join(ROOT, "coq", "theories", "Gen", "PaymentsGen.v")
    if not os.path.exists(out) or open(out).read() != text:
        open(out, "w").write(text)
    return {"translated": ["SimpleValidator::validate_payment_balance"], "policy_fields": list(g.policy_used)}


def generate_enforcement(repo):
    path = os.path.join(repo, "vls-core", "src", "policy", "validator.rs")
    src = open(path).read()
    names = ["set_next_counterparty_commit_num", "set_next_counterparty_revoke_num",
             "get_previous_counterparty_point", "get_previous_counterparty_commit_info",
             "set_next_holder_commit_num"]
    fields = struct_fields(src, "EnforcementState", skip_unknown=True)
    methods, texts = {}, {}
    for n in names:
        texts[n] = fn_source(src, "EnforcementState", n)
        methods[n] = P(lex(texts[n])).fn()
    g = Gen("res", fields, methods)
    g.field_list = fields
    tmap = {"u64": "N", "usize": "N", "u32": "N", "bool": "bool", "vec": "list N", "opt_id": "option N", "id": "N"}
    out = ["Record res := mk_res {\n%s\n}." % ";\n".join("  res_%s : %s" % (f, tmap[t]) for f, t in fields)]
    for n in names:
        out.append("(* %s\n%s *)\n%s" % (n, "\n".join("   " + l for l in texts[n].strip().replace("(*", "( *").replace("*)", "* )").splitlines()),
                                            g.method(methods[n])))
    text = ("(** GENERATED by tools/gen_rustfn.py from vls-core/src/policy/validator.rs (struct EnforcementState: the\n"
            "    fields whose types are inside the fragment; fn set_next_counterparty_commit_num, fn\n"
            "    set_next_counterparty_revoke_num, fn get_previous_counterparty_point, fn\n"
            "    get_previous_counterparty_commit_info) - do not edit.  Keys and commitment contents are opaque identities. *)\n"
            "From VLS Require Export Base.Rust.\n\n" + "\n\n".join(out) + "\n")
    outp = os.path.join(ROOT, "coq", "theories", "Gen", "EnforcementGen.v")
    if not os.path.exists(outp) or open(outp).read() != text:
        open(outp, "w").write(text)
    return {"translated": ["EnforcementState::" + n for n in names], "fields": [f for f, _ in fields]}


def const_table(src):
    """`const NAME: T = <integer>;` declarations of a file"""
    out = {}
    for m in re.finditer(r"\n(?:pub(?:\([a-z]+\))? )?const ([A-Z_][A-Z0-9_]*)\s*:\s*(u64|u32|usize)\s*=\s*([\d_]+)\s*;", src):
        out[m.group(1)] = (m.group(2), int(m.group(3).replace("_", "")))
    return out


def generate_txutil(repo):
    path = os.path.join(repo, "vls-core", "src", "util", "transaction_utils.rs")
    src = open(path).read()
    names = ["estimate_feerate_per_kw", "expected_commitment_tx_weight"]
    methods, texts = {}, {}
    for n in names:
        texts[n] = free_fn_source(src, n)
        methods[n] = P(lex(texts[n])).fn()
    g = Gen(None, [], methods)
    g.consts = const_table(src)
    out = []
    for n in names:
        out.append("(* %s\n%s *)\n%s" % (n, "\n".join("   " + l for l in texts[n].strip().replace("(*", "( *").replace("*)", "* )").splitlines()),
                                            g.method(methods[n])))
    text = ("(** GENERATED by tools/gen_rustfn.py from vls-core/src/util/transaction_utils.rs (fn estimate_feerate_per_kw,\n"
            "    fn expected_commitment_tx_weight) - do not edit. *)\n"
            "From VLS Require Export Base.Rust.\n\n" + "\n\n".join(out) + "\n")
    outp = os.path.join(ROOT, "coq", "theories", "Gen", "TxUtilGen.v")
    if not os.path.exists(outp) or open(outp).read() != text:
        open(outp, "w").write(text)
    return {"translated": ["transaction_utils::" + n for n in names]}


def generate_monitor(repo):
    path = os.path.join(repo, "vls-core", "src", "monitor.rs")
    src = open(path).read()
    names = ["depth_of", "deep_enough_and_saw_node_forget", "is_done"]
    fields = struct_fields(src, "State", skip_unknown=True)
    methods, texts = {}, {}
    for n in names:
        texts[n] = fn_source(src, "State", n)
        methods[n] = P(lex(texts[n])).fn()
    g = Gen("rms", fields, methods)
    g.field_list = fields
    g.consts = const_table(src)
    tmap = {"u64": "N", "usize": "N", "u32": "N", "bool": "bool", "vec": "list N", "opt_id": "option N", "id": "N", "opt_u32": "option N", "opt_u64": "option N"}
    out = ["Record rms := mk_rms {\n%s\n}." % ";\n".join("  rms_%s : %s" % (f, tmap[t]) for f, t in fields)]
    for n in names:
        out.append("(* %s\n%s *)\n%s" % (n, "\n".join("   " + l for l in texts[n].strip().replace("(*", "( *").replace("*)", "* )").splitlines()),
                                            g.method(methods[n])))
    used = sorted(k for k in g.consts if any(k in texts[n] for n in names))
    text = ("(** GENERATED by tools/gen_rustfn.py from vls-core/src/monitor.rs (struct State: the fields whose types are\n"
            "    inside the fragment; fn depth_of, fn deep_enough_and_saw_node_forget, fn is_done; constants %s) - do not edit. *)\n"
            "From VLS Require Export Base.Rust.\n\n" % ", ".join("%s = %d" % (k, g.consts[k][1]) for k in used) + "\n\n".join(out) + "\n")
    outp = os.path.join(ROOT, "coq", "theories", "Gen", "MonitorGen.v")
    if not os.path.exists(outp) or open(outp).read() != text:
        open(outp, "w").write(text)
    return {"translated": ["monitor::State::" + n for n in names], "fields": [f for f, _ in fields], "constants": {k: g.consts[k][1] for k in used}}



# ---------------------------------------------------------------- second generation: records, tagged results

WIDTH = {"u8": 8, "u16": 16, "u32": 32, "u64": 64, "usize": 64, "u128": 128}

# names the generated text uses itself: a Rust binder with one of these names would change its meaning
RESERVED = set("""prof warn policy self fun let in match with end if then else as return forall exists fix cofix
    Val Trap OkR ErrR tt true false Some None negb bindT bindR policy_err ok_or fold_r fold_p iter_p len_of
    add_p sub_p mul_p div_p rem_p add32_p sub32_p add128_p mul128_p add_checked sub_checked mul_checked sat_add
    vec_len vec_get vec_set vec_resize vec_insert U64MAX U32MAX N nat bool unit list option string prod fst snd
    Debug Release profile trap result Type Prop Set""".split())


def blank(src):
    """the source with string literals and comments overwritten by spaces (same length): brace matching on it is
    not disturbed by braces inside format strings"""
    def rep(m):
        return re.sub(r"[^\n]", " ", m.group(0))
    return re.sub(r'"(?:[^"\\]|\\.)*"|//[^\n]*|/\*.*?\*/', rep, src, flags=re.S)


def match_brace(bl, i):
    depth, j = 0, i
    while True:
        if bl[j] == "{":
            depth += 1
        elif bl[j] == "}":
            depth -= 1
            if depth == 0:
                return j
        j += 1


def method_source(src, impl, name, header=None):
    """text of `fn name(..) { .. }` inside the `impl <impl> { .. }` blocks of a file (or the blocks opened by `header`,
    e.g. "impl Validator for SimpleValidator", "pub trait Validator"): exactly one definition with a body"""
    bl = blank(src)
    found = []
    head = r"\n%s\s*\{" % re.escape(header) if header else r"\nimpl %s\s*\{" % re.escape(impl)
    for im in re.finditer(head, bl):
        lo = im.end() - 1
        hi = match_brace(bl, lo)
        for m in re.finditer(r"\n\s*(?:pub(?:\([a-z]+\))?\s+)?fn %s\s*\(" % re.escape(name), bl[lo:hi]):
            start = lo + m.start()
            # the signature ends at the first `{` (a body) or `;` (a declaration without body) outside parentheses
            depth, j = 0, bl.index("(", start)
            while True:
                ch = bl[j]
                if ch in "([":
                    depth += 1
                elif ch in ")]":
                    depth -= 1
                elif depth == 0 and ch in "{;":
                    break
                j += 1
            if bl[j] == ";":
                continue
            found.append(src[start:match_brace(bl, j) + 1])
    if len(found) != 1:
        raise GenError("fn %s: %d definitions with a body in `%s`" % (name, len(found), header or "impl " + impl))
    return found[0]


def enum_variants(src, name):
    """variants of a field-less enum whose `==` is the derived one"""
    m = re.search(r"((?:\n#\[[^\n]*\])*)\npub enum %s\s*\{(.*?)\n\}" % re.escape(name), src, re.S)
    if not m:
        raise GenError("enum %s not found" % name)
    if not re.search(r"#\[derive\([^)]*\bPartialEq\b[^)]*\)\]", m.group(1)):
        raise GenError("enum %s does not derive PartialEq: the meaning of `==` on it is not known" % name)
    if re.search(r"\bimpl\s+(?:core::cmp::|cmp::)?PartialEq\b[^{]*\bfor\s+%s\b" % re.escape(name), src):
        raise GenError("enum %s has a hand-written PartialEq" % name)
    body = re.sub(r"///[^\n]*|//[^\n]*|#\[[^\]]*\]", "", m.group(2))
    out = []
    for part in body.split(","):
        part = part.strip()
        if not part:
            continue
        if not re.match(r"^[A-Z][A-Za-z0-9]*$", part):
            raise GenError("enum %s: variant %r carries data or a discriminant (outside the fragment)" % (name, part))
        out.append(part)
    return out


def use_table(src):
    """name -> module path for the flat `use a::b::{x, y};` / `use a::b::x;` items of a file"""
    out = {}
    src = "\n" + src
    for m in re.finditer(r"\nuse\s+([A-Za-z_][\w:]*)::\{([^{}]*)\};", src):
        for n in m.group(2).split(","):
            n = n.strip()
            if re.match(r"^\w+$", n):
                out[n] = m.group(1)
    for m in re.finditer(r"\nuse\s+([A-Za-z_][\w:]*)::(\w+);", src):
        out[m.group(2)] = m.group(1)
    return out


class GenR(Gen):
    """Code generator for functions whose parameters are structs (Gallina records generated from the struct
    declarations) and whose `Result<(), ValidationError>` keeps the tag of the error (Base/Rust.v: result, bindR).
    It shares the expression translation of integers with Gen; every statement form is handled here, and a form
    that is not listed is an error."""

    def __init__(self, structs, enums, methods, consts, ext_fns, opaque, validator, policy_struct, known):
        Gen.__init__(self, None, [], {})
        self.structs = structs            # name -> [(field, type)]
        self.enums = enums                # name -> [variant]
        self.methods2 = methods           # (owner, name) -> parsed fn
        self.consts = consts              # NAME -> (type, value)
        self.ext_fns = ext_fns            # name -> (qualified Gallina name, parsed fn)
        self.opaque = opaque              # [(ast, {var: type}, parameter name, type)]
        self.validator = validator
        self.policy_struct = policy_struct
        self.known = known
        self.sig_opaque = {}              # (owner, name) -> opaque parameters of a translated method
        self.pure = 0
        self.coq_struct = {}              # struct name -> (record type, projection prefix) when declared in another file
        self.coq_fn = {}                  # (owner, name) -> Gallina name of a method translated into another file
        self.opaque_fns = {}              # path -> (parameter name, [argument types], result type): uninterpreted pure fns
        self.lazy_helpers = ()            # methods whose results are only handed to logging macros
        self.opaque_methods = {}          # (receiver type, method) -> (parameter name, [argument types], result type):
                                          #   methods of trait objects / foreign types, uninterpreted; the receiver is
                                          #   the first argument of the parameter
        self.format_tag = None            # the tag transaction_format_error gives its errors (read from policy/error.rs)
        self.validator_calls = {}         # method of a `dyn Validator` value -> (Gallina head, parsed fn, kind): translated
                                          #   methods of the validator the trait object is (kind "bool": legacy Result-as-bool)
        self.new_fns = {}                 # path -> (Gallina text, type) for constructors of empty values (Vec::new ..)
        self.value_methods = set()        # (owner, name) of functions with a plain value that contain loops: rendered as
                                          #   trap (result T) although they cannot return errors
        self.state_methods = set()        # (owner, name) of `&mut self` methods translated in state-passing style:
                                          #   trap (result S) resp. trap (result (S * value)); they cannot return errors
        self.aliases = {}                 # local -> (map field of self, key text, struct): a `&mut` into a map entry

    def coq_type(self, t):
        if t in WIDTH or t == "id":
            return "N"
        if t in ("bool", "unit"):
            return t
        if t == "str":
            return "string"
        if t in ("opt_id", "opt_u64", "opt_u32"):
            return "option N"
        if t == "vec":
            return "list N"
        if t.startswith("struct:") and t[7:] in self.coq_struct:
            return self.coq_struct[t[7:]][0]
        if t.startswith("struct:") or t.startswith("enum:"):
            return t.split(":", 1)[1]
        if t in ("result:id", "result:u64"):
            return "(result N)"
        if t.startswith("dyn:") or t.startswith("ext:"):
            return "N"                        # a trait object / a foreign value: an identity
        if t.startswith("map:"):
            return "(list (N * %s))" % self.coq_type(t[4:])
        if t in ("set", "vec_id", "list:id", "list:u64"):
            return "(list N)"
        if t == "ordfn":
            return "(list N -> list N)"
        if t == "pairordfn":
            return "(list (N * N) -> list (N * N))"
        if t == "res_bool":
            return "bool"
        if t == "vec_u32":
            return "(list N)"
        if t == "res_opaque:bool":
            return "(option bool)"            # Result<bool, foreign error>: None = Err
        if t.startswith("opt_struct:"):
            return "(option %s)" % self.coq_type("struct:" + t[11:])
        if t.startswith("opt:"):
            return "(option %s)" % self.coq_type(t[4:])
        if t == "comp:result_unit":
            return "(trap (result unit))"
        if t.startswith("fn:"):
            args, ret = t[3:].split("->")
            return "(%s)" % " -> ".join([self.coq_type(a) for a in args.split(",") if a] + [self.coq_type(ret)])
        if t.startswith("vec:"):
            return "list %s" % self.coq_type("struct:" + t[4:])
        if t.startswith("tuple:"):
            return "(%s)" % " * ".join(self.coq_type(x) for x in t[6:].split(","))
        if t == "result_unit":
            return "(result unit)"
        raise GenError("type %s has no Gallina rendering" % t)

    def binder(self, x, code=None, env=None):
        if (x in RESERVED and not (x == "policy" and code == "policy")) or re.match(r"^(t\d+|gen_.*|mk_.*)$", x) \
                or any(x == pn for _, _, pn, _ in self.opaque) or any(x == v[0] for v in self.opaque_fns.values()) \
                or any(x == v[0] for v in self.opaque_methods.values()):
            raise GenError("the name %s is used by the generated text itself: binding it is outside the fragment" % x)
        if not re.match(r"^[a-z_][a-z0-9_]*$", x):
            raise GenError("binder %s is outside the fragment" % x)
        if env is not None and x in env and x != "_":
            # a block's own binding would otherwise be what a loop hands on after the block has ended
            raise GenError("`let %s` shadows a variable in scope: outside the fragment" % x)
        return x

    def tagged(self):
        return bool(self.cur.get("as_state")) or bool(self.cur.get("as_value")) \
            or self.cur["ret"] in ("result_unit", "result:id", "result:u64")

    @staticmethod
    def carry(vs):
        """(value text, binder text) for the variables a statement hands on"""
        if not vs:
            return "tt", None
        if len(vs) == 1:
            return vs[0], vs[0]
        return "(%s)" % ", ".join(vs), "'(%s)" % ", ".join(vs)

    def set_field_of(self, sn, var, f, v):
        pre = self.coq_struct[sn][1] if sn in self.coq_struct else sn
        mk = (pre.rsplit(".", 1)[0] + ".mk_" + sn) if "." in pre else "mk_" + sn
        return "(%s %s)" % (mk, " ".join("(%s)" % v if g == f else self.proj(sn, g, var) for g, _ in self.structs[sn]))

    def writeback(self, x):
        """after an update of the local x that stands for `&mut` a map entry: the entry of the map is replaced"""
        fld, key, sn = self.aliases[x]
        return "let self := %s in\n" % self.set_field(fld, "(map_insert %s %s %s)" % (self.proj(self.owner, fld, "self"), key, x))

    PRINTABLE = Gen.PRINTABLE + ("id", "opt_id", "vec_u32", "ext:LockTime", "ext:Version", "vec_id", "opt_u64", "opt_u32")   # {} / {:?} of a foreign value: assumed not to panic
    LOGGING = ("debug", "trace", "info", "warn", "error", "dbgvals", "policy_log", "trace_node_state")

    def proj(self, sn, f, c):
        pre = self.coq_struct[sn][1] if sn in self.coq_struct else sn
        return "(%s_%s %s)" % (pre, f, c)

    def use_opaque(self, pname, pty):
        if (pname, pty) not in self.opaque_used:
            self.opaque_used.append((pname, pty))

    # ---- expressions
    def expr(self, e, env, want=None):
        k = e[0]
        if k == "str":
            body = e[1][1:-1]
            if "\\" in body or '"' in body:
                raise GenError("string literal %s with an escape is outside the fragment" % e[1])
            return [], '"%s"%%string' % body, "str"
        if k == "ref":
            return self.expr(e[1], env, want)
        if k == "not":
            b, c, t = self.expr(e[1], env)
            if t != "bool":
                raise GenError("`!` on a %s is outside the fragment" % t)
            return b, "(negb %s)" % c, "bool"
        if k == "var":
            x = e[1]
            if x == "None" and want and (want.startswith("opt:") or want in ("opt_u32", "opt_u64", "opt_id") or want.startswith("opt_struct:")):
                return [], "None", want
            if x in env:
                return [], x, env[x]
            if x in self.opaque_fns and not self.opaque_fns[x][1]:
                pname, _, rty = self.opaque_fns[x]
                self.use_opaque(pname, rty)
                return [], pname, rty             # a constant of a foreign crate: a parameter
            if x in self.consts and isinstance(self.consts[x][1], str):
                return [], self.consts[x][1], self.consts[x][0]      # a constant struct value
            if x in self.consts and isinstance(self.consts[x][1], list):
                return [], "[%s]" % "; ".join("%d" % v_ for v_ in self.consts[x][1]), self.consts[x][0]
            if "::" in x and x.split("::")[0] in self.enums:
                en, v = x.split("::")
                if v not in self.enums[en]:
                    raise GenError("%s is not a variant of %s" % (v, en))
                return [], "%s_%s" % (en, v), "enum:" + en
            if x in self.consts:
                return [], "%d" % self.consts[x][1], self.consts[x][0]
            if x in ("u32::MAX", "u64::MAX", "usize::MAX"):
                return Gen.expr(self, e, env, want)
            raise GenError("unknown variable %s" % x)
        if k == "field":
            if e[1] == ("var", "self") and self.owner == self.validator:
                if e[2] != "policy" or self.policy_struct is None:
                    raise GenError("self.%s of the validator is outside the fragment" % e[2])
                return [], "policy", "struct:" + self.policy_struct
            b, c, t = self.expr(e[1], env)
            if not t.startswith("struct:"):
                raise GenError("field .%s of a %s is outside the fragment" % (e[2], t))
            sn = t[7:]
            ft = dict(self.structs[sn]).get(e[2])
            if ft is None:
                raise GenError("%s.%s: no such field, or its type is outside the fragment" % (sn, e[2]))
            return b, self.proj(sn, e[2], c), ft
        if k == "struct_lit":
            sn = e[1]
            if sn not in self.structs or [f for f, _ in e[2]] != [f for f, _ in self.structs[sn]]:
                raise GenError("struct value %s { .. } must initialise exactly the declared fields, in order" % sn)
            bs, cs = [], []
            for (f, ex), (_, ft) in zip(e[2], self.structs[sn]):
                b, c, t = self.expr(ex, env, ft)
                if t != ft:
                    raise GenError("%s.%s: %s given, %s expected" % (sn, f, t, ft))
                bs += b
                cs.append("(%s)" % c)
            pre = self.coq_struct[sn][1] if sn in self.coq_struct else sn
            mk = (pre.rsplit(".", 1)[0] + ".mk_" + sn) if "." in pre else "mk_" + sn
            return bs, "(%s %s)" % (mk, " ".join(cs)), "struct:" + sn
        if k == "tuple":
            wants = want[6:].split(",") if want and want.startswith("tuple:") and len(want[6:].split(",")) == len(e[1]) else [None] * len(e[1])
            bs, cs, ts = [], [], []
            for x, w_ in zip(e[1], wants):
                b, c, t = self.expr(x, env, w_)
                bs += b
                cs.append(c)
                ts.append(t)
            return bs, "(%s)" % ", ".join(cs), "tuple:" + ",".join(ts)
        if k == "tuple_unused":
            bs, cs, ts = [], [], []
            for x in e[1]:
                b, c, t = self.expr(x, env)
                bs += b
                cs.append(c)
                ts.append(t)
            return bs, "(%s)" % ", ".join(cs), "tuple:" + ",".join(ts)
        if k == "as":
            b, c, t = self.expr(e[1], env)
            if t not in WIDTH or e[2] not in WIDTH:
                raise GenError("cast from %s to %s is outside the fragment" % (t, e[2]))
            if WIDTH[e[2]] < WIDTH[t]:
                raise GenError("narrowing cast from %s to %s is outside the fragment" % (t, e[2]))
            return b, c, e[2]                     # a widening cast (usize = u64): the identity on the value
        if k == "call":
            for ast, vars_, pname, pty in self.opaque:
                if e == ast:
                    for v, vt in vars_.items():
                        if env.get(v) != vt or v in self.rebound:
                            raise GenError("%s: %s is not the parameter of type %s here" % (pname, v, vt))
                    if pty.startswith("comp:"):
                        raise GenError("%s: a Result that is not followed by `?` is outside the fragment" % pname)
                    self.use_opaque(pname, pty)
                    return [], pname, pty
            if e[1].startswith("Self::") and (self.owner, e[1][6:]) in self.methods2:
                key_ = (self.owner, e[1][6:])
                m2 = self.methods2[key_]
                if m2["selfmode"] != "free":
                    raise GenError("%s is not an associated function" % e[1])
                bs, cs = self.call_args(e[1], e[2], m2, env)
                x = self.fresh()
                code_ = " ".join(["gen_%s_%s prof" % key_] + self.pass_opaque(key_) + cs)
                if key_ in self.value_methods:
                    if self.pure:
                        raise GenError("%s inside a block used as a value is outside the fragment" % e[1])
                    return bs + [(x, code_, "tryR")], x, m2["ret"]
                return bs + [(x, code_)], x, m2["ret"]
            if e[1] in self.new_fns and not e[2]:
                code_, ty_ = self.new_fns[e[1]]
                if ty_ == "empty":               # Map::new(), OrderedMap::new(): the type is the expected one
                    if not (want and (want.startswith("map:") or want in ("set", "vec_id"))):
                        raise GenError("%s() where no collection type is expected" % e[1])
                    ty_ = want
                return [], code_, ty_
            if "::" in e[1] and tuple(e[1].split("::", 1)) in self.methods2 \
                    and self.methods2[tuple(e[1].split("::", 1))]["selfmode"] == "free":
                key_ = tuple(e[1].split("::", 1))
                m2 = self.methods2[key_]
                bs, cs = self.call_args(e[1], e[2], m2, env)
                x = self.fresh()
                return bs + [(x, " ".join(["gen_%s_%s prof" % key_] + self.pass_opaque(key_) + cs))], x, m2["ret"]
            if e[1] in self.opaque_fns:
                pname, atys, rty = self.opaque_fns[e[1]]
                if len(e[2]) != len(atys):
                    raise GenError("%s with %d arguments" % (e[1], len(e[2])))
                bs, cs = [], []
                for a_, at in zip(e[2], atys):
                    b_, c_, t_ = self.expr(a_, env, at)
                    if t_ != at:
                        raise GenError("argument of %s: %s given, %s expected" % (e[1], t_, at))
                    bs += b_
                    cs.append(c_)
                self.use_opaque(pname, "fn:%s->%s" % (",".join(atys), rty) if atys else rty)
                return bs, "(%s)" % " ".join([pname] + cs) if cs else pname, rty
            if e[1] == "Some" and len(e[2]) == 1:
                b1, a, ta = self.expr(e[2][0], env)
                if ta in ("u32", "u64"):
                    return b1, "(Some %s)" % a, "opt_" + ta
                if ta.startswith("tuple:"):
                    return b1, "(Some %s)" % a, "opt:" + ta
                if ta != "id":
                    raise GenError("Some(..) of a %s is outside the fragment" % ta)
                return b1, "(Some %s)" % a, "opt_id"
            if e[1] == "Ok" and len(e[2]) == 1 and e[2] != [("unit",)] and self.cur["ret"] in ("result:id", "result:u64"):
                b1, a, ta = self.expr(e[2][0], env)
                if ta != self.cur["ret"][7:]:
                    raise GenError("Ok(..) of a %s is outside the fragment" % ta)
                return b1, "(OkR %s)" % a, self.cur["ret"]
            if e[1] in self.ext_fns:
                qual, m2 = self.ext_fns[e[1]]
                bs, cs = self.call_args(e[1], e[2], m2, env)
                x = self.fresh()
                return bs + [(x, "%s prof %s" % (qual, " ".join(cs)))], x, m2["ret"]
            if e[1] == "Ok" and e[2] == [("unit",)]:
                if self.cur["ret"] != "result_unit":
                    raise GenError("Ok(()) in a function that does not return Result<(), _>")
                if self.state_param() and not self.depth and not self.pure:
                    return [], "(OkR %s)" % self.state_param(), "result_unit"     # the updated value of the &mut parameter
                return [], "(OkR tt)", "result_unit"
            if e[1] in ("min", "max"):
                return Gen.expr(self, e, env, want)
            raise GenError("call of %s is outside the fragment" % e[1])
        if k == "mcall":
            recv, name, args = e[1], e[2], e[3]
            if name == "len" and not args:
                b, v, tv = self.expr(recv, env)
                if not tv.startswith("vec:"):
                    raise GenError("len of a %s" % tv)
                return b, "(len_of %s)" % v, "usize"
            base = name.split("::<")[0]
            if name in ("min", "max") and not args and recv[0] == "mcall" and recv[2] == "map" and recv[1][0] == "mcall" \
                    and recv[1][2] == "filter" and recv[1][1][0] == "mcall" and recv[1][1][2] == "iter" and not recv[1][1][3]:
                # v.iter().filter(|h| <bool over h>).map(|h| h.f).min() / .max() over a Vec<S>
                b, v, tv = self.expr(recv[1][1][1], env)
                cf, cm = recv[1][3], recv[3]
                if tv.startswith("vec:") and len(cf) == 1 and len(cm) == 1 and cf[0][0] == "closure" and cm[0][0] == "closure" \
                        and len(cf[0][1]) == 1 and len(cm[0][1]) == 1:
                    hf, hm = cf[0][1][0], cm[0][1][0]
                    env_f = dict(env); env_f[self.binder(hf, env=env)] = "struct:" + tv[4:]
                    env_m = dict(env); env_m[self.binder(hm, env=env)] = "struct:" + tv[4:]
                    bf, cfc, tf = self.expr(cf[0][2], env_f)
                    bm, cmc, tm = self.expr(cm[0][2], env_m)
                    if bf or bm or tf != "bool" or tm not in ("u32", "u64"):
                        raise GenError("filter / map closures of types %s / %s (or that can panic) are outside the fragment" % (tf, tm))
                    return b, "(%s_of (map (fun %s => %s) (filter (fun %s => %s) %s)))" % (name, hm, cmc, hf, cfc, v), "opt_" + tm
                raise GenError(".iter().filter(..).map(..).%s() of this shape is outside the fragment" % name)
            if base == "sum" and not args:
                # <map>.values()[.into_iter()].sum::<u64>() : the outcome is the same for every order of the values
                r = recv
                if r[0] == "mcall" and r[2] == "into_iter" and not r[3]:
                    r = r[1]
                if name.replace(" ", "") in ("sum::<u64>", "sum") and r[0] == "mcall" and r[2] == "values" and not r[3]:
                    b, v, tv = self.expr(r[1], env)
                    if tv == "map:u64":
                        x = self.fresh()
                        return b + [(x, "sum_p prof (map_values %s)" % v)], x, "u64"
                raise GenError(".sum() on anything but the u64 values of a map is outside the fragment")
            if name == "get" and len(args) == 1:
                save_ = self.tmp
                b, v, tv = self.expr(recv, env)
                if tv.startswith("map:"):
                    b2, k_, tk = self.expr(args[0], env)
                    if tk != "id":
                        raise GenError("map.get(..) with a key of type %s" % tk)
                    vt = tv[4:]
                    ot = {"u64": "opt_u64"}.get(vt, "opt_" + vt if vt.startswith("struct:") else None)
                    if ot is None:
                        raise GenError("a map of %s is outside the fragment" % vt)
                    return b + b2, "(map_get %s %s)" % (v, k_), ot
                self.tmp = save_
            if name == "contains_key" and len(args) == 1:
                b, v, tv = self.expr(recv, env)
                b2, k_, tk = self.expr(args[0], env)
                if not tv.startswith("map:") or tk != "id":
                    raise GenError("contains_key on a %s with a %s" % (tv, tk))
                return b + b2, "(map_contains %s %s)" % (v, k_), "bool"
            if name == "map" and len(args) == 1 and args[0][0] == "closure" and len(args[0][1]) == 1:
                b, v, tv = self.expr(recv, env)
                par, body = args[0][1][0], args[0][2]
                if tv == "opt_u64" and body == ("deref", ("var", par)):
                    return b, v, tv                                   # .map(|a| *a) : a copy of the value
                if tv.startswith("opt_struct:") and body[0] == "field" and body[1] == ("var", par):
                    sn = tv[11:]
                    ft = dict(self.structs[sn]).get(body[2])
                    if ft == "u64":
                        return b, "(option_map (fun v_ => %s) %s)" % (self.proj(sn, body[2], "v_"), v), "opt_u64"
                if tv.startswith("opt_struct:") and body[0] == "ref" and body[1][0] == "field" and body[1][1] == ("var", par):
                    sn = tv[11:]
                    ft = dict(self.structs[sn]).get(body[1][2], "")
                    if ft.startswith("vec:"):
                        return b, "(option_map (fun v_ => %s) %s)" % (self.proj(sn, body[1][2], "v_"), v), "opt:" + ft
                if tv.startswith("opt:vec:") and body[0] == "call" and body[2] == [("var", par)]:
                    raise GenError(".map(|h| f(h)) that is not followed by .unwrap_or_else(|| ..) is outside the fragment")
                raise GenError(".map(|%s| ..) of this shape on a %s is outside the fragment" % (par, tv))
            if name == "or" and len(args) == 1:
                b1, a, ta = self.expr(recv, env)
                b2, c, tc = self.expr(args[0], env, ta)           # evaluated whether or not it is needed
                if not ta.startswith("opt_struct:") or tc != ta:
                    raise GenError(".or(..) on %s and %s is outside the fragment" % (ta, tc))
                return b1 + b2, "(opt_or_else %s %s)" % (a, c), ta
            if name == "unwrap_or_else" and len(args) == 1 and args[0][0] == "closure" and not args[0][1] \
                    and recv[0] == "mcall" and recv[2] == "map" and len(recv[3]) == 1 and recv[3][0][0] == "closure" \
                    and len(recv[3][0][1]) == 1 and recv[3][0][2][0] == "call" and recv[3][0][2][2] == [("var", recv[3][0][1][0])]:
                # opt.map(|h| Self::f(h)).unwrap_or_else(|| <empty>) : f on the value of Some, the other value for None
                b0, o_, to_ = self.expr(recv[1], env)
                if not to_.startswith("opt:vec:"):
                    raise GenError(".map(|h| f(h)).unwrap_or_else(..) on a %s is outside the fragment" % to_)
                par = recv[3][0][1][0]
                env_c = dict(env)
                env_c[self.binder(par, env=env)] = to_[4:]
                bf, cf, tf = self.expr(recv[3][0][2], env_c)
                bd, cd, td = self.expr(args[0][2], env, tf)
                if td != tf or bd or len(bf) != 1 or self.pure:
                    raise GenError(".map(|h| f(h)).unwrap_or_else(..) of this shape is outside the fragment")
                x = self.fresh()
                kind_ = bf[0][2] if len(bf[0]) > 2 else None
                none_ = "Val (OkR %s)" % cd if kind_ == "tryR" else "Val %s" % cd
                code_ = "(match %s with\n| Some %s => %s\n| None => %s\nend)" % (o_, par, bf[0][1], none_)
                return b0 + [((x, code_, "tryR") if kind_ == "tryR" else (x, code_))], x, tf
            if name == "map" and len(args) == 1 and args[0][0] == "closure" and len(args[0][1]) == 1 \
                    and args[0][2][0] == "ref" and args[0][2][1][0] == "field" and args[0][2][1][1] == ("var", args[0][1][0]):
                save_ = self.tmp
                b, v, tv = self.expr(recv, env)
                if tv.startswith("opt_struct:"):
                    sn = tv[11:]
                    ft = dict(self.structs[sn]).get(args[0][2][1][2], "")
                    if ft.startswith("vec:"):
                        return b, "(option_map (fun v_ => %s) %s)" % (self.proj(sn, args[0][2][1][2], "v_"), v), "opt:" + ft
                self.tmp = save_
            if name == "map_or" and len(args) == 2 and args[1][0] == "closure" and len(args[1][1]) == 1:
                b, v, tv = self.expr(recv, env)
                par, body = args[1][1][0], args[1][2]
                if tv in ("opt_u32", "opt_u64") and body[0] == "mcall" and body[1] == ("var", par) \
                        and body[2] in ("min", "max") and len(body[3]) == 1:
                    inner_ = tv[4:]
                    b2, d_, td = self.expr(args[0], env, inner_)          # the default is evaluated whether or not it is used
                    env_c = dict(env)
                    env_c[self.binder(par, env=env)] = inner_
                    b3, x_, tx_ = self.expr(body[3][0], env_c, inner_)
                    if td != inner_ or tx_ != inner_ or b3:
                        raise GenError("map_or on %s with %s / %s" % (tv, td, tx_))
                    return b + b2, "(match %s with Some %s => N.%s %s %s | None => %s end)" % (v, par, body[2], par, x_, d_), inner_
                raise GenError(".map_or(..) of this shape on a %s is outside the fragment" % tv)
            if name == "unwrap_or" and len(args) == 1:
                save_ = self.tmp
                b, v, tv = self.expr(recv, env)
                if tv in ("opt_u64", "opt_u32"):
                    inner_ = tv[4:]
                    b2, c2, t2 = self.expr(args[0], env, inner_)
                    if t2 != inner_:
                        raise GenError("unwrap_or(%s) on %s" % (t2, tv))
                    return b + b2, "(match %s with Some v_ => v_ | None => %s end)" % (v, c2), inner_
                self.tmp = save_
            if name in ("checked_add", "checked_sub") and len(args) == 1:
                b1, a, ta = self.expr(recv, env)
                b2, c, tc = self.expr(args[0], env, ta)
                if ta != "u64" or tc != "u64":
                    raise GenError("%s on %s and %s" % (name, ta, tc))
                return b1 + b2, "(%s %s %s)" % ({"checked_add": "add_checked", "checked_sub": "sub_checked"}[name], a, c), "opt_u64"
            if recv[0] == "var" and env.get(recv[1], "").startswith("dyn:") and name in self.validator_calls:
                head_, m2, kind = self.validator_calls[name]
                if recv[1] in self.rebound:
                    raise GenError("%s is not the validator parameter here" % recv[1])
                bs, cs = self.call_args(name, args, m2, env)
                x = self.fresh()
                if kind == "bool":
                    return bs + [(x, " ".join([head_] + cs))], x, "res_bool"      # Result<(), _> as bool: true = Ok
                if m2["ret"].startswith("result"):
                    raise GenError("a Result of .%s(..) that is not followed by `?` is outside the fragment" % name)
                return bs + [(x, " ".join([head_] + cs))], x, m2["ret"]
            if name == "unwrap_or" and len(args) == 1:
                b, v, tv = self.expr(recv, env)
                if tv.startswith("opt_struct:"):
                    b2, c2, t2 = self.expr(args[0], env)         # evaluated whether or not it is needed
                    if t2 != "struct:" + tv[11:]:
                        raise GenError("unwrap_or(%s) on %s" % (t2, tv))
                    return b + b2, "(match %s with Some v_ => v_ | None => %s end)" % (v, c2), t2
            if name in ("is_none", "is_some") and not args:
                b, v, tv = self.expr(recv, env)
                if not (tv in ("opt_id", "opt_u64", "opt_u32") or tv.startswith("opt_struct:")):
                    raise GenError(".%s() on a %s is outside the fragment" % (name, tv))
                return b, "(%s_of %s)" % (name, v), "bool"
            if name == "is_empty" and not args:
                b, v, tv = self.expr(recv, env)
                if not (tv.startswith("vec:") or tv in ("vec_id", "set") or tv.startswith("map:")):
                    raise GenError(".is_empty() on a %s is outside the fragment" % tv)
                return b, "(is_empty_of %s)" % v, "bool"
            if name == "to_string" and not args and recv[0] == "str":
                return self.expr(recv, env)
            if recv == ("var", "self") and self.owner == self.validator and (self.validator, name) in self.methods2 \
                    and not self.methods2[(self.validator, name)]["ret"].startswith("result"):
                # a translated method of the validator with a plain value
                m2 = self.methods2[(self.validator, name)]
                bs, cs = self.call_args(name, args, m2, env)
                extra = self.pass_opaque((self.validator, name))
                x = self.fresh()
                return bs + [(x, " ".join([self.validator_head(name)] + extra + cs))], x, m2["ret"]
            if name == "get" and len(args) == 1:
                b, v, tv = self.expr(recv, env)
                if tv.startswith("vec:"):
                    b2, i, ti = self.expr(args[0], env, "usize")
                    if ti != "usize":
                        raise GenError(".get(..) with an index of type %s" % ti)
                    return b + b2, "(vec_nth %s %s)" % (v, i), "opt_struct:" + tv[4:]
                raise GenError(".get(..) on a %s is outside the fragment" % tv)
            if name == "to_vec" and not args:
                b, v, tv = self.expr(recv, env)
                if tv != "vec_u32":
                    raise GenError(".to_vec() on a %s is outside the fragment" % tv)
                return b, v, tv
            if name == "contains" and len(args) == 1:
                b, v, tv = self.expr(recv, env)
                b2, x_, tx_ = self.expr(args[0], env, "u32")
                if tv != "vec_u32" or tx_ != "u32":
                    raise GenError(".contains(..) on a %s with a %s is outside the fragment" % (tv, tx_))
                return b + b2, "(vec_contains %s %s)" % (v, x_), "bool"
            if not (recv == ("var", "self") and self.owner == self.validator):
                save_ = self.tmp
                b, v, tv = self.expr(recv, env)
                if (tv, name) in self.opaque_methods:
                    pname, atys, rty = self.opaque_methods[(tv, name)]
                    if tv.startswith("dyn:") and (recv[0] != "var" or recv[1] in self.rebound):
                        raise GenError("%s.%s: the receiver is not the parameter of type %s" % (recv, name, tv))
                    if len(args) != len(atys):
                        raise GenError(".%s(..) with %d arguments" % (name, len(args)))
                    bs, cs = list(b), [v]
                    for a_, at in zip(args, atys):
                        b_, c_, t_ = self.expr(a_, env, at)
                        if t_ != at:
                            raise GenError("argument of .%s(..): %s given, %s expected" % (name, t_, at))
                        bs += b_
                        cs.append(c_)
                    if rty.startswith("res_opaque:"):
                        raise GenError(".%s(..): a Result that is not followed by .map_err(|e| policy_error(..))? is outside the fragment" % name)
                    self.use_opaque(pname, "fn:%s->%s" % (",".join([tv] + atys), rty))
                    return bs, "(%s)" % " ".join([pname] + cs), rty
                self.tmp = save_
            if name in ("as_ref", "clone") and not args:
                b, v, tv = self.expr(recv, env)
                if tv not in ("id", "opt_id") and not tv.startswith("opt_struct:"):
                    raise GenError(".%s() of a %s is outside the fragment" % (name, tv))
                return b, v, tv                   # a borrow / a copy of an opaque value is the value
            if (name == "unwrap" and not args) or (name == "expect" and len(args) == 1 and args[0][0] == "str"):
                b, v, tv = self.expr(recv, env)
                if tv not in ("opt_id", "opt_u64"):
                    raise GenError(".%s() of a %s is outside the fragment" % (name, tv))
                x = self.fresh()
                return b + [(x, "expect_some %s" % v)], x, tv[4:]
            if not (recv == ("var", "self") and self.owner == self.validator):
                b, v, tv = self.expr(recv, env)
                if tv.startswith("struct:") and (tv[7:], name) in self.coq_fn:
                    m2 = self.methods2[(tv[7:], name)]
                    bs, cs = self.call_args(name, args, m2, env)
                    x = self.fresh()
                    return b + bs + [(x, " ".join([self.coq_fn[(tv[7:], name)], "prof", v] + cs))], x, m2["ret"]
                if tv.startswith("struct:") and (tv[7:], name) in self.methods2:
                    m2 = self.methods2[(tv[7:], name)]
                    if m2["ret"] == "result_unit":
                        raise GenError("a Result of .%s(..) that is not followed by `?` is outside the fragment" % name)
                    bs, cs = self.call_args(name, args, m2, env)
                    extra = self.pass_opaque((tv[7:], name))
                    x = self.fresh()
                    return b + bs + [(x, " ".join(["gen_%s_%s prof" % (tv[7:], name)] + extra + [v] + cs))], x, m2["ret"]
            raise GenError("method call .%s(..) is outside the fragment" % name)
        if k == "match_pair":
            b1, a, ta = self.expr(e[1], env)
            b2, c, tc = self.expr(e[2], env)
            if ta not in ("opt_u32", "opt_u64") or tc != ta:
                raise GenError("match on a pair of %s and %s is outside the fragment" % (ta, tc))
            env2 = dict(env)
            env2[self.binder(e[3], env=env)] = ta[4:]
            env2[self.binder(e[4], env=env)] = ta[4:]
            bv1, v1, t1 = self.expr(e[5], env2)
            bv2, v2, t2 = self.expr(e[6], env, t1)
            if bv1 or bv2 or t1 != t2:
                raise GenError("match arms of types %s and %s (or arms that can panic) are outside the fragment" % (t1, t2))
            return b1 + b2, "(match %s, %s with Some %s, Some %s => %s | _, _ => %s end)" % (a, c, e[3], e[4], v1, v2), t1
        if k == "try":
            return self.try_expr(e[1], env)
        if k == "bin" and e[1] in ("&&", "||"):
            b1, a, ta = self.expr(e[2], env)
            b2, c, tc = self.expr(e[3], env)
            if ta != "bool" or tc != "bool":
                raise GenError("%s on %s and %s" % (e[1], ta, tc))
            if not b2:
                return b1, "(%s %s %s)" % (a, e[1], c), "bool"
            # the right operand is evaluated only when the left one does not decide
            if any(len(b_) > 2 for b_ in b2):
                raise GenError("`?` on the right of %s is outside the fragment" % e[1])
            x = self.fresh()
            right = self.emit_binds(b2, "Val %s" % c)
            code = "(if %s\nthen (%s)\nelse Val false)" % (a, right) if e[1] == "&&" else \
                   "(if %s\nthen Val true\nelse (%s))" % (a, right)
            return b1 + [(x, code)], x, "bool"
        if k == "bin" and e[1] in ("==", "!="):
            save = self.tmp
            b1, a, ta = self.expr(e[2], env)
            if ta in ("id", "opt_id") or ta.startswith("ext:"):
                b2, c, tc = self.expr(e[3], env)
                if tc != ta:
                    raise GenError("%s between %s and %s" % (e[1], ta, tc))
                code = "(opt_id_eqb %s %s)" % (a, c) if ta == "opt_id" else "(%s =? %s)" % (a, c)
                return b1 + b2, code if e[1] == "==" else "(negb %s)" % code, "bool"
            if ta.startswith("enum:"):
                b2, c, tc = self.expr(e[3], env)
                if tc != ta:
                    raise GenError("%s between %s and %s" % (e[1], ta, tc))
                code = "(%s_eqb %s %s)" % (ta[5:], a, c)
                return b1 + b2, code if e[1] == "==" else "(negb %s)" % code, "bool"
            self.tmp = save
            return Gen.expr(self, e, env, want)
        if k in ("lit", "bool", "deref", "if", "bin"):
            return Gen.expr(self, e, env, want)
        raise GenError("expression %r is outside the fragment" % (e,))

    def call_args(self, name, args, m2, env):
        if m2["selfmode"] == "mut":
            raise GenError("call of %s, which takes &mut self, is outside the fragment" % name)
        if len(args) != len(m2["params"]):
            raise GenError("call of %s with %d arguments" % (name, len(args)))
        bs, cs = [], []
        for a_, (pn, pt) in zip(args, m2["params"]):
            b_, c_, t_ = self.expr(a_, env, pt)
            if t_ != pt:
                raise GenError("argument %s of %s: %s given, %s expected" % (pn, name, t_, pt))
            bs += b_
            cs.append(c_)
        return bs, cs

    def pass_opaque(self, key):
        """the opaque parameters of a translated callee are handed on under the same names"""
        if key in self.coq_fn:
            return []                         # translated in another file, without parameters of its own
        if key not in self.sig_opaque:
            raise GenError("%s is called before it is translated" % (key,))
        out = []
        for pname, pty in self.sig_opaque[key]:
            if (pname, pty) not in self.opaque_used:
                self.opaque_used.append((pname, pty))
            out.append(pname)
        return out

    def message_ok(self, msg, env):
        """an error message: evaluated only when the error is built, so it must not be able to panic"""
        if msg[0] == "str":
            return
        if msg[0] == "mcall" and msg[1][0] == "str" and msg[2] == "to_string" and not msg[3]:
            return
        if msg[0] == "macro" and msg[1] == "format":
            if self.fmt_arg_binds(msg[2], env):
                raise GenError("an error message whose arguments can panic is outside the fragment")
            return
        raise GenError("error message %r is outside the fragment" % (msg,))

    def tag_code(self, ex, env):
        b, c, t = self.expr(ex, env)
        if t != "str" or b:
            raise GenError("a policy tag must be a string literal or a &str variable")
        return c

    def try_expr(self, inner, env):
        """`e?` for the forms of e that are inside the fragment"""
        if self.pure:
            raise GenError("`?` inside a block used as a value is outside the fragment")
        if getattr(self, "updated", False) or self.cur.get("as_state"):
            raise GenError("`?` after an update of a `&mut` parameter / in a state-passing function is outside the fragment")
        if not self.tagged():
            raise GenError("`?` in a function that does not return Result<(), _>")
        if inner[0] == "mcall" and inner[2] == "map_err" and len(inner[3]) == 1 and inner[3][0][0] == "closure" \
                and len(inner[3][0][1]) == 1 and inner[1][0] == "mcall":
            # <receiver>.m(args).map_err(|err| policy_error(tag, message))? for an uninterpreted method m that returns
            # Result<bool, foreign error>: the error is replaced by a policy error with that tag (no filter)
            clo, call = inner[3][0], inner[1]
            body = clo[2]
            if body[0] == "block" and not body[1] and body[2] is not None:
                body = body[2]
            if body[0] == "call" and body[1] == "policy_error" and len(body[2]) == 2 and call[1] != ("var", "self"):
                save_ = self.tmp
                b, v, tv = self.expr(call[1], env)
                if (tv, call[2]) in self.opaque_methods and self.opaque_methods[(tv, call[2])][2].startswith("res_opaque:"):
                    pname, atys, rty = self.opaque_methods[(tv, call[2])]
                    if tv.startswith("dyn:") and (call[1][0] != "var" or call[1][1] in self.rebound):
                        raise GenError("%s.%s: the receiver is not the parameter of type %s" % (call[1], call[2], tv))
                    if len(call[3]) != len(atys):
                        raise GenError(".%s(..) with %d arguments" % (call[2], len(call[3])))
                    bs, cs = list(b), [v]
                    for a_, at in zip(call[3], atys):
                        b_, c_, t_ = self.expr(a_, env, at)
                        if t_ != at:
                            raise GenError("argument of .%s(..): %s given, %s expected" % (call[2], t_, at))
                        bs += b_
                        cs.append(c_)
                    tag = self.tag_code(body[2][0], env)
                    env_m = dict(env)
                    env_m[clo[1][0]] = "id"           # the foreign error, only formatted
                    self.message_ok(body[2][1], env_m)
                    self.use_opaque(pname, "fn:%s->%s" % (",".join([tv] + atys), rty))
                    x = self.fresh()
                    return bs + [(x, "ok_or (%s) %s" % (" ".join([pname] + cs), tag), "tryR")], x, rty.split(":", 1)[1]
                self.tmp = save_
        if inner[0] == "mcall" and inner[2] == "map_err":
            # .map_err(|ve| ve.prepend_msg(<message>)) : prepend_msg keeps the tag (checked in policy/error.rs)
            a = inner[3]
            if not (len(a) == 1 and a[0][0] == "closure" and len(a[0][1]) == 1 and a[0][2][0] == "mcall"
                    and a[0][2][1] == ("var", a[0][1][0]) and a[0][2][2] == "prepend_msg" and len(a[0][2][3]) == 1):
                raise GenError("map_err with anything but |e| e.prepend_msg(..) is outside the fragment")
            self.message_ok(a[0][2][3][0], env)
            inner = inner[1]
            if not (inner[0] == "mcall" and inner[1] == ("var", "self")):
                raise GenError("map_err on anything but a call of a translated method is outside the fragment")
        if inner[0] == "mcall" and inner[1][0] == "var" and env.get(inner[1][1], "").startswith("dyn:") \
                and inner[2] in self.validator_calls and self.validator_calls[inner[2]][2] == "tagged":
            head_, m2, _ = self.validator_calls[inner[2]]
            if m2["ret"] != "result_unit" or inner[1][1] in self.rebound:
                raise GenError("`?` on %s.%s(..) is outside the fragment" % (inner[1][1], inner[2]))
            bs, cs = self.call_args(inner[2], inner[3], m2, env)
            x = self.fresh()
            return bs + [(x, " ".join([head_] + cs), "tryR")], x, "unit"
        for ast, vars_, pname, pty in self.opaque:
            if inner == ast and pty.startswith("comp:"):
                # the answer of a method that is translated elsewhere, on exactly the parameters of this function
                for v, vt in vars_.items():
                    if env.get(v) != vt or v in self.rebound:
                        raise GenError("%s: %s is not the parameter of type %s here" % (pname, v, vt))
                self.use_opaque(pname, pty)
                x = self.fresh()
                return [(x, pname, "tryR")], x, {"comp:result_unit": "unit"}[pty]
        if inner[0] == "mcall" and inner[2] == "ok_or_else" and len(inner[3]) == 1 \
                and not (inner[1][0] == "mcall" and inner[1][2] in ("checked_add", "checked_sub", "checked_mul")):
            # <option>.ok_or_else(|| policy_error(tag, message))? : the value of Some, or an unfiltered error
            clo = inner[3][0]
            if not (clo[0] == "closure" and not clo[1]):
                raise GenError("ok_or_else needs a closure without parameters")
            body = clo[2]
            if body[0] == "block" and not body[1] and body[2] is not None:
                body = body[2]
            if not (body[0] == "call" and body[1] == "policy_error" and len(body[2]) == 2):
                raise GenError("ok_or_else(|| ..) with anything but policy_error(tag, message) is outside the fragment")
            tag = self.tag_code(body[2][0], env)
            self.message_ok(body[2][1], env)
            b1, a, ta = self.expr(inner[1], env)
            if ta.startswith("opt_struct:"):
                tv_ = "struct:" + ta[11:]
            elif ta == "opt_id":
                tv_ = "id"
            else:
                raise GenError("ok_or_else on a %s is outside the fragment" % ta)
            x = self.fresh()
            return b1 + [(x, "ok_or %s %s" % (a, tag), "tryR")], x, tv_
        if inner[0] == "mcall" and inner[2] == "ok_or_else" and len(inner[3]) == 1 and inner[1][0] == "mcall" \
                and inner[1][2] in ("checked_add", "checked_sub", "checked_mul") and len(inner[1][3]) == 1:
            clo = inner[3][0]
            if not (clo[0] == "closure" and not clo[1]):
                raise GenError("ok_or_else needs a closure without parameters")
            body = clo[2]
            if body[0] == "block" and not body[1] and body[2] is not None:
                body = body[2]
            if not (body[0] == "call" and body[1] == "policy_error" and len(body[2]) == 2):
                raise GenError("ok_or_else(|| ..) with anything but policy_error(tag, message) is outside the fragment")
            tag = self.tag_code(body[2][0], env)
            self.message_ok(body[2][1], env)
            b1, a, ta = self.expr(inner[1][1], env)
            b2, c, tc = self.expr(inner[1][3][0], env, ta)
            if ta != "u64" or tc != "u64":
                raise GenError("%s on %s and %s" % (inner[1][2], ta, tc))
            fn = {"checked_add": "add_checked", "checked_sub": "sub_checked", "checked_mul": "mul_checked"}[inner[1][2]]
            x = self.fresh()
            return b1 + b2 + [(x, "ok_or (%s %s %s) %s" % (fn, a, c, tag), "tryR")], x, "u64"
        if inner[0] == "mcall" and inner[1] == ("var", "self") and self.owner == self.validator \
                and (self.validator, inner[2]) in self.methods2:
            m2 = self.methods2[(self.validator, inner[2])]
            if m2["ret"] not in ("result_unit", "result:u64"):
                raise GenError("`?` on %s, which does not return Result<(), _> or Result<u64, _>" % inner[2])
            bs, cs = self.call_args(inner[2], inner[3], m2, env)
            extra = self.pass_opaque((self.validator, inner[2]))
            x = self.fresh()
            return bs + [(x, " ".join([self.validator_head(inner[2])] + extra + cs), "tryR")], x, \
                "unit" if m2["ret"] == "result_unit" else "u64"
        raise GenError("`?` on %r is outside the fragment" % (inner,))

    def emit_binds(self, binds, k):
        for b in reversed(binds):
            if len(b) > 2 and b[2] == "tryR":
                k = "%s <-? %s ;;\n%s" % (b[0], b[1], k)
            elif len(b) > 2:
                raise GenError("bind of kind %s is outside the fragment" % b[2])
            else:
                k = "%s <- %s ;;\n%s" % (b[0], b[1], k)
        return k

    def value_block(self, blk, env, want=None):
        self.pure += 1
        try:
            return Gen.value_block(self, blk, env, want)
        finally:
            self.pure -= 1

    def assigned2(self, stmts):
        out = []
        for s in stmts:
            if s[0] == "assign":
                tgt = s[1]
                if tgt[0] == "deref" and tgt[1][0] == "var" and tgt[1][1] in self.guards:
                    continue
                if tgt[0] == "field" and tgt[1] == ("var", "self") and self.cur.get("selfmode") == "mut":
                    out.append("self")
                    continue
                if tgt[0] == "field" and tgt[1][0] == "var" and self.cur.get("as_state") and tgt[1][1] != "self":
                    out.append("self")           # a field of a local that stands for `&mut` a map entry
                    continue
                if tgt[0] != "var":
                    raise GenError("assignment target %r is outside the fragment" % (tgt,))
                out.append(tgt[1])
            elif s[0] == "expr" and s[1][0] == "mcall" and s[1][1][0] == "var" and s[1][1][1] in getattr(self, "field_alias", {}):
                raise GenError("an update of `%s` (a name of a field of self) inside a conditional, loop or closure is outside the fragment" % s[1][1][1])
            elif s[0] == "let" and s[3][0] == "mutref_field":
                raise GenError("`&mut self.%s` inside a conditional, loop or closure is outside the fragment" % s[3][1])
            elif s[0] == "expr" and s[1][0] == "mcall" and s[1][1][0] == "var" and s[1][2] in ("extend", "push", "insert", "retain") \
                    and s[1][1][1] in getattr(self, "collections", ()):
                out.append(s[1][1][1])
            elif s[0] == "expr" and self.entry_chain(s[1]) is not None and self.entry_chain(s[1])[0] in getattr(self, "collections", ()):
                out.append(self.entry_chain(s[1])[0])
            elif s[0] == "expr" and s[1][0] == "mcall" and s[1][2] == "insert" and s[1][1][0] == "field" \
                    and s[1][1][1] == ("var", "self") and self.cur.get("selfmode") == "mut":
                out.append("self")
            elif s[0] == "expr" and s[1][0] == "mcall" and s[1][1][0] == "var" and self.is_alias_update(s[1]):
                out.append("self")
            elif s[0] == "let" and self.alias_source(s[3]) is not None and self.alias_source(s[3])[0] == "entry":
                out.append("self")               # entry(k).or_insert_with(..) may add the entry
            elif s[0] == "iflet_err":
                out += self.assigned2(s[3][0])
            elif s[0] in ("if_stmt",):
                out += self.assigned2(s[2][0])
            elif s[0] == "ifelse_stmt":
                out += self.assigned2(s[2][0]) + self.assigned2(s[3][0])
            elif s[0] == "for_iter":
                out += self.assigned2(s[3])
            elif s[0] == "for_range":
                out += self.assigned2(s[4])
            elif s[0] == "iflet_stmt":
                out += self.assigned2(s[3][0])
                if self.alias_source(s[2]) is not None and self.assigned_alias(s[3][0], s[1]):
                    out.append("self")
            elif s[0] == "match_opt":
                out += self.assigned2(s[2][0]) + self.assigned2(s[4][0])
            elif s[0] == "iflet_tuple":
                out += self.assigned2(s[3][0])
            elif s[0] == "attr":
                out += self.assigned2([s[2]])
        seen = []
        for x in out:
            if x not in seen:
                seen.append(x)
        return seen

    # ---- statements
    def stmts(self, ss, env, k):
        if not ss:
            return k(env)
        s, rest = ss[0], ss[1:]
        kind = s[0]
        if kind in ("if_stmt", "ifelse_stmt", "iflet_err") and self.tagged() and not self.pure:
            blocks = [s[3]] if kind == "iflet_err" else ([s[2]] + ([s[3]] if kind == "ifelse_stmt" else []))
            carried = []
            for blk in blocks:
                for v_ in self.assigned2(blk[0]):
                    if v_ not in carried:
                        carried.append(v_)
            if kind == "iflet_err" or carried:
                # the variable the branches assign is the value of the statement
                if any(v_ not in env for v_ in carried) or any(blk[1] is not None for blk in blocks):
                    raise GenError("a conditional that assigns an unknown variable, or has a value, is outside the fragment")
                if kind == "iflet_err":
                    b, c, t = self.expr(s[2], env)
                    if t != "res_bool":
                        raise GenError("`if let Err(..)` on a %s is outside the fragment" % t)
                    c = "(negb %s)" % c
                    env_t = dict(env)
                    env_t[self.binder(s[1], env=env)] = "id"        # the error, only formatted
                else:
                    b, c, t = self.expr(s[1], env)
                    if t != "bool":
                        raise GenError("if on a non-boolean")
                    env_t = env
                val_, pat_ = self.carry(carried)
                ret = "Val (OkR %s)" % val_
                self.depth += 1
                then_t = self.stmts(blocks[0][0], env_t, lambda e2: ret)
                else_t = self.stmts(blocks[1][0], env, lambda e2: ret) if len(blocks) > 1 else ret
                self.depth -= 1
                x = pat_ or self.fresh()
                return self.emit_binds(b, "%s <-? (if %s\nthen (%s)\nelse (%s)) ;;\n%s" % (
                    x, c, then_t, else_t, self.stmts(rest, env, k)))
        if kind == "let" and s[3][0] == "mutref_field":
            # let x = &mut self.f;  x is another name of the map field f of self (state-passing methods, top level only):
            # nothing is generated; the only use of x inside the fragment is x.retain(<block closure>)
            x, ty, f = s[1], s[2], s[3][1]
            ft = dict(self.structs[self.owner]).get(f, "")
            if not (self.cur.get("as_state") and self.depth == 0 and not self.pure and isinstance(x, str) and ty is None
                    and x not in env and x not in self.field_alias and ft.startswith("map:struct:")):
                raise GenError("`let %s = &mut self.%s` is outside the fragment" % (x, f))
            self.binder(x, env=env)
            self.field_alias[x] = f
            return self.stmts(rest, env, k)
        if kind == "expr" and s[1][0] == "mcall" and s[1][1][0] == "var" and s[1][1][1] in self.field_alias:
            e = s[1]
            x, f = e[1][1], self.field_alias[e[1][1]]
            if not (e[2] == "retain" and len(e[3]) == 1 and e[3][0][0] == "closure" and len(e[3][0][1]) == 2
                    and e[3][0][2][0] == "block" and self.depth == 0 and not self.pure):
                raise GenError("%s.%s(..) on a name of self.%s is outside the fragment" % (x, e[2], f))
            # x.retain(|k, v| { stmts; keep }) with a closure that assigns captured variables of the function: the entries
            # are visited in the order of the association list (map_retain_st, Base/Rust.v); the assigned variables are
            # the state handed from entry to entry
            sn = dict(self.structs[self.owner])[f][len("map:struct:"):]
            kpar, vpar = e[3][0][1]
            ss_c, tail_c = e[3][0][2][1], e[3][0][2][2]
            carried = self.assigned2(ss_c)
            if not carried or "self" in carried or any(v_ not in env for v_ in carried) or tail_c is None:
                raise GenError("a retain closure that assigns %s (or has no value) is outside the fragment" % (carried,))
            env_c = {a: b for a, b in env.items() if a != "self"}      # self is borrowed by the map for the whole call
            env_c[self.binder(kpar, env=env)] = "id"
            env_c[self.binder(vpar, env=env)] = "struct:" + sn
            val_, pat_ = self.carry(carried)

            def kc(env2):
                bb, cc, tt_ = self.expr(tail_c, env2, "bool")
                if tt_ != "bool":
                    raise GenError("a retain closure with a value of type %s" % tt_)
                return self.emit_binds(bb, "Val (OkR (%s, %s))" % (val_, cc))
            self.depth += 1
            body_c = self.stmts(ss_c, env_c, kc)
            self.depth -= 1
            nm = self.fresh()
            return "'(%s, %s) <-? map_retain_st %s (fun %s %s %s =>\n%s) %s ;;\nlet self := %s in\n%s" % (
                nm, val_, self.proj(self.owner, f, "self"),
                pat_, kpar, vpar, body_c, val_, self.set_field(f, nm), self.stmts(rest, env, k))
        if kind == "let":
            x, ty, e = s[1], s[2], s[3]
            if e[0] == "macro" and e[1] == "scoped_debug_return":
                # a guard that logs its arguments when the function is left while it is armed: no effect on the answer
                if not isinstance(x, str):
                    raise GenError("a debugging guard bound to a pattern is outside the fragment")
                self.guards.add(x)
                return self.stmts(rest, {a: b for a, b in env.items() if a != x}, k)
            src = self.alias_source(e) if isinstance(x, str) else None
            if src is not None and src[0] in ("expect", "entry"):
                if self.pure or ty is not None:
                    raise GenError("a `&mut` into a map entry inside a value block is outside the fragment")
                sn, kc, optv, fld = self.bind_alias(x, src, env)
                self.binder(x, env=env)
                self.rebound.add(x)
                env2 = dict(env)
                env2[x] = "struct:" + sn
                self.aliases[x] = (fld, kc, sn)
                if src[0] == "expect":
                    return "%s <- expect_some %s ;;\n%s" % (x, optv, self.stmts(rest, env2, k))
                bi, ci, ti = self.expr(src[3], env)
                if ti != "struct:" + sn:
                    raise GenError("or_insert_with(|| a %s) into a map of %s" % (ti, sn))
                # the closure runs only when the key is missing; afterwards the entry exists
                return "%s <- (match %s with\n| Some v_ => Val v_\n| None => (%s)\nend) ;;\n%s%s" % (
                    x, optv, self.emit_binds(bi, "Val %s" % ci), self.writeback(x), self.stmts(rest, env2, k))
            if not isinstance(x, str) and e[0] == "iflet" and self.tagged() and not self.pure:
                # let (a, b) = if let Some(p) = opt { stmts; value } else { value };  - the blocks may leave the function
                b0, c0, t0 = self.expr(e[2], env)
                if not (t0.startswith("opt_struct:") or t0 == "opt_id"):
                    raise GenError("if let Some(..) on a %s is outside the fragment" % t0)
                env_s = dict(env)
                env_s[self.binder(e[1], env=env)] = "struct:" + t0[11:] if t0.startswith("opt_struct:") else "id"
                self.rebound.add(e[1])
                box = {}

                def vblock(blk, env_a):
                    ss_, tail_ = blk
                    if tail_ is None:
                        raise GenError("a block used as a value has no value")
                    if self.assigned2(ss_):
                        raise GenError("a value block that assigns a variable of the enclosing block is outside the fragment")

                    def kk(env2):
                        bb, cc, tt = self.expr(tail_, env2, box.get("t"))
                        box.setdefault("t", tt)
                        if box["t"] != tt:
                            raise GenError("branches of type %s and %s" % (box["t"], tt))
                        return self.emit_binds(bb, "Val (OkR %s)" % cc)
                    self.depth += 1
                    try:
                        return self.stmts(ss_, env_a, kk)
                    finally:
                        self.depth -= 1
                some_t = vblock(e[3], env_s)
                none_t = vblock(e[4], env)
                t = box["t"]
                parts = t[6:].split(",") if t.startswith("tuple:") else []
                if len(parts) != len(x[1]) or ty is not None:
                    raise GenError("let %r = a value of type %s is outside the fragment" % (x[1], t))
                env2 = dict(env)
                for n_, t_ in zip(x[1], parts):
                    env2[self.binder(n_, env=env)] = t_
                    self.rebound.add(n_)
                y = self.fresh()
                return self.emit_binds(b0, "%s <-? (match %s with\n| Some %s => (%s)\n| None => (%s)\nend) ;;\nlet '(%s) := %s in\n%s" % (
                    y, c0, e[1], some_t, none_t, ", ".join(x[1]), y, self.stmts(rest, env2, k)))
            if isinstance(x, str) and e[0] == "match_val":
                # let x = match opt { Some(y) => value, None => transaction_format_err!(..) };  (or the arms swapped):
                # one arm has the value, the other leaves the function with an error
                if not self.tagged() or self.pure or ty is not None:
                    raise GenError("a match with a diverging arm outside the body of a function that returns Result")
                b, c, t = self.expr(e[1], env)
                if not (t.startswith("opt_struct:") or t == "opt_id"):
                    raise GenError("match on a %s is outside the fragment" % t)
                inner_t = "struct:" + t[11:] if t.startswith("opt_struct:") else "id"
                env_s = dict(env)
                env_s[self.binder(e[3], env=env)] = inner_t
                self.rebound.add(e[3])
                box = {}

                def arm(ex, env_a):
                    if ex[0] == "macro" and ex[1] == "transaction_format_err":
                        if self.format_tag is None or len(ex[2]) < 3:
                            raise GenError("transaction_format_err! needs (self, tag, format string, ..)")
                        fb = self.fmt_arg_binds(ex[2][2:], env_a)
                        return self.emit_binds(fb, "Val (ErrR \"%s\"%%string)" % self.format_tag), None
                    self.pure += 1
                    try:
                        b_, c_, t_ = self.expr(ex, env_a)
                    finally:
                        self.pure -= 1
                    return self.emit_binds(b_, "Val (OkR %s)" % c_), t_
                none_t, tn = arm(e[2], env)
                some_t, ts = arm(e[4], env_s)
                if (tn is None) == (ts is None):
                    raise GenError("a match used as a value needs exactly one arm with a value and one that leaves the function")
                tv_ = tn or ts
                self.binder(x, env=env)
                self.rebound.add(x)
                env2 = dict(env)
                env2[x] = tv_
                return self.emit_binds(b, "%s <-? (match %s with\n| None => (%s)\n| Some %s => (%s)\nend) ;;\n%s" % (
                    x, c, none_t, e[3], some_t, self.stmts(rest, env2, k)))
            if not isinstance(x, str):
                b, c, t = self.expr(e, env)
                parts = t[6:].split(",") if t.startswith("tuple:") else []
                if len(parts) != len(x[1]) or ty is not None:
                    raise GenError("let %r = a value of type %s is outside the fragment" % (x[1], t))
                env2 = dict(env)
                for n_, t_ in zip(x[1], parts):
                    env2[self.binder(n_, env=env)] = t_
                    self.rebound.add(n_)
                return self.emit_binds(b, "let '(%s) := %s in\n%s" % (", ".join(x[1]), c, self.stmts(rest, env2, k)))
            b, c, t = self.expr(e, env, ty)
            if ty and ty != t:
                raise GenError("let %s: declared %s, expression has %s" % (x, ty, t))
            if t.startswith("result"):
                raise GenError("binding a Result is outside the fragment")
            self.binder(x, c, env=env)
            self.rebound.add(x)
            env2 = dict(env)
            env2[x] = t
            if t in ("set", "vec_id") or t.startswith("map:"):
                self.collections.add(x)
            return self.emit_binds(b, "let %s := %s in\n%s" % (x, c, self.stmts(rest, env2, k)))
        if kind == "assign":
            tgt, rhs = s[1], s[2]
            if tgt[0] == "deref" and tgt[1][0] == "var" and tgt[1][1] in self.guards:
                if rhs[0] != "bool":
                    raise GenError("a debugging guard is only armed or disarmed with a literal")
                return self.stmts(rest, env, k)
            if tgt[0] == "var":
                if tgt[1] not in env:
                    raise GenError("assignment to unknown variable %s" % tgt[1])
                b, c, t = self.expr(rhs, env, env[tgt[1]])
                if t != env[tgt[1]]:
                    raise GenError("%s: %s assigned a %s" % (tgt[1], env[tgt[1]], t))
                return self.emit_binds(b, "let %s := %s in\n%s" % (tgt[1], c, self.stmts(rest, env, k)))
            if tgt[0] == "field" and tgt[1][0] == "var" and tgt[1][1] in self.aliases and tgt[1][1] in env:
                x_ = tgt[1][1]
                sn = self.aliases[x_][2]
                ft = dict(self.structs[sn]).get(tgt[2])
                if ft is None:
                    raise GenError("%s.%s: no such field, or its type is outside the fragment" % (x_, tgt[2]))
                b, c, t = self.expr(rhs, env, ft)
                if t != ft:
                    raise GenError("%s.%s: %s assigned a %s" % (x_, tgt[2], ft, t))
                return self.emit_binds(b, "let %s := %s in\n%s%s" % (
                    x_, self.set_field_of(sn, x_, tgt[2], c), self.writeback(x_), self.stmts(rest, env, k)))
            if tgt[0] == "field" and tgt[1] == ("var", "self") and self.cur.get("selfmode") == "mut" and self.owner != self.validator:
                ft = dict(self.structs[self.owner]).get(tgt[2])
                if ft is None:
                    raise GenError("self.%s: no such field, or its type is outside the fragment" % tgt[2])
                b, c, t = self.expr(rhs, env, ft)
                if t != ft:
                    raise GenError("self.%s: %s assigned a %s" % (tgt[2], ft, t))
                return self.emit_binds(b, "let self := %s in\n%s" % (self.set_field(tgt[2], c), self.stmts(rest, env, k)))
            raise GenError("assignment target %r is outside the fragment" % (tgt,))
        if kind == "expr":
            e = s[1]
            if e[0] == "macro" and e[1] in self.LOGGING:
                self.logging_ok(e, env)
                return self.stmts(rest, env, k)      # logging: no effect on the state
            if e[0] == "macro" and e[1] == "transaction_format_err":
                # return Err(transaction_format_error(format!(..))) : object and tag arguments are ignored by the macro,
                # the error carries the tag that transaction_format_error gives it; the rest is not run
                if not self.tagged() or self.pure or self.format_tag is None:
                    raise GenError("transaction_format_err! outside the body of a function that returns Result")
                if getattr(self, "updated", False):
                    raise GenError("an error after an update of a `&mut` parameter is outside the fragment")
                if len(e[2]) < 3:
                    raise GenError("transaction_format_err! needs (self, tag, format string, ..)")
                fb = self.fmt_arg_binds(e[2][2:], env)
                x = self.fresh()
                return self.emit_binds(fb, "%s <-? early_err \"%s\"%%string ;;\n%s" % (x, self.format_tag, self.stmts(rest, env, k)))
            if e[0] == "macro" and e[1] == "policy_err":
                args = e[2]
                if not self.tagged() or self.pure:
                    raise GenError("policy_err! outside the body of a function that returns Result<(), _>")
                obj_ok = args and ((args[0] == [("id", "self")] and self.owner == self.validator) or
                                   (len(args[0]) == 1 and args[0][0][0] == "id" and env.get(args[0][0][1], "").startswith("dyn:Validator")
                                    and args[0][0][1] not in self.rebound))
                if len(args) < 3 or not obj_ok:
                    raise GenError("policy_err! needs (self | the validator parameter, tag, format string, ..)")
                pp = P(list(args[1]) + [("eof", "")], self.known)
                tagex = pp.expr()
                if pp.peek()[0] != "eof":
                    raise GenError("policy tag %r is outside the fragment" % (args[1],))
                if getattr(self, "updated", False) or self.cur.get("as_state"):
                    raise GenError("policy_err! after an update of a `&mut` parameter / in a state-passing function is outside the fragment")
                tag = self.tag_code(tagex, env)
                fb = self.fmt_arg_binds(args[2:], env)       # the message is formatted before the filter is asked
                x = self.fresh()
                return self.emit_binds(fb, "%s <-? policy_err warn %s ;;\n%s" % (x, tag, self.stmts(rest, env, k)))
            if e[0] == "try":
                b, c, t = self.expr(e, env)
                return self.emit_binds(b, self.stmts(rest, env, k))
            ec = self.entry_chain(e)
            if ec is not None and ec[0] in self.collections and env.get(ec[0]) == "map:u64":
                x_, keyex, mod, dflt = ec
                bk, kc, tk = self.expr(keyex, env)
                if tk != "id":
                    raise GenError("entry(..) with a key of type %s" % tk)
                bd, dc = [], "None"
                if dflt is not None:
                    bd, dv, td = self.expr(dflt, env, "u64")         # the argument of or_insert is evaluated first
                    if td != "u64":
                        raise GenError("or_insert(%s) into a map of u64" % td)
                    dc = "(Some %s)" % dv
                fc = "(fun e_ => Val e_)"
                if mod is not None:
                    par, body = mod[1][0], mod[2]
                    env_c = dict(env)
                    env_c[self.binder(par, env=env)] = "u64"
                    # |e| *e += x   |   |e| *e = max(*e, v) / min(*e, v)
                    if body[0] == "compound" and body[1] == "+" and body[2] == ("deref", ("var", par)):
                        bx, xc, tx2 = self.expr(body[3], env_c, "u64")
                        if bx or tx2 != "u64":
                            raise GenError("`*e += <%s>` in and_modify is outside the fragment" % tx2)
                        fc = "(fun %s => add_p prof %s %s)" % (par, par, xc)
                    elif body[0] == "assign_expr" and body[1] == ("deref", ("var", par)) and body[2][0] == "call" \
                            and body[2][1] in ("max", "min") and len(body[2][2]) == 2 and body[2][2][0] == ("deref", ("var", par)):
                        bx, xc, tx2 = self.expr(body[2][2][1], env_c, "u64")
                        if bx or tx2 != "u64":
                            raise GenError("and_modify(|e| *e = %s(*e, <%s>)) is outside the fragment" % (body[2][1], tx2))
                        fc = "(fun %s => Val (N.%s %s %s))" % (par, body[2][1], par, xc)
                    else:
                        raise GenError("and_modify closure %r is outside the fragment" % (body,))
                return self.emit_binds(bk + bd, "%s <- map_entry_update %s %s %s %s ;;\n%s" % (x_, x_, kc, fc, dc, self.stmts(rest, env, k)))
            if e[0] == "mcall" and e[2] == "retain" and e[1][0] == "var" and e[1][1] in self.collections \
                    and env.get(e[1][1], "").startswith("map:") and len(e[3]) == 1 and e[3][0][0] == "closure" and len(e[3][0][1]) == 2:
                x_ = e[1][1]
                kpar, vpar = e[3][0][1]
                if vpar != "_":
                    raise GenError("retain with a closure that reads the value is outside the fragment")
                env_c = dict(env)
                env_c[self.binder(kpar, env=env)] = "id"
                bc, cc, tc = self.expr(e[3][0][2], env_c)
                if bc or tc != "bool":
                    raise GenError("retain closure of type %s (or that can panic) is outside the fragment" % tc)
                return "let %s := map_retain %s (fun %s => %s) in\n%s" % (x_, x_, kpar, cc, self.stmts(rest, env, k))
            if e[0] == "mcall" and e[1][0] == "var" and e[1][1] in self.collections and e[1][1] in env and len(e[3]) == 1:
                x_, tx_ = e[1][1], env[e[1][1]]
                if e[2] == "push" and tx_ == "vec_id":
                    b_, c_, t_ = self.expr(e[3][0], env)
                    if t_ != "id":
                        raise GenError("push of a %s onto a vector of opaque values" % t_)
                    return self.emit_binds(b_, "let %s := vec_push %s %s in\n%s" % (x_, x_, c_, self.stmts(rest, env, k)))
                if e[2] == "extend" and tx_ == "set" and e[3][0][0] == "mcall" and e[3][0][2] == "keys" and not e[3][0][3]:
                    b_, c_, t_ = self.expr(e[3][0][1], env)
                    if not t_.startswith("map:"):
                        raise GenError("extend with the keys of a %s" % t_)
                    return self.emit_binds(b_, "let %s := set_extend %s (map_keys %s) in\n%s" % (x_, x_, c_, self.stmts(rest, env, k)))
                raise GenError("update .%s(..) of %s is outside the fragment" % (e[2], x_))
            if e[0] == "mcall" and e[1][0] == "var" and e[1][1] in self.aliases and e[1][1] in env \
                    and (self.aliases[e[1][1]][2], e[2]) in self.methods2 and self.methods2[(self.aliases[e[1][1]][2], e[2])]["selfmode"] == "mut":
                x_ = e[1][1]
                sn = self.aliases[x_][2]
                m2 = self.methods2[(sn, e[2])]
                if m2["ret"] != "unit" or (sn, e[2]) in self.state_methods:
                    raise GenError("%s.%s(..): only `&mut self` methods without a value are inside the fragment" % (x_, e[2]))
                if len(e[3]) != len(m2["params"]):
                    raise GenError("call of %s with %d arguments" % (e[2], len(e[3])))
                bs, cs = [], []
                for a_, (pn, pt) in zip(e[3], m2["params"]):
                    b_, c_, t_ = self.expr(a_, env, pt)
                    if t_ != pt:
                        raise GenError("argument %s of %s: %s given, %s expected" % (pn, e[2], t_, pt))
                    bs += b_
                    cs.append(c_)
                return self.emit_binds(bs, "%s <- %s ;;\n%s%s" % (
                    x_, " ".join(["gen_%s_%s prof" % (sn, e[2])] + self.pass_opaque((sn, e[2])) + [x_] + cs),
                    self.writeback(x_), self.stmts(rest, env, k)))
            if e[0] == "mcall" and e[2] == "insert" and len(e[3]) == 2 and e[1][0] == "field" and e[1][1] == ("var", "self") \
                    and self.cur.get("selfmode") == "mut" and self.owner != self.validator:
                f_ = e[1][2]
                ft = dict(self.structs[self.owner]).get(f_, "")
                if not ft.startswith("map:"):
                    raise GenError("self.%s.insert(..) on a %s is outside the fragment" % (f_, ft))
                b1, k_, tk = self.expr(e[3][0], env)
                b2, v_, tv_ = self.expr(e[3][1], env, ft[4:])
                if tk != "id" or tv_ != ft[4:]:
                    raise GenError("insert of (%s, %s) into a %s" % (tk, tv_, ft))
                # the returned Option (the previous value) is discarded
                return self.emit_binds(b1 + b2, "let self := %s in\n%s" % (
                    self.set_field(f_, "(map_insert %s %s %s)" % (self.proj(self.owner, f_, "self"), k_, v_)), self.stmts(rest, env, k)))
            sp = self.state_param()
            if e[0] == "mcall" and sp and e[1] == ("var", sp) and env.get(sp, "").startswith("struct:") \
                    and (env[sp][7:], e[2]) in self.coq_fn and self.methods2[(env[sp][7:], e[2])]["selfmode"] == "mut":
                # p.m(args); for the `&mut S` parameter p and a translated `&mut self` method of S without a value
                m2 = self.methods2[(env[sp][7:], e[2])]
                if m2["ret"] != "unit" or self.pure or self.depth:
                    raise GenError("an update of %s inside a block, or through a method with a value, is outside the fragment" % sp)
                if len(e[3]) != len(m2["params"]):
                    raise GenError("call of %s with %d arguments" % (e[2], len(e[3])))
                bs, cs = [], []
                for a_, (pn, pt) in zip(e[3], m2["params"]):
                    b_, c_, t_ = self.expr(a_, env, pt)
                    if t_ != pt:
                        raise GenError("argument %s of %s: %s given, %s expected" % (pn, e[2], t_, pt))
                    bs += b_
                    cs.append(c_)
                self.updated = True
                return self.emit_binds(bs, "%s <- %s ;;\n%s" % (sp, " ".join([self.coq_fn[(env[sp][7:], e[2])], "prof", sp] + cs),
                                                                 self.stmts(rest, env, k)))
            raise GenError("statement %r is outside the fragment" % (e,))
        if kind == "attr":
            # #[cfg(..)] : the statement exists in some builds only; accepted on a statement the translation drops
            inner = s[2]
            if not (s[1].startswith("cfg(") and inner[0] == "expr" and inner[1][0] == "macro" and inner[1][1] in self.LOGGING):
                raise GenError("attribute #[%s] on a statement that is not logging is outside the fragment" % s[1])
            self.logging_ok(inner[1], env)
            return self.stmts(rest, env, k)
        if kind == "iflet_stmt" and not isinstance(s[1], str):
            # if let Some((a, b)) = e { block }
            if not self.tagged() or self.pure or self.assigned2(s[3][0]):
                raise GenError("an `if let Some((..))` that assigns, or outside a function that returns Result, is outside the fragment")
            b, c, t = self.expr(s[2], env)
            parts = t[10:].split(",") if t.startswith("opt:tuple:") else []
            if len(parts) != len(s[1][1]):
                raise GenError("`if let Some((..))` with %d components on a %s" % (len(s[1][1]), t))
            env_s = dict(env)
            for n_, t_ in zip(s[1][1], parts):
                env_s[self.binder(n_, env=env)] = t_
                self.rebound.add(n_)
            self.depth += 1
            some_t = self.stmts(s[3][0], env_s, lambda e2: "Val (OkR tt)")
            self.depth -= 1
            x = self.fresh()
            return self.emit_binds(b, "%s <-? (match %s with\n| None => Val (OkR tt)\n| Some (%s) => (%s)\nend) ;;\n%s" % (
                x, c, ", ".join(s[1][1]), some_t, self.stmts(rest, env, k)))
        if kind == "iflet_stmt":
            # if let Some(x) = &opt { only logging } : dropped.  The block may bind the results of the listed helpers
            # (lazy iterators over the HTLC lists), which only the log lines consume.
            src = self.alias_source(s[2])
            if src is not None and src[0] == "get_mut":
                # if let Some(x) = self.F.get_mut(&k) { .. } : x stands for the entry; its updates are written back
                if self.pure or s[3][1] is not None:
                    raise GenError("a `&mut` into a map entry inside a value block is outside the fragment")
                sn, kc, optv, fld = self.bind_alias(s[1], src, env)
                carried = []
                for v_ in self.assigned2(s[3][0]) + (["self"] if self.assigned_alias(s[3][0], s[1]) else []):
                    if v_ not in carried:
                        carried.append(v_)
                if any(c_ not in env for c_ in carried):
                    raise GenError("an `if let` block that assigns an unknown variable is outside the fragment")
                env_s = dict(env)
                env_s[self.binder(s[1], env=env)] = "struct:" + sn
                self.rebound.add(s[1])
                saved_al = dict(self.aliases)
                self.aliases[s[1]] = (fld, kc, sn)
                val_, pat_ = self.carry(carried)
                ret = "Val (OkR %s)" % val_
                self.depth += 1
                some_t = self.stmts(s[3][0], env_s, lambda e2: ret)
                self.depth -= 1
                self.aliases = saved_al
                return "%s <-? (match %s with\n| None => %s\n| Some %s => (%s)\nend) ;;\n%s" % (
                    pat_ or self.fresh(), optv, ret, s[1], some_t, self.stmts(rest, env, k))
            b, c, t = self.expr(s[2], env)
            if s[3][1] is not None or not (t in ("opt_id", "opt_u32", "opt_u64") or t.startswith("opt_struct:")):
                raise GenError("`if let Some(..)` on a %s, or with a value, is outside the fragment" % t)

            def logs_only(st):
                if st[0] == "expr" and st[1][0] == "macro" and st[1][1] in ("debug", "trace", "info", "warn"):
                    return True
                return st[0] == "let" and st[2] is None and st[3][0] == "mcall" and st[3][1] == ("var", s[1]) \
                    and st[3][2] in self.lazy_helpers and all(a[0] == "var" and a[1] in env for a in st[3][3])
            if not b and s[3][0] and all(logs_only(st) for st in s[3][0]):
                return self.stmts(rest, env, k)
            # if let Some(x) = &opt { block } : the block for Some, nothing for None
            if self.pure or not (self.tagged() or self.cur.get("selfmode") == "mut"):
                raise GenError("an `if let` statement outside the body of a function that returns Result or updates self")
            carried = self.assigned2(s[3][0])
            if any(c_ != "self" and c_ not in env for c_ in carried):
                raise GenError("an `if let` block that assigns an unknown variable is outside the fragment")
            env_s = dict(env)
            env_s[self.binder(s[1], env=env)] = {"opt_id": "id", "opt_u32": "u32", "opt_u64": "u64"}.get(t) or "struct:" + t[11:]
            self.rebound.add(s[1])
            val_, pat_ = self.carry(carried)
            ret = ("Val (OkR %s)" if self.tagged() else "Val %s") % val_
            self.depth += 1
            some_t = self.stmts(s[3][0], env_s, lambda e2: ret)
            self.depth -= 1
            x = pat_ or self.fresh()
            return self.emit_binds(b, "%s %s (match %s with\n| None => %s\n| Some %s => (%s)\nend) ;;\n%s" % (
                x, "<-?" if self.tagged() else "<-", c, ret, s[1], some_t, self.stmts(rest, env, k)))
        if kind == "iflet_tuple":
            # if let (true, x) = e { block } : e is evaluated, the block runs when the literal components match
            if not self.tagged() or self.pure:
                raise GenError("an `if let` statement outside the body of a function that returns Result")
            if self.assigned2(s[3][0]):
                raise GenError("an `if let` block that assigns a variable of the enclosing block is outside the fragment")
            b, c, t = self.expr(s[2], env)
            parts = t[6:].split(",") if t.startswith("tuple:") else []
            if len(parts) != len(s[1]):
                raise GenError("`if let (..)` with %d components on a %s" % (len(s[1]), t))
            env_s, names, conds = dict(env), [], []
            for pat, pt in zip(s[1], parts):
                if pat in ("true", "false"):
                    if pt != "bool":
                        raise GenError("a boolean literal pattern on a %s" % pt)
                    nm = self.fresh()
                    conds.append(nm if pat == "true" else "(negb %s)" % nm)
                else:
                    nm = self.binder(pat, env=env)
                    env_s[nm] = pt
                    self.rebound.add(nm)
                names.append(nm)
            if not conds:
                raise GenError("`if let (..)` without a literal component is outside the fragment")
            self.depth += 1
            inside = self.stmts(s[3][0], env_s, lambda e2: "Val (OkR tt)")
            self.depth -= 1
            x = self.fresh()
            return self.emit_binds(b, "let '(%s) := %s in\n%s <-? (if %s\nthen (%s)\nelse Val (OkR tt)) ;;\n%s" % (
                ", ".join(names), c, x, " && ".join(conds), inside, self.stmts(rest, env, k)))
        if kind == "ifelse_stmt":
            if not self.tagged() or self.pure:
                raise GenError("an `if`/`else` statement outside the body of a function that returns Result")
            if self.assigned2(s[2][0]) or self.assigned2(s[3][0]):
                raise GenError("an `if`/`else` whose branches assign a variable of the enclosing block is outside the fragment")
            if s[2][1] is not None or s[3][1] is not None:
                raise GenError("an `if`/`else` statement whose branches have a value is outside the fragment")
            b, c, t = self.expr(s[1], env)
            if t != "bool":
                raise GenError("if on a non-boolean")
            self.depth += 1
            then_t = self.stmts(s[2][0], env, lambda e2: "Val (OkR tt)")
            else_t = self.stmts(s[3][0], env, lambda e2: "Val (OkR tt)")
            self.depth -= 1
            x = self.fresh()
            return self.emit_binds(b, "%s <-? (if %s\nthen (%s)\nelse (%s)) ;;\n%s" % (
                x, c, then_t, else_t, self.stmts(rest, env, k)))
        if kind == "match_opt":
            if not self.tagged() or self.pure:
                raise GenError("a match statement outside the body of a function that returns Result")
            for blk in (s[2], s[4]):
                if self.assigned2(blk[0]):
                    raise GenError("a match arm that assigns a variable of the enclosing block is outside the fragment")
            b, c, t = self.expr(s[1], env)
            if t != "opt_id":
                raise GenError("match on a %s is outside the fragment" % t)
            env_s = dict(env)
            env_s[self.binder(s[3], env=env)] = "id"
            self.rebound.add(s[3])
            self.depth += 1
            none_t = self.stmts(s[2][0], env, lambda e2: "Val (OkR tt)")
            some_t = self.stmts(s[4][0], env_s, lambda e2: "Val (OkR tt)")
            self.depth -= 1
            x = self.fresh()
            return self.emit_binds(b, "%s <-? (match %s with\n| None => (%s)\n| Some %s => (%s)\nend) ;;\n%s" % (
                x, c, none_t, s[3], some_t, self.stmts(rest, env, k)))
        if kind == "if_stmt":
            if self.assigned2(s[2][0]):
                raise GenError("an `if` block that assigns a variable of the enclosing block is outside the fragment")
            if not self.tagged() or self.pure:
                raise GenError("an `if` statement outside the body of a function that returns Result<(), _>")
            b, c, t = self.expr(s[1], env)
            if t != "bool":
                raise GenError("if on a non-boolean")
            self.depth += 1
            inside = self.stmts(s[2][0], env, lambda e2: "Val (OkR tt)")
            self.depth -= 1
            x = self.fresh()
            return self.emit_binds(b, "%s <-? (if %s\nthen (%s)\nelse Val (OkR tt)) ;;\n%s" % (
                x, c, inside, self.stmts(rest, env, k)))
        if kind == "for_iter":
            var, it, body = s[1], s[2], s[3]
            if not self.tagged() or self.pure:
                raise GenError("a loop outside the body of a function that returns Result<(), _>")
            if not isinstance(var, str):
                # for (k, v) in m : a map local handed over to the loop; visited in an order the code does not choose
                if not (it[0] == "var" and env.get(it[1]) == "map:u64" and len(var[1]) == 2):
                    raise GenError("`for (k, v) in ..` over anything but a local map of u64 is outside the fragment")
                self.use_opaque("pair_order", "pairordfn")
                carried = self.assigned2(body)
                if any(c_ not in env for c_ in carried):
                    raise GenError("a loop that assigns an unknown variable is outside the fragment")
                env_b = dict(env)
                env_b[self.binder(var[1][0], env=env)] = "id"
                env_b[self.binder(var[1][1], env=env)] = "u64"
                self.rebound.update(var[1])
                val_, pat_ = self.carry(carried)
                self.depth += 1
                inner = self.stmts(body, env_b, lambda e2: "Val (OkR %s)" % val_)
                self.depth -= 1
                if len(carried) != 1:
                    raise GenError("a loop over a map that does not assign exactly one variable is outside the fragment")
                return "%s <-? fold_r (fun %s kv_ => let '(%s, %s) := kv_ in\n%s) (pair_order %s) %s ;;\n%s" % (
                    carried[0], carried[0], var[1][0], var[1][1], inner, it[1], carried[0], self.stmts(rest, env, k))
            ordered = None
            if it[0] == "mcall" and it[2] == "iter" and not it[3]:
                save_ = self.tmp
                b_, v_, t_ = self.expr(it[1], env)
                self.tmp = save_
                if t_ in ("set", "vec_id"):
                    ordered = (b_, v_, t_)
            if ordered is not None:
                b, v, tset = ordered
                if tset == "set":
                    self.use_opaque("iter_order", "ordfn")
                    v = "(iter_order %s)" % v          # a hash set is visited in an order the code does not choose
                carried = self.assigned2(body)
                if any(c_ not in env for c_ in carried):
                    raise GenError("a loop that assigns an unknown variable is outside the fragment")
                env_b = dict(env)
                env_b[self.binder(var, env=env)] = "id"
                self.rebound.add(var)
                val_, pat_ = self.carry(carried)
                ret = "Val (OkR %s)" % val_
                saved_al = dict(self.aliases)
                self.depth += 1
                inner = self.stmts(body, env_b, lambda e2: ret)
                self.depth -= 1
                self.aliases = saved_al
                if len(carried) == 1:
                    return self.emit_binds(b, "%s <-? fold_r (fun %s %s =>\n%s) %s %s ;;\n%s" % (
                        carried[0], carried[0], var, inner, v, carried[0], self.stmts(rest, env, k)))
                if carried:
                    return self.emit_binds(b, "%s <-? fold_r (fun st_ %s => let %s := st_ in\n%s) %s %s ;;\n%s" % (
                        pat_, var, pat_, inner, v, val_, self.stmts(rest, env, k)))
                x = self.fresh()
                return self.emit_binds(b, "%s <-? fold_r (fun _ %s =>\n%s) %s tt ;;\n%s" % (x, var, inner, v, self.stmts(rest, env, k)))
            if it[0] == "ref":
                seq = it[1]
            elif it[0] == "mcall" and it[2] == "iter" and not it[3]:
                seq = it[1]
            elif it[0] == "var" and (env.get(it[1]) == "vec" or env.get(it[1], "").startswith("vec:")) \
                    and it[1] in dict(self.cur["params"]) and it[1] not in self.rebound:
                seq = it                          # `for x in s` for a slice parameter s: &[u64] / &[S] (iterates by reference)
            else:
                raise GenError("only `for x in &v` / `for x in v.iter()` / `for x in <slice parameter>` are inside the fragment")
            b, v, tv = self.expr(seq, env)
            if tv == "vec":
                tv = "vec:"                       # elements are u64
            if not tv.startswith("vec:"):
                raise GenError("a loop over a %s is outside the fragment" % tv)
            carried = self.assigned2(body)
            if not carried:
                # a loop that only checks: the loop-carried state is the unit value
                env_b = dict(env)
                env_b[self.binder(var, env=env)] = "struct:" + tv[4:] if tv[4:] else "u64"
                self.rebound.add(var)
                self.depth += 1
                inner = self.stmts(body, env_b, lambda e2: "Val (OkR tt)")
                self.depth -= 1
                x = self.fresh()
                loop = "fold_r (fun _ %s =>\n%s) %s tt" % (var, inner, v)
                return self.emit_binds(b, "%s <-? %s ;;\n%s" % (x, loop, self.stmts(rest, env, k)))
            if len(carried) != 1 or carried[0] not in env:
                raise GenError("a loop that assigns more than one variable of the enclosing block is outside the fragment")
            env_b = dict(env)
            env_b[self.binder(var, env=env)] = "struct:" + tv[4:] if tv[4:] else "u64"
            self.rebound.add(var)
            self.depth += 1
            inner = self.stmts(body, env_b, lambda e2: "Val (OkR %s)" % carried[0])
            self.depth -= 1
            loop = "fold_r (fun %s %s =>\n%s) %s %s" % (carried[0], var, inner, v, carried[0])
            return self.emit_binds(b, "%s <-? %s ;;\n%s" % (carried[0], loop, self.stmts(rest, env, k)))
        raise GenError("statement %r is outside the fragment" % (s,))

    def state_param(self):
        """the `&mut S` parameter a function updates through translated `&mut self` methods of S, if any: the function's
        Ok then carries the updated value.  An error after an update would have to hand the updated value on as well:
        refused (see policy_err! / `?`)."""
        return self.cur.get("state_param")

    def set_field(self, f, v):
        """the record of the method's struct with field f replaced"""
        sn = self.owner
        mk = (self.coq_struct[sn][1].rsplit(".", 1)[0] + ".mk_" + sn) if sn in self.coq_struct and "." in self.coq_struct[sn][1] else "mk_" + sn
        return "(%s %s)" % (mk, " ".join("(%s)" % v if g == f else self.proj(sn, g, "self") for g, _ in self.structs[sn]))

    def validator_head(self, name):
        fn = self.coq_fn.get((self.validator, name), "gen_%s" % name)
        return "%s prof warn policy" % fn if self.policy_struct else "%s prof warn" % fn

    @staticmethod
    def entry_chain(e):
        """m.entry(k)[.and_modify(|e| ..)][.or_insert(d)] on a local m -> (m, key, modify closure or None, default or None)"""
        mod, dflt = None, None
        if e[0] == "mcall" and e[2] == "or_insert" and len(e[3]) == 1:
            dflt = e[3][0]
            e = e[1]
        if e[0] == "mcall" and e[2] == "and_modify" and len(e[3]) == 1 and e[3][0][0] == "closure" and len(e[3][0][1]) == 1:
            mod = e[3][0]
            e = e[1]
        if e[0] == "mcall" and e[2] == "entry" and len(e[3]) == 1 and e[1][0] == "var" and (mod is not None or dflt is not None):
            return e[1][1], e[3][0], mod, dflt
        return None

    def alias_source(self, e):
        """self.F.get_mut(&k) | self.F.get_mut(&k).expect("..") | self.F.entry(k).or_insert_with(|| v) -> (kind, F, key, init)"""
        if not self.cur.get("as_state") or not isinstance(e, tuple) or e[0] != "mcall":
            return None
        if e[2] == "expect" and len(e[3]) == 1 and e[3][0][0] == "str":
            inner = self.alias_source(e[1])
            return ("expect",) + inner[1:] if inner is not None and inner[0] == "get_mut" else None
        if e[2] == "get_mut" and len(e[3]) == 1 and e[1][0] == "field" and e[1][1] == ("var", "self"):
            return ("get_mut", e[1][2], e[3][0], None)
        if e[2] == "or_insert_with" and len(e[3]) == 1 and e[3][0][0] == "closure" and not e[3][0][1] and e[1][0] == "mcall" \
                and e[1][2] == "entry" and len(e[1][3]) == 1 and e[1][1][0] == "field" and e[1][1][1] == ("var", "self"):
            return ("entry", e[1][1][2], e[1][3][0], e[3][0][2])
        return None

    def is_alias_update(self, mc):
        """x.m(..) for a `&mut self` method m of the struct of x (x: a local standing for a map entry)"""
        return self.cur.get("as_state") and mc[1][1] != "self" and any(
            (sn, mc[2]) in self.methods2 and self.methods2[(sn, mc[2])]["selfmode"] == "mut" for sn in self.structs)

    def assigned_alias(self, ss, x):
        for st in ss:
            if st[0] == "assign" and st[1][0] == "field" and st[1][1] == ("var", x):
                return True
            if st[0] == "expr" and st[1][0] == "mcall" and st[1][1] == ("var", x) and self.is_alias_update(st[1]):
                return True
            for sub in st[1:]:
                if isinstance(sub, tuple) and len(sub) == 2 and isinstance(sub[0], list) and self.assigned_alias(sub[0], x):
                    return True
        return False

    def bind_alias(self, x, src, env):
        """-> (binds, text of the value of the entry as an option, struct name, key text)"""
        kind, fld, keyex, init = src
        ft = dict(self.structs[self.owner]).get(fld, "")
        if not ft.startswith("map:struct:"):
            raise GenError("self.%s is not a map of structs" % fld)
        sn = ft[11:]
        bk, kc, tk = self.expr(keyex, env)
        if tk != "id" or bk:
            raise GenError("the key of self.%s must be an opaque value" % fld)
        return sn, kc, "(map_get %s %s)" % (self.proj(self.owner, fld, "self"), kc), fld

    def logging_ok(self, e, env):
        """debug!/trace!/info!/warn!/dbgvals! do not evaluate their arguments unless the level is enabled and have no
        effect on the answer.  policy_log! formats its message whatever the level: its arguments must be variables."""
        if e[1] == "policy_log":
            for toks in e[2][3:]:
                if toks and not (len(toks) == 1 and toks[0][0] == "id" and toks[0][1] in env):
                    raise GenError("policy_log! with an argument that is not a variable is outside the fragment")

    def block_value(self, blk, env, m):
        ss, tail = blk

        def k(env2):
            if tail is None:
                raise GenError("fn %s: block without a value" % m["name"])
            if tail[0] == "if":
                b, c, t = self.expr(tail[1], env2)
                if t != "bool":
                    raise GenError("if on a non-boolean")
                return self.emit_binds(b, "if %s\nthen (%s)\nelse (%s)" % (
                    c, self.block_value(tail[2], env2, m), self.block_value(tail[3], env2, m)))
            b, c, t = self.expr(tail, env2, m["ret"])
            if t != m["ret"]:
                raise GenError("fn %s returns %s, tail expression has %s" % (m["name"], m["ret"], t))
            return self.emit_binds(b, "Val %s" % c)
        return self.stmts(ss, env, k)

    def method2(self, owner, m):
        self.cur, self.owner = m, owner
        self.tmp, self.pure, self.depth, self.updated = 0, 0, 0, False
        self.opaque_used, self.guards, self.rebound, self.collections = [], set(), set(), set()
        m.pop("state_param", None)
        muts = [x for x in m.get("mut_params", []) if self.uses_update(m["body"], x)]
        if len(muts) > 1 or (muts and m["ret"] != "result_unit"):
            raise GenError("fn %s: more than one updated `&mut` parameter, or one in a function that does not return Result<(), _>" % m["name"])
        if muts:
            m["state_param"] = muts[0]
        self.aliases = {}
        self.field_alias = {}
        m.pop("as_state", None)
        if m["selfmode"] == "mut" and owner != self.validator and (owner, m["name"]) in self.state_methods:
            # state-passing: the updated record (and the value) is the Ok of a computation that cannot return errors
            if m["ret"] not in ("unit", "bool"):
                raise GenError("fn %s: a state-passing method with a value of type %s is outside the fragment" % (m["name"], m["ret"]))
            m["as_state"] = True
            env = {}
            for x, t in m["params"]:
                env[self.binder(x)] = t
            env["self"] = "struct:" + owner
            ss_, tail_ = m["body"]

            def kk(env2):
                if m["ret"] == "unit":
                    if tail_ is not None:
                        raise GenError("fn %s: a value at the end of a function without a value" % m["name"])
                    return "Val (OkR self)"
                bb, cc, tt_ = self.expr(tail_, env2, m["ret"])
                if tt_ != m["ret"]:
                    raise GenError("fn %s returns %s, tail expression has %s" % (m["name"], m["ret"], tt_))
                return self.emit_binds(bb, "Val (OkR (self, %s))" % cc)
            body = self.stmts(ss_, env, kk)
            self.sig_opaque[(owner, m["name"])] = list(self.opaque_used)
            head = ["(prof : profile)"]
            if any(t.startswith("dyn:Validator") for _, t in m["params"]):
                head += ["(warn : string -> bool)"] + \
                        (["(policy : %s)" % self.coq_type("struct:" + self.policy_struct)] if self.policy_struct else [])
            head += ["(%s : %s)" % (pn, self.coq_type(pt)) for pn, pt in self.opaque_used] + \
                    ["(self : %s)" % self.coq_type("struct:" + owner)] + ["(%s : %s)" % (x, self.coq_type(t)) for x, t in m["params"]]
            st = self.coq_type("struct:" + owner)
            rt = "(result %s)" % st if m["ret"] == "unit" else "(result (%s * %s))" % (st, self.coq_type(m["ret"]))
            return "Definition gen_%s_%s %s : trap %s :=\n%s." % (owner, m["name"], " ".join(head), rt, indent(body))
        m.pop("as_value", None)
        if (owner, m["name"]) in self.value_methods and owner != self.validator and m["selfmode"] in ("free", "ref"):
            m["as_value"] = True
            env = {}
            for x, t in m["params"]:
                env[self.binder(x)] = t
            if m["selfmode"] == "ref":
                env["self"] = "struct:" + owner
            ss_, tail_ = m["body"]

            def kv(env2):
                if tail_ is None:
                    raise GenError("fn %s: block without a value" % m["name"])
                bb, cc, tt_ = self.expr(tail_, env2, m["ret"])
                if tt_ != m["ret"]:
                    raise GenError("fn %s returns %s, tail expression has %s" % (m["name"], m["ret"], tt_))
                return self.emit_binds(bb, "Val (OkR %s)" % cc)
            body = self.stmts(ss_, env, kv)
            self.sig_opaque[(owner, m["name"])] = list(self.opaque_used)
            head = ["(prof : profile)"] + ["(%s : %s)" % (pn, self.coq_type(pt)) for pn, pt in self.opaque_used] + \
                   (["(self : %s)" % self.coq_type("struct:" + owner)] if m["selfmode"] == "ref" else []) + \
                   ["(%s : %s)" % (x, self.coq_type(t)) for x, t in m["params"]]
            return "Definition gen_%s_%s %s : trap (result %s) :=\n%s." % (owner, m["name"], " ".join(head), self.coq_type(m["ret"]), indent(body))
        if m["selfmode"] == "free" and owner != self.validator:
            # an associated function
            env = {}
            for x, t in m["params"]:
                env[self.binder(x)] = t
            body = self.block_value(m["body"], env, m)
            self.sig_opaque[(owner, m["name"])] = list(self.opaque_used)
            head = ["(prof : profile)"] + ["(%s : %s)" % (pn, self.coq_type(pt)) for pn, pt in self.opaque_used] + \
                   ["(%s : %s)" % (x, self.coq_type(t)) for x, t in m["params"]]
            return "Definition gen_%s_%s %s : trap %s :=\n%s." % (owner, m["name"], " ".join(head), self.coq_type(m["ret"]), indent(body))
        if m["selfmode"] == "mut" and owner != self.validator and m["ret"] == "unit":
            # a `&mut self` method of a struct without a value: the updated record is the value
            env = {}
            for x, t in m["params"]:
                env[self.binder(x)] = t
            env["self"] = "struct:" + owner
            body = self.stmts(m["body"][0] + ([("expr", m["body"][1])] if m["body"][1] is not None else []), env, lambda e2: "Val self")
            self.sig_opaque[(owner, m["name"])] = list(self.opaque_used)
            head = ["(prof : profile)"] + ["(%s : %s)" % (pn, self.coq_type(pt)) for pn, pt in self.opaque_used] + \
                   ["(self : %s)" % self.coq_type("struct:" + owner)] + ["(%s : %s)" % (x, self.coq_type(t)) for x, t in m["params"]]
            return "Definition gen_%s_%s %s : trap %s :=\n%s." % (owner, m["name"], " ".join(head), self.coq_type("struct:" + owner), indent(body))
        if m["selfmode"] != "ref":
            raise GenError("fn %s: only `&self` methods are inside the fragment" % m["name"])
        env = {}
        for x, t in m["params"]:
            env[self.binder(x)] = t
        if owner == self.validator:
            head = ["(prof : profile)", "(warn : string -> bool)"] + \
                   (["(policy : %s)" % self.coq_type("struct:" + self.policy_struct)] if self.policy_struct else [])
            name = "gen_%s" % m["name"]
        else:
            env["self"] = "struct:" + owner
            head = ["(prof : profile)"]
            if any(t.startswith("dyn:Validator") for _, t in m["params"]):
                # policy_err!(validator, ..) and the validator's translated methods need the filter and the policy
                head += ["(warn : string -> bool)"] + \
                        (["(policy : %s)" % self.coq_type("struct:" + self.policy_struct)] if self.policy_struct else [])
            name = "gen_%s_%s" % (owner, m["name"])
        body = self.block_value(m["body"], env, m)
        self.sig_opaque[(owner, m["name"])] = list(self.opaque_used)
        head += ["(%s : %s)" % (pn, self.coq_type(pt)) for pn, pt in self.opaque_used]
        if owner != self.validator:
            head.append("(self : %s)" % self.coq_type("struct:" + owner))
        head += ["(%s : %s)" % (x, self.coq_type(t)) for x, t in m["params"]]
        rt = self.coq_type(m["ret"])
        if m.get("state_param"):
            rt = "(result %s)" % self.coq_type(dict(m["params"])[m["state_param"]])
        return "Definition %s %s : trap %s :=\n%s." % (name, " ".join(head), rt, indent(body))

    def uses_update(self, blk, x):
        """does the block call a method on the variable x as a statement (at any depth)?"""
        def walk(ss):
            for s_ in ss:
                if s_[0] == "expr" and s_[1][0] == "mcall" and s_[1][1] == ("var", x):
                    return True
                for sub in s_[1:]:
                    if isinstance(sub, tuple) and len(sub) == 2 and isinstance(sub[0], list) and walk(sub[0]):
                        return True
                    if isinstance(sub, list) and sub and isinstance(sub[0], tuple) and walk(sub):
                        return True
            return False
        return walk(blk[0])


def check_error_helpers(core):
    """what the translation relies on about policy/error.rs: policy_error(tag, ..) builds an error with that tag,
    prepend_msg keeps the tag, policy_err! is `policy_error(tag, ..)?` on the policy object"""
    src = re.sub(r"\s+", " ", open(os.path.join(core, "policy", "error.rs")).read())
    m = re.search(r"fn policy_error\(tag: impl Into<String>, msg: impl Into<String>\) -> ValidationError \{ "
                  r"ValidationError \{ tag: tag\.into\(\), kind: Policy\(msg\.into\(\)\),", src)
    if not m:
        raise GenError("policy/error.rs: policy_error no longer builds ValidationError { tag: tag.into(), kind: Policy(..) }")
    m = re.search(r"fn prepend_msg\(self, premsg: String\) -> ValidationError \{(.*?)\} \}", src)
    if not m or "ValidationError { tag: self.tag," not in m.group(1):
        raise GenError("policy/error.rs: prepend_msg no longer keeps the tag")
    m = re.search(r"macro_rules! policy_err \{ \(\$obj:expr, \$tag:tt, \$\(\$arg:tt\)\*\) => \( "
                  r"\$obj\.policy\(\)\.policy_error\(\$tag\.into\(\), format!\( \"\{\}: \{\}\", short_function!\(\), "
                  r"format!\(\$\(\$arg\)\*\) \)\)\? \) \}", src)
    if not m:
        raise GenError("policy/error.rs: policy_err! is no longer `$obj.policy().policy_error($tag.into(), format!(..))?`")


def generate_commitment_policy(repo):
    try:
        return _generate_commitment_policy(repo)
    except (IndexError, KeyError, ValueError, TypeError, AttributeError, RecursionError, OSError) as e:
        # a source shape the reader did not foresee is a construct outside the fragment, not a crash
        raise GenError("the source could not be read (%s: %s)" % (type(e).__name__, e))


def _generate_commitment_policy(repo):
    core = os.path.join(repo, "vls-core", "src")
    rd = lambda *p: open(os.path.join(core, *p)).read()
    sv, ch, tx, va, pm, tu = (rd("policy", "simple_validator.rs"), rd("channel.rs"), rd("tx", "tx.rs"),
                              rd("policy", "validator.rs"), rd("policy", "mod.rs"), rd("util", "transaction_utils.rs"))
    check_error_helpers(core)
    # where simple_validator.rs takes the names from that the translated functions use
    uses = use_table(sv)
    expect = {"ChannelSetup": "crate::channel", "CommitmentType": "crate::channel", "CommitmentInfo2": "crate::tx::tx",
              "ChainState": "super::validator", "EnforcementState": "super::validator", "MAX_CLTV_EXPIRY": "super",
              "MIN_CHAN_DUST_LIMIT_SATOSHIS": "crate::util::transaction_utils",
              "MIN_DUST_LIMIT_SATOSHIS": "crate::util::transaction_utils",
              "estimate_feerate_per_kw": "crate::util::transaction_utils",
              "expected_commitment_tx_weight": "crate::util::transaction_utils",
              "htlc_success_tx_weight": "lightning::ln::chan_utils", "htlc_timeout_tx_weight": "lightning::ln::chan_utils",
              "policy_error": "super::error"}
    for n, mod in expect.items():
        if uses.get(n) != mod:
            raise GenError("simple_validator.rs: %s is expected from %s, found %s" % (n, mod, uses.get(n)))
    for n in ("MAX_CLTV_EXPIRY", "MIN_CHAN_DUST_LIMIT_SATOSHIS", "MIN_DUST_LIMIT_SATOSHIS"):
        if re.search(r"\bconst\s+%s\b" % n, sv):
            raise GenError("simple_validator.rs declares its own %s" % n)
    known, structs, struct_src = policy_decls(core)
    enums = {"CommitmentType": enum_variants(ch, "CommitmentType")}
    consts = {}
    for n, (src, where) in {"MAX_CLTV_EXPIRY": (pm, "policy/mod.rs"), "MIN_CHAN_DUST_LIMIT_SATOSHIS": (tu, "util/transaction_utils.rs"),
                            "MIN_DUST_LIMIT_SATOSHIS": (tu, "util/transaction_utils.rs")}.items():
        tab = const_table(src)
        if n not in tab:
            raise GenError("constant %s not found in %s" % (n, where))
        consts[n] = tab[n]
    ext = {}
    for n in ("estimate_feerate_per_kw", "expected_commitment_tx_weight"):
        ext[n] = ("TxUtilGen.gen_" + n, P(lex(free_fn_source(tu, n))).fn())
    plan = [("ChannelSetup", "is_anchors", ch, "channel.rs"), ("ChannelSetup", "is_zero_fee_htlc", ch, "channel.rs"),
            ("CommitmentInfo2", "value_to_parties", tx, "tx/tx.rs"),
            ("SimpleValidator", "validate_expiry", sv, "policy/simple_validator.rs"),
            ("SimpleValidator", "validate_fee", sv, "policy/simple_validator.rs"),
            ("SimpleValidator", "validate_commitment_tx", sv, "policy/simple_validator.rs"),
            ("SimpleValidator", "validate_channel_value", sv, "policy/simple_validator.rs")]
    methods, texts = {}, {}
    for owner, n, src, _ in plan:
        # validate_channel_value is a method of the trait implementation, the others of the inherent one
        texts[(owner, n)] = method_source(src, owner, n, header="impl Validator for SimpleValidator"
                                          if n == "validate_channel_value" else None)
        methods[(owner, n)] = P(lex(texts[(owner, n)]), known).fn()
    # answers of LDK functions on the channel type: parameters of the translation
    feat = ("ref", ("mcall", ("var", "setup"), "features", []))
    opaque = [(("call", "htlc_timeout_tx_weight", [feat]), {"setup": "struct:ChannelSetup"}, "htlc_timeout_tx_weight_of_setup", "u64"),
              (("call", "htlc_success_tx_weight", [feat]), {"setup": "struct:ChannelSetup"}, "htlc_success_tx_weight_of_setup", "u64")]
    g = GenR(structs, enums, methods, consts, ext, opaque, "SimpleValidator", "SimplePolicy", known)
    out = []
    for en, vs in enums.items():
        out.append("(* enum %s (channel.rs; `==` is the derived PartialEq: equality of variants) *)\n"
                   "Inductive %s := %s.\n"
                   "Definition %s_eqb (a b : %s) : bool :=\n  match a, b with\n%s\n  | _, _ => false\n  end." % (
                       en, en, " | ".join("%s_%s" % (en, v) for v in vs), en, en,
                       "\n".join("  | %s_%s, %s_%s => true" % (en, v, en, v) for v in vs)))
    for n, _, where in struct_src:
        out.append("(* struct %s (%s): the fields whose types are inside the fragment; keys, scripts, hashes and other\n"
                   "   foreign values are opaque identities *)\nRecord %s := mk_%s {\n%s\n}." % (
                       n, where, n, n, ";\n".join("  %s_%s : %s" % (n, f, g.coq_type(t)) for f, t in structs[n])))
    for owner, n, _, where in plan:
        out.append("(* %s::%s (%s)\n%s *)\n%s" % (owner, n, where, "\n".join(
            "   " + l for l in texts[(owner, n)].strip().replace("(*", "( *").replace("*)", "* )").splitlines()),
            g.method2(owner, methods[(owner, n)])))
    text = ("(** GENERATED by tools/gen_rustfn.py - do not edit.  Statement-by-statement translation of\n"
            "      SimpleValidator::validate_expiry, ::validate_fee, ::validate_commitment_tx, ::validate_channel_value\n      (policy/simple_validator.rs),\n"
            "      ChannelSetup::is_anchors, ::is_zero_fee_htlc (channel.rs), CommitmentInfo2::value_to_parties (tx/tx.rs)\n"
            "    with the struct and enum declarations they read and the constants %s.\n"
            "    estimate_feerate_per_kw and expected_commitment_tx_weight are the translations of Gen/TxUtilGen.v.\n"
            "    The meaning of every construct is in Base/Rust.v; Result<(), ValidationError> is [result unit] (the error\n"
            "    keeps its policy tag), `policy_err!(self, tag, ..)` asks the policy filter [warn].  The answers of LDK's\n"
            "    htlc_timeout_tx_weight / htlc_success_tx_weight on `&setup.features()` are parameters. *)\n"
            "From Coq Require Import String.\nFrom VLS Require Export Base.Rust.\nFrom VLS Require Gen.TxUtilGen.\n\n" % ", ".join(
                "%s = %d" % (n, consts[n][1]) for n in sorted(consts))
            + "\n\n".join(out) + "\n")
    outp = os.path.join(ROOT, "coq", "theories", "Gen", "CommitmentPolicyGen.v")
    if not os.path.exists(outp) or open(outp).read() != text:
        open(outp, "w").write(text)
    return {"translated": ["%s::%s" % (o, n) for o, n, _, _ in plan], "structs": {n: [f for f, _ in structs[n]] for n in structs},
            "enums": enums, "constants": {n: consts[n][1] for n in consts},
            "parameters": [p for _, _, p, _ in opaque] + ["warn (the policy filter)"]}



def generate_enforcement_rules(repo):
    try:
        return _generate_enforcement_rules(repo)
    except (IndexError, KeyError, ValueError, TypeError, AttributeError, RecursionError, OSError) as e:
        raise GenError("the source could not be read (%s: %s)" % (type(e).__name__, e))


def _generate_enforcement_rules(repo):
    """Gen/EnforcementRulesGen.v: the commitment-number rules of the validator.  EnforcementState is the record of
    Gen/EnforcementGen.v (generate_enforcement must have run in the same pass); points, secrets, commitment contents,
    the channel setup and the chain state are opaque identities here."""
    core = os.path.join(repo, "vls-core", "src")
    rd = lambda *p: open(os.path.join(core, *p)).read()
    sv, va, ov, tx = rd("policy", "simple_validator.rs"), rd("policy", "validator.rs"), rd("policy", "onchain_validator.rs"), rd("tx", "tx.rs")
    check_error_helpers(core)
    uses = use_table(sv)
    for n, mod in {"EnforcementState": "super::validator", "PublicKey": "bitcoin::secp256k1", "Secp256k1": "bitcoin::secp256k1",
                   "SecretKey": "bitcoin::secp256k1", "CommitmentInfo2": "crate::tx::tx"}.items():
        if uses.get(n) != mod:
            raise GenError("simple_validator.rs: %s is expected from %s, found %s" % (n, mod, uses.get(n)))
    # `==` on a commitment content is the derived (structural) one: equal iff the same value
    m = re.search(r"((?:\n#\[[^\n]*\])*)\npub struct CommitmentInfo2\s*\{", tx)
    if not m or not re.search(r"#\[derive\([^)]*\bPartialEq\b[^)]*\)\]", m.group(1)) \
            or re.search(r"\bimpl\s+PartialEq\b[^{]*\bfor\s+CommitmentInfo2\b", tx):
        raise GenError("tx/tx.rs: CommitmentInfo2 no longer derives PartialEq")
    # the two provided methods of the trait are not overridden by the validators in use
    for n in ("get_current_holder_commitment_info", "set_next_holder_commit_num"):
        for src_, where in ((sv, "simple_validator.rs"), (ov, "onchain_validator.rs")):
            if re.search(r"\bfn\s+%s\b" % n, blank(src_)):
                raise GenError("%s overrides Validator::%s" % (where, n))
    known = {"EnforcementState": "struct:EnforcementState", "PublicKey": "path", "Secp256k1": "path"}
    estate_fields = struct_fields(va, "EnforcementState", skip_unknown=True)      # as in generate_enforcement
    structs = {"EnforcementState": estate_fields}
    methods, texts = {}, {}
    look = ["get_previous_counterparty_point", "get_previous_counterparty_commit_info"]
    for n in look:                                                                   # translated in Gen/EnforcementGen.v
        methods[("EnforcementState", n)] = P(lex(fn_source(va, "EnforcementState", n))).fn()
    plan = [("validate_counterparty_commitment_tx", sv, "impl Validator for SimpleValidator", "policy/simple_validator.rs"),
            ("validate_holder_commitment_tx", sv, "impl Validator for SimpleValidator", "policy/simple_validator.rs"),
            ("validate_counterparty_revocation", sv, "impl Validator for SimpleValidator", "policy/simple_validator.rs"),
            ("get_current_holder_commitment_info", va, "pub trait Validator", "policy/validator.rs"),
            ("set_next_holder_commit_num", va, "pub trait Validator", "policy/validator.rs")]
    look_mut = ["set_next_holder_commit_num"]
    for n in look_mut:                                                               # translated in Gen/EnforcementGen.v
        methods[("EnforcementState", n)] = P(lex(fn_source(va, "EnforcementState", n))).fn()
    for n, src, header, _ in plan:
        texts[n] = method_source(src, None, n, header=header)
        methods[("Validator", n)] = P(lex(texts[n]), known).fn()
    v = lambda x: ("var", x)
    call = ("mcall", v("self"), "validate_commitment_tx", [v("estate"), v("commit_num"), v("commitment_point"), v("setup"), v("cstate"), v("info2")])
    opaque = [(call, {"estate": "struct:EnforcementState", "commit_num": "u64", "commitment_point": "id", "setup": "id",
                      "cstate": "id", "info2": "id"}, "validate_commitment_tx_answer", "comp:result_unit")]
    g = GenR(structs, {}, methods, {}, {}, opaque, "Validator", None, known)
    g.coq_struct = {"EnforcementState": ("EnforcementGen.res", "EnforcementGen.res")}
    g.coq_fn = {("EnforcementState", n): "EnforcementGen.gen_" + n for n in look + look_mut}
    g.opaque_fns = {"PublicKey::from_secret_key": ("public_key_from_secret_key", ["id", "id"], "id"),
                    "Secp256k1::signing_only": ("secp256k1_signing_only", [], "id")}
    g.lazy_helpers = ("delta_offered_htlcs", "delta_received_htlcs")
    out = []
    for n, _, header, where in plan:
        out.append("(* %s (%s, `%s`)\n%s *)\n%s" % (n, where, header, "\n".join(
            "   " + l for l in texts[n].strip().replace("(*", "( *").replace("*)", "* )").splitlines()),
            g.method2("Validator", methods[("Validator", n)])))
    text = ("(** GENERATED by tools/gen_rustfn.py - do not edit.  Statement-by-statement translation of the commitment-number\n"
            "    rules of the validator:\n"
            "      validate_counterparty_commitment_tx, validate_holder_commitment_tx, validate_counterparty_revocation\n"
            "        (`impl Validator for SimpleValidator`, policy/simple_validator.rs) - whole bodies; the answer of the call\n"
            "        `self.validate_commitment_tx(estate, commit_num, commitment_point, setup, cstate, info2)` (translated in\n"
            "        Gen/CommitmentPolicyGen.v) is the parameter [validate_commitment_tx_answer]; the leading\n"
            "        `if let Some(current) = .. { log the HTLC deltas }` block, the debugging guard and the logging are dropped;\n"
            "      get_current_holder_commitment_info (provided method of `trait Validator`, policy/validator.rs; not overridden).\n"
            "    EnforcementState is the record of Gen/EnforcementGen.v, whose look-ups get_previous_counterparty_point / _commit_info\n"
            "    are called.  Points, secrets, commitment contents, the setup and the chain state are opaque identities; `==` on\n"
            "    them is equality of identities.  [public_key_from_secret_key] (PublicKey::from_secret_key) and\n"
            "    [secp256k1_signing_only] (the context) are uninterpreted parameters.  The meaning of every construct is in\n"
            "    Base/Rust.v. *)\n"
            "From Coq Require Import String.\nFrom VLS Require Export Base.Rust.\nFrom VLS Require Gen.EnforcementGen.\n\n"
            + "\n\n".join(out) + "\n")
    outp = os.path.join(ROOT, "coq", "theories", "Gen", "EnforcementRulesGen.v")
    if not os.path.exists(outp) or open(outp).read() != text:
        open(outp, "w").write(text)
    return {"translated": ["Validator(SimpleValidator)::" + n for n, _, _, _ in plan],
            "record": "EnforcementGen.res", "fields": [f for f, _ in estate_fields],
            "parameters": ["validate_commitment_tx_answer", "public_key_from_secret_key", "secp256k1_signing_only",
                           "warn (the policy filter)"]}



def policy_decls(core):
    """the declarations Gen/CommitmentPolicyGen.v is generated from (shared with the files that use its records)"""
    rd = lambda *p: open(os.path.join(core, *p)).read()
    sv, ch, tx, va = rd("policy", "simple_validator.rs"), rd("channel.rs"), rd("tx", "tx.rs"), rd("policy", "validator.rs")
    known = {"CommitmentType": "enum:CommitmentType", "HTLCInfo2": "struct:HTLCInfo2",
             "CommitmentInfo2": "struct:CommitmentInfo2", "ChannelSetup": "struct:ChannelSetup",
             "ChainState": "struct:ChainState", "PolicyDevFlags": "struct:PolicyDevFlags", "SimplePolicy": "struct:SimplePolicy"}
    struct_src = [("HTLCInfo2", tx, "tx/tx.rs"), ("CommitmentInfo2", tx, "tx/tx.rs"), ("ChannelSetup", ch, "channel.rs"),
                  ("ChainState", va, "policy/validator.rs"), ("PolicyDevFlags", sv, "policy/simple_validator.rs"),
                  ("SimplePolicy", sv, "policy/simple_validator.rs")]
    structs = {n: struct_fields(src, n, skip_unknown=True, known=known) for n, src, _ in struct_src}
    return known, structs, struct_src


# rust-bitcoin's transaction types, as far as the translated functions read them.  They are declared here by hand (the
# crate is not part of /repo); when the source of the locked version is in the cargo registry the declaration is compared
# with it.
BITCOIN_STRUCTS = {
    "Transaction": [("version", "ext:Version"), ("lock_time", "ext:LockTime"), ("input", "vec:TxIn"), ("output", "vec:TxOut")],
    "TxIn": [("sequence", "struct:Sequence")],
    "Sequence": [("0", "u32")],
    "TxOut": [("value", "ext:Amount"), ("script_pubkey", "id")],
}


def bitcoin_crosscheck(repo):
    lock = open(os.path.join(repo, "Cargo.lock")).read()
    m = re.search(r'name = "bitcoin"\nversion = "([^"]+)"', lock)
    if not m:
        raise GenError("Cargo.lock: no bitcoin crate")
    import glob
    hits = glob.glob(os.path.expanduser("~/.cargo/registry/src/*/bitcoin-%s/src/blockdata/transaction.rs" % m.group(1)))
    if not hits:
        return "bitcoin %s: source not in the cargo registry, hand declaration not compared" % m.group(1)
    src = re.sub(r"\s+", " ", open(hits[0]).read())
    for pat in ("pub version: Version,", "pub lock_time: absolute::LockTime,", "pub input: Vec<TxIn>,", "pub output: Vec<TxOut>,",
                "pub sequence: Sequence,", "pub value: Amount,", "pub script_pubkey: ScriptBuf,", "pub struct Sequence(pub u32);",
                "pub struct Version(pub i32);"):
        if pat not in src:
            raise GenError("bitcoin %s: `%s` not found in blockdata/transaction.rs: the hand declaration is stale" % (m.group(1), pat))
    return "bitcoin %s: hand declaration agrees with blockdata/transaction.rs" % m.group(1)


def array_consts(src, impl):
    """`const NAME: [u32; n] = [..];` inside `impl <impl> { .. }`"""
    bl = blank(src)
    out = {}
    for im in re.finditer(r"\nimpl %s\s*\{" % re.escape(impl), bl):
        lo = im.end() - 1
        hi = match_brace(bl, lo)
        for m in re.finditer(r"\n\s*const ([A-Z_][A-Z0-9_]*)\s*:\s*\[u32;\s*(\d+)\]\s*=\s*\[([^\]]*)\]\s*;", src[lo:hi]):
            vals = []
            for part in m.group(3).split(","):
                part = part.strip()
                if not part:
                    continue
                mm = re.match(r"^(0x[0-9a-fA-F_]+|[0-9][0-9_]*?)(?:_?u32)?$", part)
                if not mm:
                    raise GenError("constant %s: element %r is outside the fragment" % (m.group(1), part))
                vals.append(int(mm.group(1).replace("_", ""), 0))
            if len(vals) != int(m.group(2)) or any(v >= 2 ** 32 for v in vals):
                raise GenError("constant %s: %d elements declared, %d read" % (m.group(1), int(m.group(2)), len(vals)))
            out[m.group(1)] = vals
    return out


def generate_sweep(repo):
    try:
        return _generate_sweep(repo)
    except (IndexError, KeyError, ValueError, TypeError, AttributeError, RecursionError, OSError) as e:
        raise GenError("the source could not be read (%s: %s)" % (type(e).__name__, e))


def _generate_sweep(repo):
    """Gen/SweepGen.v: validate_sweep and the sweep validators built on it.  ChannelSetup / ChainState are the records of
    Gen/CommitmentPolicyGen.v (generate_commitment_policy must run in the same pass)."""
    core = os.path.join(repo, "vls-core", "src")
    rd = lambda *p: open(os.path.join(core, *p)).read()
    sv, wl = rd("policy", "simple_validator.rs"), rd("wallet.rs")
    check_error_helpers(core)
    err = re.sub(r"\s+", " ", rd("policy", "error.rs"))
    m = re.search(r'fn transaction_format_error\(msg: impl Into<String>\) -> ValidationError \{ ValidationError \{ tag: "([a-z-]+)"\.to_string\(\), '
                  r'kind: TransactionFormat\(msg\.into\(\)\),', err)
    if not m:
        raise GenError("policy/error.rs: transaction_format_error no longer builds ValidationError { tag: <literal>, kind: TransactionFormat(..) }")
    format_tag = m.group(1)
    if not re.search(r"macro_rules! transaction_format_err \{ \(\$obj:expr, \$tag:tt, \$\(\$arg:tt\)\*\) => \( return Err\(transaction_format_error\(format!\( "
                     r"\"\{\}: \{\}\", short_function!\(\), format!\(\$\(\$arg\)\*\) \)\)\) \) \}", err):
        raise GenError("policy/error.rs: transaction_format_err! is no longer `return Err(transaction_format_error(format!(..)))`")
    uses = use_table(sv)
    for n, mod in {"Height": "bitcoin::absolute", "Time": "bitcoin::absolute", "Version": "bitcoin::transaction",
                   "Transaction": "bitcoin", "ChannelSetup": "crate::channel", "ChainState": "super::validator",
                   "Wallet": "crate::wallet", "policy_error": "super::error"}.items():
        if uses.get(n) != mod:
            raise GenError("simple_validator.rs: %s is expected from %s, found %s" % (n, mod, uses.get(n)))
    wsrc = re.sub(r"\s+", " ", wl)
    if not re.search(r"fn can_spend\( &self, child_path: &DerivationPath, script_pubkey: &ScriptBuf, \) -> Result<bool, Status>;", wsrc) \
            or "fn allowlist_contains(&self, script_pubkey: &ScriptBuf, path: &DerivationPath) -> bool;" not in wsrc:
        raise GenError("wallet.rs: trait Wallet no longer declares can_spend(path, script) -> Result<bool, Status> and "
                       "allowlist_contains(script, path) -> bool")
    crosscheck = bitcoin_crosscheck(repo)
    known_cp, structs_cp, _ = policy_decls(core)
    known = dict(known_cp)
    known.update({"Transaction": "struct:Transaction", "TxIn": "struct:TxIn", "TxOut": "struct:TxOut", "Sequence": "struct:Sequence",
                  "Version": "path", "Time": "path", "Height": "path", "SimpleValidator": "path"})
    structs = {"ChannelSetup": structs_cp["ChannelSetup"], "ChainState": structs_cp["ChainState"]}
    structs.update(BITCOIN_STRUCTS)
    consts = {}
    tab = const_table(sv)
    if "MAX_CHAIN_LAG" not in tab:
        raise GenError("constant MAX_CHAIN_LAG not found in policy/simple_validator.rs")
    consts["MAX_CHAIN_LAG"] = tab["MAX_CHAIN_LAG"]
    arrays = array_consts(sv, "SimpleValidator")
    for n in ("ANCHOR_SEQS", "NON_ANCHOR_SEQS"):
        if n not in arrays:
            raise GenError("constant SimpleValidator::%s not found" % n)
        consts["SimpleValidator::" + n] = ("vec_u32", arrays[n])
    plan = [("validate_sweep", "impl SimpleValidator"), ("validate_delayed_sweep", "impl Validator for SimpleValidator"),
            ("validate_justice_sweep", "impl Validator for SimpleValidator")]
    methods, texts = {}, {}
    for n, header in plan:
        texts[n] = method_source(sv, None, n, header=header)
        methods[("SimpleValidator", n)] = P(lex(texts[n]), known).fn()
    g = GenR(structs, {}, methods, consts, {}, [], "SimpleValidator", None, known)
    g.coq_struct = {"ChannelSetup": ("CommitmentPolicyGen.ChannelSetup", "CommitmentPolicyGen.ChannelSetup"),
                    "ChainState": ("CommitmentPolicyGen.ChainState", "CommitmentPolicyGen.ChainState")}
    g.format_tag = format_tag
    g.opaque_methods = {("dyn:Wallet", "can_spend"): ("wallet_can_spend", ["id", "id"], "res_opaque:bool"),
                        ("dyn:Wallet", "allowlist_contains"): ("wallet_allowlist_contains", ["id", "id"], "bool"),
                        ("ext:LockTime", "is_satisfied_by"): ("lock_time_is_satisfied_by", ["id", "id"], "bool")}
    g.opaque_fns = {"Height::from_consensus": ("height_from_consensus", ["u32"], "opt_id"),
                    "Time::MIN": ("time_min", [], "id"), "Version::TWO": ("version_two", [], "ext:Version")}
    out = []
    for n in ("Sequence", "TxIn", "TxOut", "Transaction"):
        out.append("(* rust-bitcoin's %s, the fields read here (declared in tools/gen_rustfn.py; %s) *)\nRecord %s := mk_%s {\n%s\n}." % (
            n, crosscheck, n, n, ";\n".join("  %s_%s : %s" % (n, f, g.coq_type(t)) for f, t in BITCOIN_STRUCTS[n])))
    for n, header in plan:
        out.append("(* %s (policy/simple_validator.rs, `%s`)\n%s *)\n%s" % (n, header, "\n".join(
            "   " + l for l in texts[n].strip().replace("(*", "( *").replace("*)", "* )").splitlines()),
            g.method2("SimpleValidator", methods[("SimpleValidator", n)])))
    text = ("(** GENERATED by tools/gen_rustfn.py - do not edit.  Statement-by-statement translation of\n"
            "      SimpleValidator::validate_sweep, ::validate_delayed_sweep, ::validate_justice_sweep (policy/simple_validator.rs)\n"
            "    with MAX_CHAIN_LAG = %d, ANCHOR_SEQS = %s, NON_ANCHOR_SEQS = %s read from that file.  ChannelSetup and ChainState are\n"
            "    the records of Gen/CommitmentPolicyGen.v; rust-bitcoin's Transaction / TxIn / TxOut / Sequence are records of the\n"
            "    fields read.  Uninterpreted parameters: the wallet's can_spend (None = its error) and allowlist_contains, rust-bitcoin's\n"
            "    LockTime::is_satisfied_by, Height::from_consensus (None = its error), Time::MIN, Version::TWO, and the policy filter.\n"
            "    transaction_format_err!(..) = return Err(transaction_format_error(..)): the error carries the tag \"%s\"\n"
            "    whatever tag the macro is given (policy/error.rs).  The meaning of every construct is in Base/Rust.v. *)\n"
            "From Coq Require Import String.\nFrom VLS Require Export Base.Rust.\nFrom VLS Require Gen.CommitmentPolicyGen.\n\n" % (
                consts["MAX_CHAIN_LAG"][1], arrays["ANCHOR_SEQS"], arrays["NON_ANCHOR_SEQS"], format_tag)
            + "\n\n".join(out) + "\n")
    outp = os.path.join(ROOT, "coq", "theories", "Gen", "SweepGen.v")
    if not os.path.exists(outp) or open(outp).read() != text:
        open(outp, "w").write(text)
    return {"translated": ["SimpleValidator::" + n for n, _ in plan], "constants": {"MAX_CHAIN_LAG": consts["MAX_CHAIN_LAG"][1],
            "ANCHOR_SEQS": arrays["ANCHOR_SEQS"], "NON_ANCHOR_SEQS": arrays["NON_ANCHOR_SEQS"]}, "format_error_tag": format_tag,
            "rust_bitcoin": crosscheck,
            "parameters": ["wallet_can_spend", "wallet_allowlist_contains", "lock_time_is_satisfied_by", "height_from_consensus",
                           "time_min", "version_two", "warn (the policy filter)"]}



def generate_mutual_close(repo):
    try:
        return _generate_mutual_close(repo)
    except (IndexError, KeyError, ValueError, TypeError, AttributeError, RecursionError, OSError) as e:
        raise GenError("the source could not be read (%s: %s)" % (type(e).__name__, e))


def _generate_mutual_close(repo):
    """Gen/MutualCloseGen.v: validate_mutual_close_tx with outside_epsilon_range and CommitmentInfo2::htlcs_is_empty.
    ChannelSetup, CommitmentInfo2, SimplePolicy and validate_fee are those of Gen/CommitmentPolicyGen.v."""
    core = os.path.join(repo, "vls-core", "src")
    rd = lambda *p: open(os.path.join(core, *p)).read()
    sv, wl, va, tx, tu = rd("policy", "simple_validator.rs"), rd("wallet.rs"), rd("policy", "validator.rs"), rd("tx", "tx.rs"), \
        rd("util", "transaction_utils.rs")
    check_error_helpers(core)
    uses = use_table(sv)
    for n, mod in {"ChannelSetup": "crate::channel", "EnforcementState": "super::validator", "CommitmentInfo2": "crate::tx::tx",
                   "Wallet": "crate::wallet", "policy_error": "super::error", "ScriptBuf": "bitcoin",
                   "mutual_close_tx_weight": "crate::util::transaction_utils",
                   "ClosingTransaction": "lightning::ln::chan_utils"}.items():
        if uses.get(n) != mod:
            raise GenError("simple_validator.rs: %s is expected from %s, found %s" % (n, mod, uses.get(n)))
    wsrc = re.sub(r"\s+", " ", wl)
    if not re.search(r"fn can_spend\( &self, child_path: &DerivationPath, script_pubkey: &ScriptBuf, \) -> Result<bool, Status>;", wsrc) \
            or "fn allowlist_contains(&self, script_pubkey: &ScriptBuf, path: &DerivationPath) -> bool;" not in wsrc:
        raise GenError("wallet.rs: trait Wallet no longer declares can_spend(path, script) -> Result<bool, Status> and "
                       "allowlist_contains(script, path) -> bool")
    if not re.search(r"fn mutual_close_tx_weight\(unsigned_tx: &Transaction\) -> usize", tu):
        raise GenError("util/transaction_utils.rs: mutual_close_tx_weight(&Transaction) -> usize not found")
    known_cp, structs_cp, _ = policy_decls(core)
    known = dict(known_cp)
    known.update({"EnforcementState": "struct:EnforcementState", "ScriptBuf": "path", "ClosingTransaction": "path"})
    estate_fields = [(f, t) for f, t in struct_fields(va, "EnforcementState", skip_unknown=True, known=known)]
    structs = {n: structs_cp[n] for n in ("ChannelSetup", "CommitmentInfo2", "HTLCInfo2", "SimplePolicy")}
    structs["EnforcementState"] = estate_fields
    methods, texts = {}, {}
    plan = [("CommitmentInfo2", "htlcs_is_empty", tx, "impl CommitmentInfo2", "tx/tx.rs"),
            ("SimpleValidator", "outside_epsilon_range", sv, "impl SimpleValidator", "policy/simple_validator.rs"),
            ("SimpleValidator", "validate_mutual_close_tx", sv, "impl Validator for SimpleValidator", "policy/simple_validator.rs")]
    for owner, n, src, header, _ in plan:
        texts[(owner, n)] = method_source(src, None, n, header=header)
        methods[(owner, n)] = P(lex(texts[(owner, n)]), known).fn()
    # validate_fee: translated in Gen/CommitmentPolicyGen.v
    methods[("SimpleValidator", "validate_fee")] = P(lex(method_source(sv, "SimpleValidator", "validate_fee")), known).fn()
    weight_src = ("mutual_close_tx_weight(&ClosingTransaction::new(to_holder_value_sat, to_counterparty_value_sat, "
                  "holder_script.clone().unwrap_or_else(|| ScriptBuf::new()), "
                  "counterparty_script.clone().unwrap_or_else(|| ScriptBuf::new()), setup.funding_outpoint).trust().built_transaction())")
    pw = P(lex(weight_src) + [("eof", "")], known)
    weight_ast = pw.expr()
    opaque = [(weight_ast, {"to_holder_value_sat": "u64", "to_counterparty_value_sat": "u64", "holder_script": "opt_id",
                            "counterparty_script": "opt_id", "setup": "struct:ChannelSetup"}, "mutual_close_weight", "usize")]
    g = GenR(structs, {}, methods, {}, {}, opaque, "SimpleValidator", "SimplePolicy", known)
    cp = "CommitmentPolicyGen."
    g.coq_struct = {n: (cp + n, cp + n) for n in ("ChannelSetup", "CommitmentInfo2", "HTLCInfo2", "SimplePolicy")}
    g.coq_fn = {("SimpleValidator", "validate_fee"): cp + "gen_validate_fee"}
    g.opaque_methods = {("dyn:Wallet", "can_spend"): ("wallet_can_spend", ["id", "id"], "res_opaque:bool"),
                        ("dyn:Wallet", "allowlist_contains"): ("wallet_allowlist_contains", ["id", "id"], "bool")}
    out = ["(* struct EnforcementState (policy/validator.rs): the fields whose types are inside the fragment; the commitment\n"
           "   contents are the records of Gen/CommitmentPolicyGen.v here *)\nRecord EnforcementState := mk_EnforcementState {\n%s\n}." %
           ";\n".join("  EnforcementState_%s : %s" % (f, g.coq_type(t)) for f, t in estate_fields)]
    for owner, n, _, header, where in plan:
        out.append("(* %s::%s (%s, `%s`)\n%s *)\n%s" % (owner, n, where, header, "\n".join(
            "   " + l for l in texts[(owner, n)].strip().replace("(*", "( *").replace("*)", "* )").splitlines()),
            g.method2(owner, methods[(owner, n)])))
    text = ("(** GENERATED by tools/gen_rustfn.py - do not edit.  Statement-by-statement translation of\n"
            "      SimpleValidator::validate_mutual_close_tx (whole body), ::outside_epsilon_range (policy/simple_validator.rs),\n"
            "      CommitmentInfo2::htlcs_is_empty (tx/tx.rs).\n"
            "    ChannelSetup, CommitmentInfo2, SimplePolicy and validate_fee are those of Gen/CommitmentPolicyGen.v; scripts, paths and\n"
            "    the funding outpoint are opaque identities (`==` = equality of identities).  Parameters: the wallet's can_spend\n"
            "    (None = its error) and allowlist_contains, the policy filter, and [mutual_close_weight]: the answer of\n"
            "    mutual_close_tx_weight on LDK's ClosingTransaction built from the function's own arguments.  The meaning of every\n"
            "    construct is in Base/Rust.v. *)\n"
            "From Coq Require Import String.\nFrom VLS Require Export Base.Rust.\nFrom VLS Require Gen.CommitmentPolicyGen.\n\n"
            + "\n\n".join(out) + "\n")
    outp = os.path.join(ROOT, "coq", "theories", "Gen", "MutualCloseGen.v")
    if not os.path.exists(outp) or open(outp).read() != text:
        open(outp, "w").write(text)
    return {"translated": ["%s::%s" % (o, n) for o, n, _, _, _ in plan], "estate_fields": [f for f, _ in estate_fields],
            "parameters": ["mutual_close_weight", "wallet_can_spend", "wallet_allowlist_contains", "warn (the policy filter)"]}



def struct_const(src, name, struct, fields, mk):
    """`const NAME: S = S { f: <bool or integer literal>, .. };` -> Gallina text of the record value"""
    m = re.search(r"\nconst %s\s*:\s*%s\s*=\s*%s\s*\{([^{}]*)\}\s*;" % (re.escape(name), re.escape(struct), re.escape(struct)), src)
    if not m:
        raise GenError("constant %s: `const %s: %s = %s { .. };` not found" % (name, name, struct, struct))
    given = {}
    for part in m.group(1).split(","):
        part = part.strip()
        if not part:
            continue
        fm = re.match(r"^([a-z_][a-z0-9_]*)\s*:\s*(true|false|[0-9][0-9_]*)$", part)
        if not fm:
            raise GenError("constant %s: field initialiser %r is outside the fragment" % (name, part))
        given[fm.group(1)] = fm.group(2).replace("_", "")
    if sorted(given) != sorted(f for f, _ in fields):
        raise GenError("constant %s: fields %s, the struct has %s" % (name, sorted(given), sorted(f for f, _ in fields)))
    return "(%s %s)" % (mk, " ".join(given[f] for f, _ in fields))


def generate_onchain(repo):
    try:
        return _generate_onchain(repo)
    except (IndexError, KeyError, ValueError, TypeError, AttributeError, RecursionError, OSError) as e:
        raise GenError("the source could not be read (%s: %s)" % (type(e).__name__, e))


def _generate_onchain(repo):
    """Gen/OnchainGen.v: validate_beneficial_value, and the fee tail of validate_onchain_tx (the statements from
    `let mut sum_inputs: u64 = 0;` to the end of the function) as a function of the variables it reads."""
    core = os.path.join(repo, "vls-core", "src")
    rd = lambda *p: open(os.path.join(core, *p)).read()
    sv, tu = rd("policy", "simple_validator.rs"), rd("util", "transaction_utils.rs")
    check_error_helpers(core)
    uses = use_table(sv)
    for n, mod in {"estimate_feerate_per_kw": "crate::util::transaction_utils", "policy_error": "super::error"}.items():
        if uses.get(n) != mod:
            raise GenError("simple_validator.rs: %s is expected from %s, found %s" % (n, mod, uses.get(n)))
    known_cp, structs_cp, _ = policy_decls(core)
    known = dict(known_cp)
    structs = {n: structs_cp[n] for n in ("SimplePolicy", "PolicyDevFlags")}
    cp = "CommitmentPolicyGen."
    consts = {"DEFAULT_DEV_FLAGS": ("struct:PolicyDevFlags",
                                    struct_const(sv, "DEFAULT_DEV_FLAGS", "PolicyDevFlags", structs["PolicyDevFlags"], cp + "mk_PolicyDevFlags"))}
    ext = {"estimate_feerate_per_kw": ("TxUtilGen.gen_estimate_feerate_per_kw", P(lex(free_fn_source(tu, "estimate_feerate_per_kw"))).fn())}
    texts, methods = {}, {}
    texts["validate_beneficial_value"] = method_source(sv, "SimpleValidator", "validate_beneficial_value")
    methods[("SimpleValidator", "validate_beneficial_value")] = P(lex(texts["validate_beneficial_value"]), known).fn()
    # the fee tail of validate_onchain_tx: the text from the marker statement to the end of the body, read as the body of
    # a function of the variables it uses; their types are taken from the signature and from the declaration in the body
    whole = method_source(sv, None, "validate_onchain_tx", header="impl Validator for SimpleValidator")
    # the tail starts at the accumulator of the loop over values_sat: `let mut <acc>: u64 = 0; for <x> in values_sat {`
    mk = re.findall(r"let mut [a-z_][a-z0-9_]*: u64 = 0;(?=\s*for [a-z_][a-z0-9_]* in values_sat \{)", whole)
    if len(mk) != 1 or whole.count(mk[0]) != 1:
        raise GenError("validate_onchain_tx: `let mut <acc>: u64 = 0;` in front of `for <x> in values_sat {` is expected exactly once")
    marker_stmt = mk[0]
    head_, tail_ = whole.split(marker_stmt)
    sig = re.sub(r"\s+", " ", head_[:head_.index("{")])
    for decl in ("values_sat: &[u64],", "weight_lower_bound: usize,", ") -> Result<u64, ValidationError>"):
        if decl not in sig:
            raise GenError("validate_onchain_tx: `%s` not found in the signature" % decl)
    if len(re.findall(r"\blet mut beneficial_sum = 0u64;", head_)) != 1:
        raise GenError("validate_onchain_tx: `let mut beneficial_sum = 0u64;` is expected exactly once in front of the fee tail")
    if "let mut debug_on_return = scoped_debug_return!(" not in head_:
        raise GenError("validate_onchain_tx: the debugging guard is expected in front of the fee tail")
    for v in ("values_sat", "weight_lower_bound"):
        if re.search(r"\blet\s+(?:mut\s+)?%s\b" % v, head_):
            raise GenError("validate_onchain_tx: %s is rebound in front of the fee tail" % v)
    tail_fn = ("fn validate_onchain_tx_fee_tail(&self, beneficial_sum: u64, values_sat: &[u64], weight_lower_bound: usize) "
               "-> Result<u64, ValidationError> {\n        let mut debug_on_return = scoped_debug_return!(beneficial_sum);\n        "
               + marker_stmt + tail_)
    texts["validate_onchain_tx_fee_tail"] = marker_stmt + tail_.rstrip()[:-1].rstrip()
    methods[("SimpleValidator", "validate_onchain_tx_fee_tail")] = P(lex(tail_fn), known).fn()
    g = GenR(structs, {}, methods, consts, ext, [], "SimpleValidator", "SimplePolicy", known)
    g.coq_struct = {n: (cp + n, cp + n) for n in ("SimplePolicy", "PolicyDevFlags")}
    out = []
    out.append("(* validate_beneficial_value (policy/simple_validator.rs, `impl SimpleValidator`)\n%s *)\n%s" % ("\n".join(
        "   " + l for l in texts["validate_beneficial_value"].strip().replace("(*", "( *").replace("*)", "* )").splitlines()),
        g.method2("SimpleValidator", methods[("SimpleValidator", "validate_beneficial_value")])))
    out.append("(* the fee tail of validate_onchain_tx (policy/simple_validator.rs, `impl Validator for SimpleValidator`): the\n"
               "   statements below, verbatim, as a function of beneficial_sum (`let mut beneficial_sum = 0u64;` of the body),\n"
               "   values_sat and weight_lower_bound (parameters of validate_onchain_tx)\n%s *)\n%s" % ("\n".join(
        "   " + l for l in texts["validate_onchain_tx_fee_tail"].replace("(*", "( *").replace("*)", "* )").splitlines()),
        g.method2("SimpleValidator", methods[("SimpleValidator", "validate_onchain_tx_fee_tail")])))
    text = ("(** GENERATED by tools/gen_rustfn.py - do not edit.  Statement-by-statement translation of\n"
            "      SimpleValidator::validate_beneficial_value (whole body) and the fee tail of ::validate_onchain_tx - the statements\n"
            "      from the accumulator of the loop over values_sat (`let mut sum_inputs: u64 = 0;`) to the end of the function (the\n"
            "      checked sum of the input values, the call of\n"
            "      validate_beneficial_value, Ok(non_beneficial)); the per-output loop in front of it is outside the fragment.\n"
            "    DEFAULT_DEV_FLAGS is read from the file; SimplePolicy / PolicyDevFlags are the records of Gen/CommitmentPolicyGen.v,\n"
            "    estimate_feerate_per_kw is the translation of Gen/TxUtilGen.v.  The meaning of every construct is in Base/Rust.v. *)\n"
            "From Coq Require Import String.\nFrom VLS Require Export Base.Rust.\nFrom VLS Require Gen.TxUtilGen Gen.CommitmentPolicyGen.\n\n"
            + "\n\n".join(out) + "\n")
    outp = os.path.join(ROOT, "coq", "theories", "Gen", "OnchainGen.v")
    if not os.path.exists(outp) or open(outp).read() != text:
        open(outp, "w").write(text)
    return {"translated": ["SimpleValidator::validate_beneficial_value", "SimpleValidator::validate_onchain_tx (fee tail)"],
            "constants": {"DEFAULT_DEV_FLAGS": consts["DEFAULT_DEV_FLAGS"][1]}, "parameters": ["warn (the policy filter)"]}



def generate_node_payments(repo):
    try:
        return _generate_node_payments(repo)
    except (IndexError, KeyError, ValueError, TypeError, AttributeError, RecursionError, OSError) as e:
        raise GenError("the source could not be read (%s: %s)" % (type(e).__name__, e))


def _generate_node_payments(repo):
    """Gen/NodePaymentsGen.v: NodeState::validate_payments with the RoutedPayment methods it uses and the validator's
    validate_payment_cltv / enforce_balance; validate_payment_balance is the translation of Gen/PaymentsGen.v."""
    core = os.path.join(repo, "vls-core", "src")
    rd = lambda *p: open(os.path.join(core, *p)).read()
    sv, nd, va, lib_ = rd("policy", "simple_validator.rs"), rd("node.rs"), rd("policy", "validator.rs"), rd("lib.rs")
    check_error_helpers(core)
    # the collection aliases of the prelude
    flat = re.sub(r"\s+", " ", lib_)
    for decl in ("pub use hashbrown::HashMap as Map;", "pub use hashbrown::HashSet as UnorderedSet;",
                 "pub use alloc::collections::BTreeMap as OrderedMap;"):
        if decl not in flat:
            raise GenError("lib.rs: `%s` not found (what Map / UnorderedSet / OrderedMap are)" % decl)
    if not re.search(r"\npub struct BalanceDelta\(pub u64, pub u64\);", va):
        raise GenError("policy/validator.rs: `pub struct BalanceDelta(pub u64, pub u64);` not found")
    pay = generate_payments(repo)                     # Gen/PaymentsGen.v and the order of its policy parameters
    known_cp, structs_cp, _ = policy_decls(core)
    known = dict(known_cp)
    known.update({"RoutedPayment": "struct:RoutedPayment", "PaymentState": "struct:PaymentState", "NodeState": "struct:NodeState",
                  "BalanceDelta": "struct:BalanceDelta", "UnorderedSet": "path", "Vec": "path", "OrderedMap": "path",
                  "PaymentPreimage": "path", "PaymentHash": "path", "Sha256Hash": "path", "Self": "path"})
    own = ["RoutedPayment", "PaymentState", "NodeState"]
    structs = {n: struct_fields(nd, n, skip_unknown=True, known=known) for n in own}
    structs["BalanceDelta"] = [("0", "u64"), ("1", "u64")]
    for n_ in ("SimplePolicy", "PolicyDevFlags", "CommitmentInfo2", "HTLCInfo2"):
        structs[n_] = structs_cp[n_]
    plan = [("RoutedPayment", "new", nd, "impl RoutedPayment", "node.rs"),
            ("RoutedPayment", "is_fulfilled", nd, "impl RoutedPayment", "node.rs"),
            ("RoutedPayment", "is_no_incoming", nd, "impl RoutedPayment", "node.rs"),
            ("RoutedPayment", "is_no_outgoing", nd, "impl RoutedPayment", "node.rs"),
            ("RoutedPayment", "updated_incoming_outgoing", nd, "impl RoutedPayment", "node.rs"),
            ("RoutedPayment", "incoming_outgoing", nd, "impl RoutedPayment", "node.rs"),
            ("RoutedPayment", "get_cltv_bounds", nd, "impl RoutedPayment", "node.rs"),
            ("RoutedPayment", "apply", nd, "impl RoutedPayment", "node.rs"),
            ("SimpleValidator", "validate_payment_cltv", sv, "impl Validator for SimpleValidator", "policy/simple_validator.rs"),
            ("SimpleValidator", "enforce_balance", sv, "impl Validator for SimpleValidator", "policy/simple_validator.rs"),
            ("NodeState", "validate_payments", nd, "impl NodeState", "node.rs"),
            ("NodeState", "apply_payments", nd, "impl NodeState", "node.rs"),
            ("NodeState", "htlc_fulfilled", nd, "impl NodeState", "node.rs"),
            ("NodeState", "is_forwarded_payment_prunable", nd, "impl NodeState", "node.rs"),
            ("NodeState", "prune_forwarded_payments", nd, "impl NodeState", "node.rs")]
    methods, texts = {}, {}
    for owner, n, src, header, _ in plan:
        texts[(owner, n)] = method_source(src, None, n, header=header)
        methods[(owner, n)] = P(lex(texts[(owner, n)]), known).fn()
    bal = P(lex(method_source(sv, None, "validate_payment_balance", header="impl Validator for SimpleValidator"))).fn()
    g = GenR(structs, {}, methods, {}, {}, [], "SimpleValidator", "SimplePolicy", known)
    cp = "CommitmentPolicyGen."
    g.coq_struct = {n: (cp + n, cp + n) for n in ("SimplePolicy", "PolicyDevFlags", "CommitmentInfo2", "HTLCInfo2")}
    g.new_fns = {"UnorderedSet::new": ("[]", "set"), "Vec::new": ("[]", "vec_id"), "OrderedMap::new": ("[]", "empty")}
    g.state_methods = {("NodeState", "apply_payments"), ("NodeState", "htlc_fulfilled"), ("NodeState", "prune_forwarded_payments")}
    ex = lambda txt: P(lex(txt) + [("eof", "")], known).expr()
    # values the node obtains from other crates: parameters of the translation
    g.opaque = [(ex("PaymentPreimage([0; 32])"), {}, "dummy_preimage", "id"),
                (ex("PaymentHash(Sha256Hash::hash(&preimage.0).to_byte_array())"), {"preimage": "id"}, "payment_hash_of_preimage", "id")]
    pol_args = " ".join("(%sSimplePolicy_%s policy)" % (cp, f) for f in pay["policy_fields"])
    g.validator_calls = {
        "validate_payment_balance": ("PaymentsGen.gen_validate_payment_balance prof warn " + pol_args, bal, "bool"),
        "validate_payment_cltv": ("gen_validate_payment_cltv prof warn policy", methods[("SimpleValidator", "validate_payment_cltv")], "tagged"),
        "enforce_balance": ("gen_enforce_balance prof warn policy", methods[("SimpleValidator", "enforce_balance")], "plain")}
    out = []
    for n in ("BalanceDelta", "PaymentState", "RoutedPayment", "NodeState"):
        where = "policy/validator.rs: a tuple struct" if n == "BalanceDelta" else "node.rs"
        out.append("(* struct %s (%s): the fields whose types are inside the fragment *)\nRecord %s := mk_%s {\n%s\n}." % (
            n, where, n, n, ";\n".join("  %s_%s : %s" % (n, f, g.coq_type(t)) for f, t in structs[n])))
    for owner, n, _, header, where in plan:
        out.append("(* %s::%s (%s, `%s`)\n%s *)\n%s" % (owner, n, where, header, "\n".join(
            "   " + l for l in texts[(owner, n)].strip().replace("(*", "( *").replace("*)", "* )").splitlines()),
            g.method2(owner, methods[(owner, n)])))
    text = ("(** GENERATED by tools/gen_rustfn.py - do not edit.  Statement-by-statement translation of\n"
            "      NodeState::validate_payments (whole body), RoutedPayment::is_no_incoming, ::is_no_outgoing,\n"
            "      ::updated_incoming_outgoing, ::incoming_outgoing, ::get_cltv_bounds (node.rs),\n"
            "      SimpleValidator::validate_payment_cltv, ::enforce_balance (policy/simple_validator.rs).\n"
            "    Maps and sets are association lists / lists (Base/Rust.v); the hash set of payment hashes is visited in the order\n"
            "    [iter_order], an uninterpreted parameter.  The `validator` object is the SimpleValidator: its\n"
            "    validate_payment_balance is the translation of Gen/PaymentsGen.v (Result as bool), its policy the record of\n"
            "    Gen/CommitmentPolicyGen.v.  Payment hashes and channel ids are opaque identities. *)\n"
            "From Coq Require Import String.\nFrom VLS Require Export Base.Rust.\nFrom VLS Require Gen.PaymentsGen Gen.CommitmentPolicyGen.\n\n"
            + "\n\n".join(out) + "\n")
    outp = os.path.join(ROOT, "coq", "theories", "Gen", "NodePaymentsGen.v")
    if not os.path.exists(outp) or open(outp).read() != text:
        open(outp, "w").write(text)
    return {"translated": ["%s::%s" % (o, n) for o, n, _, _, _ in plan], "payments": pay,
            "parameters": ["iter_order (the order in which the hash set is visited)", "warn (the policy filter)"]}




class GenKV:
    """The fragment of vls-persist/src/kvv/memory.rs (MemoryKVVStore: put_with_version, get_version, put, delete).
    The store is the record of its map (`data: Mutex<BTreeMap<String, (u64, Vec<u8>)>>`; the mutex is never poisoned: no
    translated function can panic while it holds the guard - an operation that can panic after `lock()` is refused).
    `&self` methods are state-passing: `trap (result MemoryKVVStore)` - Ok(()) carries the store the call leaves,
    Err(Error::VersionMismatch) is `ErrR "VersionMismatch"` and is only accepted while the function has written nothing
    (the store is then the one it was called on).  Statements are read in continuation style: what follows an `if` /
    `if let` is read in each branch, a `return` drops it."""
    LOGS = ("error", "warn", "info", "debug", "trace")

    def __init__(self, owner, methods, local=None):
        """local: (owner, methods) of the store behind the field `local` (CloudKVVStore<MemoryKVVStore>), or None"""
        self.owner, self.methods, self.local = owner, methods, local
        self.tmp = 0

    def fresh(self):
        self.tmp += 1
        return "t%d" % self.tmp

    @staticmethod
    def coq_type(t):
        return {"u64": "N", "str": "(list N)", "bytes": "(list N)", "opt_u64": "(option N)", "bool": "bool",
                "entry": "(N * list N)", "opt:entry": "(option (N * list N))", "bmap": "(bmap (N * list N))",
                "kvv": "(list N * (N * list N))", "vec:kvv": "(list (list N * (N * list N)))"}[t]

    def binder(self, x, env):
        if not isinstance(x, str) or x in env or x in ("prof", "self", "Val", "Trap", "OkR", "ErrR", "fst", "snd", "d_", "kv_") \
                or re.match(r"^t\d+$", x) or x.startswith(("gen_", "bmap_", "bytes_", "mk_", "add_", "option_")):
            raise GenError("binder %r is outside the fragment" % (x,))
        return x

    def emit(self, binds, k):
        if binds and self.lockvar and not self.local:
            raise GenError("fn %s: an operation that can panic while the guard of the map is alive is outside the fragment" % self.cur["name"])
        for x, code, kind in reversed(binds):
            k = "%s %s %s ;;\n%s" % (x, "<-?" if kind == "tryR" else "<-", code, k)
        return k

    def expr(self, e, env):
        """-> (binds, text, type)"""
        k = e[0]
        if k == "var" and e[1] in env:
            return [], e[1], env[e[1]]
        if k == "lit" and e[2] in (None, "u64"):
            return [], str(e[1]), "u64"
        if k == "deref" or k == "ref":
            return self.expr(e[1], env)                  # a shared borrow is read like the value it borrows
        if k == "bin" and e[1] in ("<", "<=", "==", "!=", "+"):
            b1, c1, t1 = self.expr(e[2], env)
            b2, c2, t2 = self.expr(e[3], env)
            if t1 != t2:
                raise GenError("%s on %s and %s" % (e[1], t1, t2))
            if t1 == "u64" and e[1] == "+":
                x = self.fresh()
                return b1 + b2 + [(x, "add_p prof %s %s" % (c1, c2), "plain")], x, "u64"
            if t1 == "u64" and e[1] != "+":
                op = {"<": "(%s <? %s)", "<=": "(%s <=? %s)", "==": "(%s =? %s)", "!=": "(negb (%s =? %s))"}[e[1]]
                return b1 + b2, op % (c1, c2), "bool"
            if t1 == "bytes" and e[1] in ("==", "!="):
                return b1 + b2, ("(bytes_eqb %s %s)" if e[1] == "==" else "(negb (bytes_eqb %s %s))") % (c1, c2), "bool"
            raise GenError("%s on %s is outside the fragment" % (e[1], t1))
        if k == "field" and e[2] in ("0", "1"):
            b, c, t = self.expr(e[1], env)
            if t != "entry":
                raise GenError(".%s of a %s" % (e[2], t))
            return b, "(%s %s)" % ("fst" if e[2] == "0" else "snd", c), "u64" if e[2] == "0" else "bytes"
        if k == "try" and self.local and e[1][0] == "mcall" and e[1][1] == ("field", ("var", "self"), "local") \
                and e[1][2] in self.local[1] and self.local[1][e[1][2]]["ret"] in ("kvres:opt_u64", "kvres:opt_entry"):
            # a reader of the local store; the guard of the commit log may be alive (another mutex)
            m2 = self.local[1][e[1][2]]
            if len(e[1][3]) != len(m2["params"]):
                raise GenError("call of local.%s with %d arguments" % (e[1][2], len(e[1][3])))
            bs, cs = [], []
            for a, (pn, pt) in zip(e[1][3], m2["params"]):
                b, c, t = self.expr(a, env)
                if t != pt:
                    raise GenError("argument %s of local.%s: %s given, %s expected" % (pn, e[1][2], t, pt))
                bs += b
                cs.append(c)
            x = self.fresh()
            return bs + [(x, "gen_%s_%s prof (%s_local self) %s" % (self.local[0], e[1][2], self.owner, " ".join(cs)), "tryR")], x, \
                "opt_u64" if m2["ret"] == "kvres:opt_u64" else "opt:entry"
        if k == "tuple" and len(e[1]) == 2:
            b1, c1, t1 = self.expr(e[1][0], env)
            b2, c2, t2 = self.expr(e[1][1], env)
            if (t1, t2) != ("u64", "bytes"):
                raise GenError("a tuple of %s and %s is outside the fragment" % (t1, t2))
            return b1 + b2, "(%s, %s)" % (c1, c2), "entry"
        if k == "call" and e[1] == "Vec::new" and not e[2]:
            return [], "[]", "bytes"
        if k == "try" and e[1][0] == "mcall" and e[1][1] == ("var", "self") and e[1][2] in self.methods \
                and self.methods[e[1][2]]["ret"] == "kvres:opt_u64":
            if self.lockvar:
                raise GenError("a call of self.%s while the guard of the map is alive (a deadlock) is outside the fragment" % e[1][2])
            bs, cs = self.args(e[1][2], e[1][3], env)
            x = self.fresh()
            return bs + [(x, "gen_%s_%s prof self %s" % (self.owner, e[1][2], " ".join(cs)), "tryR")], x, "opt_u64"
        if k == "mcall":
            recv, name, args = e[1], e[2], e[3]
            if name == "cloned" and not args:
                b, c, t = self.expr(recv, env)
                if t != "opt:entry":
                    raise GenError("cloned on a %s" % t)
                return b, c, t
            if name == "expect" and len(args) == 1 and args[0][0] == "str" and self.local:
                b, c, t = self.expr(recv, env)               # a panic when the option is None
                if t != "opt:entry":
                    raise GenError("expect on a %s" % t)
                x = self.fresh()
                return b + [(x, "expect_some %s" % c, "plain")], x, "entry"
            if name == "to_string" and not args:
                b, c, t = self.expr(recv, env)
                if t != "str":
                    raise GenError("to_string on a %s" % t)
                return b, c, "str"
            if name == "get" and len(args) == 1:
                b1, c1, t1 = self.expr(recv, env)
                b2, c2, t2 = self.expr(args[0], env)
                if (t1, t2) != ("bmap", "str"):
                    raise GenError("get on a %s with a %s" % (t1, t2))
                return b1 + b2, "(bmap_get %s %s)" % (c1, c2), "opt:entry"
            if name == "or_else" and len(args) == 1 and args[0][0] == "closure" and not args[0][1]:
                b1, c1, t1 = self.expr(recv, env)           # a.or_else(|| b) with b a look-up: no effect, cannot panic
                b2, c2, t2 = self.expr(args[0][2], env)
                if t1 != "opt:entry" or t2 != "opt:entry" or b1 or b2:
                    raise GenError("or_else on a %s with a %s" % (t1, t2))
                return [], "(opt_or_else %s %s)" % (c1, c2), "opt:entry"
            if name == "map" and len(args) == 1 and args[0][0] == "closure" and args[0][1] == [("tuple_pat", ["v", "_"])] \
                    and args[0][2] == ("deref", ("var", "v")):
                b, c, t = self.expr(recv, env)            # .map(|(v, _)| *v): the version of an entry
                if t != "opt:entry":
                    raise GenError("map(|(v, _)| *v) on a %s" % t)
                return b, "(option_map fst %s)" % c, "opt_u64"
            if name == "unwrap_or" and len(args) == 1 and recv[0] == "mcall" and recv[2] == "map" and len(recv[3]) == 1 \
                    and recv[3][0][0] == "closure" and len(recv[3][0][1]) == 1 and isinstance(recv[3][0][1][0], str):
                b, c, t = self.expr(recv[1], env)          # opt.map(|v| <u64 in v>).unwrap_or(d)
                bd, cd, td = self.expr(args[0], env)
                if t != "opt_u64" or td != "u64" or bd:
                    raise GenError("map(..).unwrap_or(..) on a %s with a %s" % (t, td))
                v = self.binder(recv[3][0][1][0], env)
                env_c = dict(env)
                env_c[v] = "u64"
                bb, cb, tb = self.expr(recv[3][0][2], env_c)
                if tb != "u64":
                    raise GenError("map closure of type %s" % tb)
                lock, self.lockvar = self.lockvar, None
                inner = self.emit(bb, "Val %s" % cb)
                self.lockvar = lock
                x = self.fresh()
                return b + [(x, "(match %s with\n| Some %s => (%s)\n| None => Val %s\nend)" % (c, v, inner, cd), "plain")], x, "u64"
        raise GenError("expression %r is outside the fragment" % (e,))

    def args(self, name, args, env):
        m = self.methods[name]
        if len(args) != len(m["params"]):
            raise GenError("call of %s with %d arguments" % (name, len(args)))
        bs, cs = [], []
        for a, (pn, pt) in zip(args, m["params"]):
            b, c, t = self.expr(a, env)
            if t != pt:
                raise GenError("argument %s of %s: %s given, %s expected" % (pn, name, t, pt))
            bs += b
            cs.append(c)
        return bs, cs

    def store(self):
        if self.local:
            # the commit log after the call: the map named by as_mut() inside the option, else the option as it was
            log = "(Some %s)" % self.logvar if self.logvar else self.lockvar
            return "(mk_%s (%s_local self) %s false)" % (self.owner, self.owner, log) if log else "self"
        return "(mk_%s %s)" % (self.owner, self.lockvar) if self.lockvar else "self"

    def ret(self, e, env):
        m = self.cur
        if self.inloop and e != ("call", "Err", [("var", "Error::VersionMismatch")]):
            raise GenError("fn %s: leaving the function from inside a loop other than with the error is outside the fragment" % m["name"])
        if m["ret"] == "kvres:unit":
            if e == ("call", "Ok", [("unit",)]):
                return "Val (OkR %s)" % self.store()
            if e == ("call", "Err", [("var", "Error::VersionMismatch")]):
                if self.dirty:
                    raise GenError("fn %s: an error after a write is outside the fragment" % m["name"])
                return 'Val (ErrR "VersionMismatch"%string)'
            if e[0] == "mcall" and e[1] == ("var", "self") and e[2] in self.methods and self.methods[e[2]]["ret"] == "kvres:unit":
                if self.lockvar:
                    raise GenError("a call of self.%s while the guard of the map is alive (a deadlock) is outside the fragment" % e[2])
                bs, cs = self.args(e[2], e[3], env)
                return self.emit(bs, "gen_%s_%s prof self %s" % (self.owner, e[2], " ".join(cs)))
        if m["ret"] == "kvres:opt_entry" and e[0] == "call" and e[1] == "Ok" and len(e[2]) == 1:
            b, c, t = self.expr(e[2][0], env)
            if t != "opt:entry":
                raise GenError("fn %s returns Ok of a %s" % (m["name"], t))
            return self.emit(b, "Val (OkR %s)" % c)
        if m["ret"] == "kvres:opt_u64" and e[0] == "call" and e[1] == "Ok" and len(e[2]) == 1:
            b, c, t = self.expr(e[2][0], env)
            if t != "opt_u64":
                raise GenError("fn %s returns Ok of a %s" % (m["name"], t))
            return self.emit(b, "Val (OkR %s)" % c)
        raise GenError("fn %s: the value %r is outside the fragment" % (m["name"], e))

    def stmts(self, ss, tail, env):
        if not ss:
            if self.inloop:
                return "Val (OkR %s)" % self.inloop         # the end of the loop body: on to the next element
            if tail is None:
                raise GenError("fn %s: a block without a value" % self.cur["name"])
            return self.ret(tail, env)
        s, rest = ss[0], ss[1:]
        if s == ("expr", ("var", "continue")) and self.inloop:
            return "Val (OkR %s)" % self.inloop
        if s[0] == "let" and isinstance(s[1], str) and s[2] == "bmap" and s[3] == ("call", "BTreeMap::new", []) and not self.inloop:
            x = self.binder(s[1], env)                      # a local map
            env2 = dict(env)
            env2[x] = "bmap"
            self.localmaps.add(x)
            return "let %s := [] in\n%s" % (x, self.stmts(rest, tail, env2))
        if s[0] == "let" and self.pair_pat(s[1]) and s[2] is None and s[3][0] == "mcall" and s[3][2] == "into_inner" and not s[3][3]:
            b, c, t = self.expr(s[3][1], env)               # let (key, (version, value)) = kvv.into_inner();
            if t != "kvv" or b:
                raise GenError("into_inner on a %s" % t)
            a1, (a2, a3) = self.pair_pat(s[1])
            env2 = dict(env)
            env2[self.binder(a1, env2)] = "str"
            env2[self.binder(a2, env2)] = "u64"
            env2[self.binder(a3, env2)] = "bytes"
            return "let '(%s, (%s, %s)) := %s in\n%s" % (a1, a2, a3, c, self.stmts(rest, tail, env2))
        if s[0] == "for_iter" and isinstance(s[1], str) and s[2][0] == "mcall" and s[2][2] == "into_iter" and not s[2][3] and not self.inloop:
            b, c, t = self.expr(s[2][1], env)               # for kvv in kvvs.into_iter() { .. } updating ONE local map
            if t != "vec:kvv" or b:
                raise GenError("a loop over a %s is outside the fragment" % t)
            upd = self.loop_updates(s[3])
            if len(upd) != 1 or upd[0] not in self.localmaps:
                raise GenError("a loop that updates %s is outside the fragment" % (upd,))
            x = self.binder(s[1], env)
            env2 = dict(env)
            env2[x] = "kvv"
            self.inloop = upd[0]
            save = (self.lockvar, self.dirty)
            body = self.stmts(s[3], None, env2)
            self.lockvar, self.dirty = save
            self.inloop = None
            return "%s <-? fold_r (fun %s %s =>\n%s) %s %s ;;\n%s" % (upd[0], upd[0], x, body, c, upd[0], self.stmts(rest, tail, env))
        if s[0] == "for_iter" and isinstance(s[1], tuple) and s[1][0] == "tuple_pat" and len(s[1][1]) == 2 \
                and all(isinstance(a, str) for a in s[1][1]) and s[2][0] == "mcall" and s[2][2] == "into_iter" and not s[2][3] \
                and s[2][1][0] == "var" and s[2][1][1] in self.localmaps and s[2][1][1] in env and self.lockvar and not self.inloop \
                and s[3] == [("expr", ("mcall", ("var", self.lockvar), "insert", [("var", s[1][1][0]), ("var", s[1][1][1])]))]:
            # for (key, vv) in staged.into_iter() { data.insert(key, vv); } : the entries of the local map, in key order
            for a in s[1][1]:
                self.binder(a, env)
            self.dirty = True
            env2 = {a: b for a, b in env.items() if a != s[2][1][1]}       # the local map is consumed
            return "let %s := fold_left (fun d_ kv_ => bmap_insert d_ (fst kv_) (snd kv_)) %s %s in\n%s" % (
                self.lockvar, s[2][1][1], self.lockvar, self.stmts(rest, tail, env2))
        if s[0] == "return":
            return self.ret(s[1], env)
        if s[0] == "expr" and s[1][0] == "macro" and s[1][1] in self.LOGS:
            return self.stmts(rest, tail, env)              # logging: no effect on the store or the answer
        if s[0] == "let" and isinstance(s[1], str) and s[2] is None:
            x, e = s[1], s[3]
            if self.local and e == ("mcall", ("mcall", ("field", ("var", "self"), "commit_log"), "lock", []), "unwrap", []):
                # the guard of the commit log: a poisoned mutex panics
                if self.lockvar:
                    raise GenError("a second lock() (a deadlock) is outside the fragment")
                self.binder(x, env)
                env2 = dict(env)
                env2[x] = "opt:bmap"
                self.lockvar = x
                return "if (%s_commit_log_poisoned self)\nthen Trap\nelse (let %s := (%s_commit_log self) in\n%s)" % (
                    self.owner, x, self.owner, self.stmts(rest, tail, env2))
            if self.local and self.lockvar and not self.logvar and e[0] == "mcall" and e[2] == "expect" and len(e[3]) == 1 \
                    and e[3][0][0] == "str" and e[1] == ("mcall", ("var", self.lockvar), "as_mut", []):
                # let log = guard.as_mut().expect(".."): the map inside the option (a panic when there is none);
                # what is inserted into it is in the option when the function returns
                self.binder(x, env)
                env2 = dict(env)
                env2[x] = "bmap"
                self.logvar = x
                return "%s <- expect_some %s ;;\n%s" % (x, self.lockvar, self.stmts(rest, tail, env2))
            if not self.local and e == ("mcall", ("mcall", ("field", ("var", "self"), "data"), "lock", []), "unwrap", []):
                if self.lockvar:
                    raise GenError("a second lock() (a deadlock) is outside the fragment")
                self.binder(x, env)
                env2 = dict(env)
                env2[x] = "bmap"
                self.lockvar = x
                return "let %s := (%s_data self) in\n%s" % (x, self.owner, self.stmts(rest, tail, env2))
            b, c, t = self.expr(e, env)
            self.binder(x, env)
            env2 = dict(env)
            env2[x] = t
            return self.emit(b, "let %s := %s in\n%s" % (x, c, self.stmts(rest, tail, env2)))
        if s[0] == "iflet_stmt" and isinstance(s[1], tuple) and s[1][0] == "tuple_pat" and len(s[1][1]) == 2 and s[3][1] is None:
            b, c, t = self.expr(s[2], env)
            if t != "opt:entry":
                raise GenError("if let Some((.., ..)) on a %s" % t)
            a1, a2 = s[1][1]
            env2 = dict(env)
            env2[self.binder(a1, env)] = "u64"
            if a2 != "_":
                env2[self.binder(a2, env2)] = "bytes"
            save = (self.lockvar, self.dirty, self.logvar)
            inside = self.stmts(s[3][0] + rest, tail, env2)
            self.lockvar, self.dirty, self.logvar = save
            after = self.stmts(rest, tail, env)
            return self.emit(b, "match %s with\n| Some (%s, %s) => (%s)\n| None => (%s)\nend" % (c, a1, a2, inside, after))
        if s[0] == "iflet_stmt" and isinstance(s[1], str) and s[3][1] is None:
            b, c, t = self.expr(s[2], env)
            if t != "opt_u64":
                raise GenError("if let Some(..) on a %s" % t)
            env2 = dict(env)
            env2[self.binder(s[1], env)] = "u64"
            save = (self.lockvar, self.dirty, self.logvar)
            inside = self.stmts(s[3][0] + rest, tail, env2)
            self.lockvar, self.dirty, self.logvar = save
            after = self.stmts(rest, tail, env)
            return self.emit(b, "match %s with\n| Some %s => (%s)\n| None => (%s)\nend" % (c, s[1], inside, after))
        if s[0] in ("if_stmt", "ifelse_stmt") and s[2][1] is None and (s[0] == "if_stmt" or s[3][1] is None):
            b, c, t = self.expr(s[1], env)
            if t != "bool":
                raise GenError("if on a %s" % t)
            save = (self.lockvar, self.dirty, self.logvar)
            then_t = self.stmts(s[2][0] + rest, tail, env)
            self.lockvar, self.dirty, self.logvar = save
            else_t = self.stmts((s[3][0] if s[0] == "ifelse_stmt" else []) + rest, tail, env)
            return self.emit(b, "if %s\nthen (%s)\nelse (%s)" % (c, then_t, else_t))
        if s[0] == "expr" and s[1][0] == "mcall" and s[1][1][0] == "var" and s[1][2] == "insert" and len(s[1][3]) == 2 \
                and ((s[1][1][1] == self.lockvar and not self.local) or s[1][1][1] == self.logvar or s[1][1][1] in self.localmaps) \
                and s[1][1][1] in env \
                and (not self.inloop or s[1][1][1] == self.inloop):
            mv = s[1][1][1]
            b1, c1, t1 = self.expr(s[1][3][0], env)
            b2, c2, t2 = self.expr(s[1][3][1], env)
            if (t1, t2) != ("str", "entry"):
                raise GenError("insert of a %s under a %s" % (t2, t1))
            if mv in (self.lockvar, self.logvar):
                self.dirty = True
            return self.emit(b1 + b2, "let %s := bmap_insert %s %s %s in\n%s" % (mv, mv, c1, c2, self.stmts(rest, tail, env)))
        raise GenError("statement %r is outside the fragment" % (s,))

    @staticmethod
    def pair_pat(x):
        """(a, (b, c)) for the pattern (a, (b, c)), else None"""
        if isinstance(x, tuple) and x[0] == "tuple_pat" and len(x[1]) == 2 and isinstance(x[1][0], str) \
                and isinstance(x[1][1], tuple) and x[1][1][0] == "tuple_pat" and len(x[1][1][1]) == 2 \
                and all(isinstance(a, str) for a in x[1][1][1]):
            return x[1][0], tuple(x[1][1][1])
        return None

    def loop_updates(self, ss):
        """the maps a block inserts into"""
        out = []
        for s in ss:
            if s[0] == "expr" and s[1][0] == "mcall" and s[1][2] == "insert" and s[1][1][0] == "var":
                out.append(s[1][1][1])
            elif s[0] in ("if_stmt", "iflet_stmt"):
                out += self.loop_updates(s[2][0] if s[0] == "if_stmt" else s[3][0])
            elif s[0] == "ifelse_stmt":
                out += self.loop_updates(s[2][0]) + self.loop_updates(s[3][0])
            elif s[0] in ("for_iter", "for_range"):
                raise GenError("a nested loop is outside the fragment")
        return sorted(set(out))

    def method(self, m):
        if m["selfmode"] != "ref" or m["ret"] not in ("kvres:unit", "kvres:opt_u64", "kvres:opt_entry"):
            raise GenError("fn %s: only `&self` methods that return Result<(), Error> / Result<Option<u64>, Error>" % m["name"])
        self.cur, self.lockvar, self.dirty, self.tmp, self.inloop, self.localmaps, self.logvar = m, None, False, 0, None, set(), None
        env = {}
        for x, t in m["params"]:
            if t not in ("str", "u64", "bytes", "vec:kvv"):
                raise GenError("fn %s: parameter of type %s" % (m["name"], t))
            env[self.binder(x, env)] = t
        body = self.stmts(m["body"][0], m["body"][1], env)
        rt = {"kvres:unit": self.owner, "kvres:opt_u64": "(option N)", "kvres:opt_entry": "(option (N * list N))"}[m["ret"]]
        return "Definition gen_%s_%s (prof : profile) (self : %s) %s : trap (result %s) :=\n%s." % (
            self.owner, m["name"], self.owner, " ".join("(%s : %s)" % (x, self.coq_type(t)) for x, t in m["params"]), rt, indent(body))


def generate_kvv(repo):
    try:
        return _generate_kvv(repo)
    except (IndexError, KeyError, ValueError, TypeError, AttributeError, RecursionError, OSError) as e:
        raise GenError("the source could not be read (%s: %s)" % (type(e).__name__, e))


def _generate_kvv(repo):
    """Gen/KvvGen.v: MemoryKVVStore::get_version, ::put_with_version, ::put, ::delete (vls-persist/src/kvv/memory.rs)."""
    src = open(os.path.join(repo, "vls-persist", "src", "kvv", "memory.rs")).read()
    bl = re.sub(r"\s+", "", blank(src))
    if "pubstructMemoryKVVStore{data:Mutex<BTreeMap<String,(u64,Vec<u8>)>>,signer_id:SignerId,}" not in bl:
        raise GenError("struct MemoryKVVStore is not { data: Mutex<BTreeMap<String, (u64, Vec<u8>)>>, signer_id: SignerId }")
    if "usealloc::collections::BTreeMap;" not in bl or "usecrate::kvv::{Error,KVVStore,KVV};" not in bl:
        raise GenError("memory.rs: BTreeMap is not alloc::collections::BTreeMap, or Error not crate::kvv::Error")
    kv = re.sub(r"\s+", "", blank(open(os.path.join(repo, "vls-persist", "src", "kvv.rs")).read()))
    pm = re.sub(r"\s+", "", blank(open(os.path.join(repo, "vls-core", "src", "persist", "mod.rs")).read()))
    if not re.search(r"uselightning_signer::persist::\{[^}]*\bError\b", kv) or not re.search(r"pubenumError\{[^}]*VersionMismatch,", pm):
        raise GenError("kvv::Error is not lightning_signer::persist::Error, or that enum has no VersionMismatch")
    known = {"Error": "enum:KvvError", "Vec": "path", "MemoryKVVStore": "struct:MemoryKVVStore", "BTreeMap": "path"}
    if "pubstructKVV(pubString,pub(u64,Vec<u8>));" not in kv or \
            "pubfninto_inner(self)->(String,(u64,Vec<u8>)){(self.0,self.1)}" not in kv:
        raise GenError("kvv.rs: KVV is not (String, (u64, Vec<u8>)) with into_inner = (self.0, self.1)")
    plan = ["get_version", "get", "put_with_version", "put", "delete", "put_batch"]
    methods, texts = {}, {}
    for n in plan:
        texts[n] = method_source(src, None, n, header="impl KVVStore for MemoryKVVStore")
        methods[n] = P(lex(texts[n]), known).fn()
    g = GenKV("MemoryKVVStore", methods)
    out = ["(* struct MemoryKVVStore (memory.rs): the map behind the mutex; signer_id is not read by the translated functions *)\n"
           "Record MemoryKVVStore := mk_MemoryKVVStore {\n  MemoryKVVStore_data : bmap (N * list N)\n}."]
    for n in plan:
        out.append("(* MemoryKVVStore::%s (kvv/memory.rs, `impl KVVStore for MemoryKVVStore`)\n%s *)\n%s" % (n, "\n".join(
            "   " + l for l in texts[n].strip().replace("(*", "( *").replace("*)", "* )").splitlines()), g.method(methods[n])))
    # CloudKVVStore<L> with L = MemoryKVVStore (vls-persist/src/kvv/cloud.rs)
    csrc = open(os.path.join(repo, "vls-persist", "src", "kvv", "cloud.rs")).read()
    cbl = re.sub(r"\s+", "", blank(csrc))
    if "pubstructCloudKVVStore<L:KVVStore>{local:L,commit_log:Mutex<Option<BTreeMap<String,(u64,Vec<u8>)>>>,}" not in cbl:
        raise GenError("struct CloudKVVStore<L> is not { local: L, commit_log: Mutex<Option<BTreeMap<String, (u64, Vec<u8>)>>> }")
    if "usealloc::collections::BTreeMap;" not in cbl or "usecrate::kvv::{Error,KVVStore,KVV};" not in cbl:
        raise GenError("cloud.rs: BTreeMap is not alloc::collections::BTreeMap, or Error not crate::kvv::Error")
    cplan = ["put_with_version", "put", "delete"]
    cmethods, ctexts = {}, {}
    for n in cplan:
        ctexts[n] = method_source(csrc, None, n, header="impl<L: KVVStore> KVVStore for CloudKVVStore<L>")
        cmethods[n] = P(lex(ctexts[n]), known).fn()
    gc = GenKV("CloudKVVStore", cmethods, local=("MemoryKVVStore", methods))
    out.append("(* struct CloudKVVStore<L> (cloud.rs) with L = MemoryKVVStore: the local store, the commit log behind its mutex, and\n"
               "   whether that mutex is poisoned (lock().unwrap() then panics).  A panic of a translated function is Trap: the\n"
               "   poisoning it causes is not represented *)\n"
               "Record CloudKVVStore := mk_CloudKVVStore {\n  CloudKVVStore_local : MemoryKVVStore;\n"
               "  CloudKVVStore_commit_log : option (bmap (N * list N));\n  CloudKVVStore_commit_log_poisoned : bool\n}.")
    for n in cplan:
        out.append("(* CloudKVVStore::%s (kvv/cloud.rs, `impl<L: KVVStore> KVVStore for CloudKVVStore<L>`, L = MemoryKVVStore)\n%s *)\n%s" % (
            n, "\n".join("   " + l for l in ctexts[n].strip().replace("(*", "( *").replace("*)", "* )").splitlines()), gc.method(cmethods[n])))
    text = ("(** GENERATED by tools/gen_rustfn.py - do not edit.  Statement-by-statement translation of\n"
            "      MemoryKVVStore::get_version, ::get, ::put_with_version, ::put, ::delete, ::put_batch (vls-persist/src/kvv/memory.rs)\n"
            "      and CloudKVVStore::put_with_version, ::put, ::delete (kvv/cloud.rs, L = MemoryKVVStore).\n"
            "    The store is its BTreeMap<String, (u64, Vec<u8>)> (Base/Rust.v bmap: sorted by the byte order of the keys);\n"
            "    Ok(()) carries the store the call leaves, Err(Error::VersionMismatch) is ErrR \"VersionMismatch\" and leaves\n"
            "    the store as it was (no translated function writes before it refuses). *)\n"
            "From Coq Require Import String.\nFrom VLS Require Export Base.Rust.\n\n" + "\n\n".join(out) + "\n")
    outp = os.path.join(ROOT, "coq", "theories", "Gen", "KvvGen.v")
    if not os.path.exists(outp) or open(outp).read() != text:
        open(outp, "w").write(text)
    return {"translated": ["MemoryKVVStore::%s" % n for n in plan] + ["CloudKVVStore::%s" % n for n in cplan]}


def generate_payment_summaries(repo):
    try:
        return _generate_payment_summaries(repo)
    except (IndexError, KeyError, ValueError, TypeError, AttributeError, RecursionError, OSError) as e:
        raise GenError("the source could not be read (%s: %s)" % (type(e).__name__, e))


def _generate_payment_summaries(repo):
    """Gen/PaymentSummariesGen.v: EnforcementState::summarize_payments, ::payments_summary, ::incoming_payments_summary
    (policy/validator.rs) over the CommitmentInfo2 / HTLCInfo2 records of Gen/CommitmentPolicyGen.v."""
    core = os.path.join(repo, "vls-core", "src")
    rd = lambda *p: open(os.path.join(core, *p)).read()
    va, lib_ = rd("policy", "validator.rs"), rd("lib.rs")
    if "pub use hashbrown::HashMap as Map;" not in re.sub(r"\s+", " ", lib_):
        raise GenError("lib.rs: `pub use hashbrown::HashMap as Map;` not found (what Map is)")
    if not re.search(r"\nuse core::cmp::\{max, min\};", va):
        raise GenError("policy/validator.rs: max / min are expected from core::cmp")
    known_cp, structs_cp, _ = policy_decls(core)
    known = dict(known_cp)
    known.update({"EnforcementState": "struct:EnforcementState", "Map": "path", "Self": "path"})
    estate_fields = struct_fields(va, "EnforcementState", skip_unknown=True, known=known)
    structs = {"CommitmentInfo2": structs_cp["CommitmentInfo2"], "HTLCInfo2": structs_cp["HTLCInfo2"],
               "EnforcementState": estate_fields}
    plan = ["summarize_payments", "payments_summary", "incoming_payments_summary"]
    methods, texts = {}, {}
    for n in plan:
        texts[n] = method_source(va, "EnforcementState", n)
        methods[("EnforcementState", n)] = P(lex(texts[n]), known).fn()
    g = GenR(structs, {}, methods, {}, {}, [], "SimpleValidator", None, known)
    cp = "CommitmentPolicyGen."
    g.coq_struct = {n: (cp + n, cp + n) for n in ("CommitmentInfo2", "HTLCInfo2")}
    g.new_fns = {"Map::new": ("[]", "map:u64")}
    g.value_methods = {("EnforcementState", n) for n in plan}
    out = ["(* struct EnforcementState (policy/validator.rs): the fields whose types are inside the fragment; the commitment\n"
           "   contents are the records of Gen/CommitmentPolicyGen.v *)\nRecord EnforcementState := mk_EnforcementState {\n%s\n}." %
           ";\n".join("  EnforcementState_%s : %s" % (f, g.coq_type(t)) for f, t in estate_fields)]
    for n in plan:
        out.append("(* EnforcementState::%s (policy/validator.rs)\n%s *)\n%s" % (n, "\n".join(
            "   " + l for l in texts[n].strip().replace("(*", "( *").replace("*)", "* )").splitlines()),
            g.method2("EnforcementState", methods[("EnforcementState", n)])))
    text = ("(** GENERATED by tools/gen_rustfn.py - do not edit.  Statement-by-statement translation of\n"
            "      EnforcementState::summarize_payments, ::payments_summary, ::incoming_payments_summary (policy/validator.rs).\n"
            "    Maps are association lists (Base/Rust.v); a map handed to `for (k, v) in m` is visited in the order [pair_order m],\n"
            "    an uninterpreted parameter.  The functions have plain values; they are rendered as [result] computations that\n"
            "    cannot return errors (a panic: `*e += x` overflowing).  Payment hashes are opaque identities. *)\n"
            "From Coq Require Import String.\nFrom VLS Require Export Base.Rust.\nFrom VLS Require Gen.CommitmentPolicyGen.\n\n"
            + "\n\n".join(out) + "\n")
    outp = os.path.join(ROOT, "coq", "theories", "Gen", "PaymentSummariesGen.v")
    if not os.path.exists(outp) or open(outp).read() != text:
        open(outp, "w").write(text)
    return {"translated": ["EnforcementState::" + n for n in plan], "parameters": ["pair_order (the order in which a map is visited)"]}


if __name__ == "__main__":
    repo = sys.argv[1] if len(sys.argv) > 1 else "/repo"
    print(generate_velocity(repo))
    print(generate_payments(repo))
    print(generate_enforcement(repo))
    print(generate_monitor(repo))
    print(generate_txutil(repo))
    print(generate_commitment_policy(repo))
    print(generate_enforcement_rules(repo))
    print(generate_sweep(repo))
    print(generate_mutual_close(repo))
    print(generate_onchain(repo))
    print(generate_node_payments(repo))
    print(generate_payment_summaries(repo))
    print(generate_kvv(repo))
