#!/usr/bin/env python3
"""Run registered checks against a seeded change.

usage: seed_run.py <seeded name> <property id> [<property id> ...] [--tier quick|thorough]

A scratch worktree of /repo's HEAD is created under /tmp, seeded/<name>/patch.diff is applied to
it, every named check runs with VERIF_REPO pointing there (evidence and replays of such runs go
under out/alt/, never into evidence/), and the worktree and its build output are removed again.
The outcome is written to seeded/<name>/checks.json: per check the exit code and the VIOLATION
lines, i.e. which checks catch this change.
"""
import json, os, subprocess, sys, shutil, hashlib, time

ROOT = os.path.dirname(os.path.dirname(os.path.abspath(__file__)))

def main():
    args = sys.argv[1:]
    tier = "quick"
    if "--tier" in args:
        i = args.index("--tier")
        tier = args[i + 1]
        del args[i:i + 2]
    name, props = args[0], args[1:]
    # one seeded run at a time: they share the Coq development (generated files included) with each other
    import fcntl
    lock = open("/tmp/seed_run.inner.lock", "w")
    fcntl.flock(lock, fcntl.LOCK_EX)
    sd = os.path.join(ROOT, "seeded", name)
    wt = "/tmp/sr-" + name
    subprocess.run(["git", "-C", "/repo", "worktree", "remove", "--force", wt], stderr=subprocess.DEVNULL)
    subprocess.check_call(["git", "-C", "/repo", "worktree", "add", "-f", "-q", wt, "HEAD"])
    try:
        r = subprocess.run(["git", "-C", wt, "apply", "--3way", os.path.join(sd, "patch.diff")],
                           stdout=subprocess.PIPE, stderr=subprocess.STDOUT, text=True)
        if r.returncode != 0:
            print("patch does not apply to /repo HEAD:\n" + r.stdout)
            return 2
        head = subprocess.check_output(["git", "-C", "/repo", "rev-parse", "--short", "HEAD"], text=True).strip()
        out = {}
        path = os.path.join(sd, "checks.json")
        if os.path.exists(path):
            out = json.load(open(path))
        env = dict(os.environ, VERIF_REPO=wt, CARGO_NET_OFFLINE="true", VERIF_HARNESS_SNAPSHOT="1")
        for p in props:
            t = time.time()
            r = subprocess.run([sys.executable, os.path.join(ROOT, "tools", "verif.py"), "check", p, "--tier", tier],
                               cwd=ROOT, env=env, stdout=subprocess.PIPE, stderr=subprocess.STDOUT, text=True)
            lines = [l for l in r.stdout.splitlines() if l.startswith("VIOLATION") or l.startswith("KNOWN-FINDING")]
            what = []
            for l in lines[:3]:
                if "replay=" in l:
                    rp = l.split("replay=")[1].split()[0]
                    try:
                        d = json.load(open(rp))
                        what.append(str(d.get("what", ""))[:400])
                    except Exception:
                        pass
            out["%s/%s" % (p, tier)] = {"repo_head": head, "exit": r.returncode, "caught": r.returncode == 1 and any(l.startswith("VIOLATION") for l in lines),
                                        "lines": lines[:6], "what": what, "seconds": round(time.time() - t)}
            print("%s %s: exit %d, %d VIOLATION line(s) (%ds)" % (p, tier, r.returncode, sum(l.startswith("VIOLATION") for l in lines), time.time() - t), flush=True)
            for w in what[:2]:
                print("    " + w[:300])
            if r.returncode not in (0, 1):
                print(r.stdout[-1500:])
        json.dump(out, open(path, "w"), indent=1)
    finally:
        # the translators wrote Gen files for the seeded tree into the shared development: put the
        # committed ones (generated from /repo) back
        subprocess.run(["git", "-C", ROOT, "checkout", "--", "coq/theories/Gen", "harness/src/gen"], stderr=subprocess.DEVNULL)
        subprocess.run(["git", "-C", "/repo", "worktree", "remove", "--force", wt])
        # ... and regenerate them from /repo, so that the shared development never keeps (and nobody commits) the
        # translation of a seeded tree even if the committed copy was itself stale
        subprocess.run([sys.executable, os.path.join(ROOT, "tools", "gen_rustfn.py"), "/repo"],
                       env={k: v for k, v in os.environ.items() if k != "VERIF_REPO"}, stdout=subprocess.DEVNULL)
        tag = hashlib.sha1(wt.encode()).hexdigest()[:10]
        for d in os.listdir(os.path.join(ROOT, ".cache")):
            if d.endswith(tag) or d.endswith(tag + ".lock"):
                q = os.path.join(ROOT, ".cache", d)
                shutil.rmtree(q, ignore_errors=True) if os.path.isdir(q) else os.remove(q)
    return 0

if __name__ == "__main__":
    sys.exit(main())
