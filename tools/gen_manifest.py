#!/usr/bin/env python3
"""Writes MANIFEST.json from the table below (kept in one place so that it always validates)."""
import json, os
ROOT = os.path.dirname(os.path.dirname(os.path.abspath(__file__)))

TB = ("Trusted: Coq 8.16.1 kernel and vm_compute (no native_compute); no axioms (Print Assumptions: closed); "
      "the hand-written Gallina model is tied to /repo by a differential correspondence check on every run "
      "(generator-bounded); Rust harness and tools/lib.py. ")

CHECKS = {
    "C12": dict(
        text="Coq theorem C12_window: for every policy spec with a finite limit and every history of approvals, "
             "node-entry writes and restarts with non-decreasing times, the approved amounts in any window no longer "
             "than (buckets-1)*interval sum to at most the limit (induction over the history with a per-bucket "
             "accounting invariant; saturating adds modelled).  The model (insert, persist-on-approve, restore) is "
             "run against VelocityControl and against Node::add_keysend / restore_node on the same histories every run.",
        design="§4 C12",
        note=TB + "Modelled, not verified: serde round trip of the persisted control; clock monotonicity is the property's hypothesis.",
        technique="Coq proof (invariant by induction over histories) + vm_compute correspondence with the Rust implementation"),
}

NOT_YET = {}

def main():
    props = [json.loads(l) for l in open(os.path.join(ROOT, "properties.jsonl"))]
    checks = []
    na = []
    for p in props:
        pid = p["id"]
        if pid in CHECKS:
            c = CHECKS[pid]
            checks.append({
                "property_id": pid,
                "quick_cmd": "python3 tools/verif.py check %s --tier quick" % pid,
                "thorough_cmd": "python3 tools/verif.py check %s --tier thorough" % pid,
                "evidence_file": "/verif/evidence/%s.json" % pid,
                "replay_cmd_template": "python3 tools/verif.py replay {path}",
                "engine": "coq+harness",
                "level_claimed": {"category": "proof", "text": c["text"], "design_ref": c["design"]},
                "level_note": c["note"],
                "technique": c["technique"],
            })
        else:
            na.append({"property_id": pid,
                       "reason": NOT_YET.get(pid, "no check registered yet: the Coq model and correspondence for this property are still being built (DESIGN.md §8); not a statement that the technique cannot apply")})
    m = {
        "version": 1,
        "setup_cmd": "python3 tools/verif.py setup",
        "hooks": {
            "guard": "vls_verif",
            "enable": "RUSTFLAGS=\"--cfg vls_verif\" (set by tools/lib.py when it builds the harness against /repo)",
            "baseline_off_cmd": "cd /repo && cargo test --workspace --no-fail-fast --offline",
            "source_commits": [],
            "add_only": True,
        },
        "engines": [{"name": "coq+harness", "path": "/verif/tools/verif.py",
                     "serves_properties": sorted(CHECKS),
                     "kind_free_text": "Coq 8.16.1 development under coq/ (models, proofs, property theorems) + Rust harness under harness/ that drives the real code; tools/lib.py evaluates the model on the harness's cases with vm_compute and diffs"}],
        "checks": checks,
        "notes": "See DESIGN.md. Known findings are listed in KNOWN_FINDINGS.json.",
        "not_applicable": na,
    }
    json.dump(m, open(os.path.join(ROOT, "MANIFEST.json"), "w"), indent=1)

if __name__ == "__main__":
    main()
