#!/usr/bin/env python3
"""Writes MANIFEST.json from the table below (kept in one place so that it always validates)."""
import json, os
ROOT = os.path.dirname(os.path.dirname(os.path.abspath(__file__)))

TB_UNUSED = ("Trusted: Coq 8.16.1 kernel and vm_compute (no native_compute); no axioms (Print Assumptions: closed); "
      "the hand-written Gallina model is tied to /repo by a differential correspondence check on every run "
      "(generator-bounded); Rust harness and tools/lib.py. ")

import importlib, sys, glob
sys.path.insert(0, os.path.dirname(os.path.abspath(__file__)))

# every tools/props/cNN.py that defines MANIFEST = dict(text=, design=, note=, technique=) is a claimed check
CHECKS = {}
for f in sorted(glob.glob(os.path.join(os.path.dirname(os.path.abspath(__file__)), "props", "c[0-9]*.py"))):
    name = os.path.basename(f)[:-3]
    mod = importlib.import_module("props." + name)
    if hasattr(mod, "MANIFEST"):
        CHECKS[name.upper()] = mod.MANIFEST

NOT_YET = {}

def main():
    props = [json.loads(l) for l in open(os.path.join(ROOT, "properties.jsonl"))]
    checks = []
    na = []
    for p in props:
        pid = p["id"]
        if pid in CHECKS:
            c = CHECKS[pid]
            checks.append({
                "property_id": pid,
                "quick_cmd": "python3 tools/verif.py check %s --tier quick" % pid,
                "thorough_cmd": "python3 tools/verif.py check %s --tier thorough" % pid,
                "evidence_file": "/verif/evidence/%s.json" % pid,
                "replay_cmd_template": "python3 tools/verif.py replay {path}",
                "engine": "coq+harness",
                "level_claimed": {"category": "proof", "text": c["text"], "design_ref": c["design"]},
                "level_note": c["note"],
                "technique": c["technique"],
            })
        else:
            na.append({"property_id": pid,
                       "reason": NOT_YET.get(pid, "no check registered yet: the Coq model and correspondence for this property are still being built (DESIGN.md §8); not a statement that the technique cannot apply")})
    m = {
        "version": 1,
        "setup_cmd": "python3 tools/verif.py setup",
        "hooks": {
            "guard": "vls_verif",
            "enable": "RUSTFLAGS=\"--cfg vls_verif\" (set by tools/lib.py when it builds the harness against /repo)",
            "baseline_off_cmd": "cd /repo && cargo test --workspace --no-fail-fast --offline",
            "source_commits": ["bf60549"],
            "add_only": False,
        },
        "engines": [{"name": "coq+harness", "path": "/verif/tools/verif.py",
                     "serves_properties": sorted(CHECKS),
                     "kind_free_text": "Coq 8.16.1 development under coq/ (models, proofs, property theorems) + Rust harness under harness/ that drives the real code; tools/lib.py evaluates the model on the harness's cases with vm_compute and diffs"}],
        "checks": checks,
        "notes": "See DESIGN.md. Known findings are listed in KNOWN_FINDINGS.json.",
        "not_applicable": na,
    }
    json.dump(m, open(os.path.join(ROOT, "MANIFEST.json"), "w"), indent=1)

if __name__ == "__main__":
    main()
