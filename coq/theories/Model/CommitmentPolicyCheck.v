(** Executable comparison of Model/CommitmentPolicy.v with observations of the real validators
    (evaluated by [vm_compute] in generated case files). *)
From VLS Require Export Base.Eqb Model.CommitmentPolicy.

Definition tag_code (t : tag) : N :=
  match t with
  | T_outputs_trimmed => 0 | T_htlc_count => 1 | T_cltv_range => 2 | T_payment_velocity => 3
  | T_inflight => 4 | T_fee_range => 5 | T_first_no_htlcs => 6 | T_initial_funding_value => 7
  | T_previous_revoked => 8 | T_retry_same => 9 | T_holder_not_revoked => 10
  | T_active_utxo => 11 | T_active_utxo_temp => 12 | T_safe_type => 13 | T_delay_holder => 14
  | T_delay_counterparty => 15 | T_scriptpubkey => 16 | T_mutual_destination => 17
  | T_funding_max => 18
  end.

(** observation codes printed by the harness: 0 accepted, 1 panic, 100 + tag refused *)
Definition res_code (r : res) : N :=
  match r with Ok => 0 | Panic => 1 | Err t => 100 + tag_code t end.

Definition entry_of (k : N) : entry :=
  if k =? 0 then SimpleCp else if k =? 1 then SimpleHolder
  else if k =? 2 then OnchainCp else OnchainHolder.

(** validator-level commitment case:
    ((profile, filter rules, policy), (entry, estate, setup, chain, commit_num, info), observed) *)
Definition commit_case : Type :=
  (profile * list rule * policy) * (N * estate * setup * chain * N * cinfo) * N.

Definition commit_model_with (est : profile -> N -> N -> trap N) (c : commit_case) : N :=
  let '((prof, rules, pol), (k, e, s, cs, n, i), _) := c in
  res_code (validate_entry (entry_of k) (est prof) prof (warn_of rules) pol e s cs n i).

Definition commit_model : commit_case -> N := commit_model_with (fun _ => est_new).
Definition commit_model_old : commit_case -> N := commit_model_with est_old.
Definition check_commit (c : commit_case) : bool := commit_model c =? snd c.
Definition check_commit_old (c : commit_case) : bool := commit_model_old c =? snd c.

(** setup case: ((filter rules, policy), setup, (observed validate_setup_channel,
    observed validate_channel_value)) *)
Definition setup_case : Type := (list rule * policy) * setup * (N * N).
Definition setup_model (c : setup_case) : N * N :=
  let '((rules, pol), s, _) := c in
  (res_code (validate_setup_channel (warn_of rules) pol s),
   res_code (validate_channel_value (warn_of rules) pol s)).
Definition check_setup (c : setup_case) : bool := beq (setup_model c) (snd c).

(** channel-level case (sign_counterparty_commitment_tx_phase2 on a real channel): the error tag
    does not survive the conversion to Status, so only accepted / refused / panic is compared.
    ((profile, rules, policy), (onchain, estate, setup, chain, commit_num, info), observed)
    observed: 0 signed, 1 panic, 2 refused *)
Definition sign_case : Type :=
  (profile * list rule * policy) * (bool * estate * setup * chain * N * cinfo) * N.
Definition sign_model_with (est : profile -> N -> N -> trap N) (c : sign_case) : N :=
  let '((prof, rules, pol), (oc, e, s, cs, n, i), _) := c in
  match sign_counterparty (est prof) prof (warn_of rules) pol oc e s cs n i with
  | Ok => 0 | Panic => 1 | Err _ => 2
  end.
Definition sign_model : sign_case -> N := sign_model_with (fun _ => est_new).
Definition sign_model_old : sign_case -> N := sign_model_with est_old.
(** a refusal by panic in front of the validator (claimable balance of an overspending
    commitment) counts as refused *)
Definition check_sign (c : sign_case) : bool :=
  let m := sign_model c in
  if snd c =? 0 then m =? 0 else negb (m =? 0).
Definition check_sign_old (c : sign_case) : bool :=
  let m := sign_model_old c in
  if snd c =? 0 then m =? 0 else negb (m =? 0).

(** lifecycle case (a real node, one channel id: setup_channel attempts, then commitment
    requests): ((profile, rules, policy, onchain), requests, observed answers 0/1/2) *)
Definition life_case : Type := (profile * list rule * policy * bool) * list lop * list N.
Definition life_model_with (est : profile -> N -> N -> trap N) (c : life_case) : list N :=
  let '((prof, rules, pol, oc), ops, _) := c in
  ltrace (est prof) prof (warn_of rules) pol oc Stub ops.
Definition life_model : life_case -> list N := life_model_with (fun _ => est_new).
Definition check_life (c : life_case) : bool := beq (life_model c) (snd c).

(** phase-2 signing with HTLC lists (repeated entries included), simple validator.  The case is
    a [commit_case] whose entry is 0 (counterparty commitment: Channel method or
    SignRemoteCommitmentTx2) or 1 (sign_holder_commitment_tx_phase2_redundant); the info holds
    the FULL lists of the request.  Observed: 0 signed and the signature verifies against the
    transaction built from those full lists, 1 panic, 2 refused, 3 / 4 signed but the signature
    is for some other transaction (never acceptable). *)
Definition signed_model (c : commit_case) : N :=
  let '((prof, rules, pol), (k, e, s, cs, n, i), _) := c in
  if k =? 0 then code3 (sign_counterparty est_new prof (warn_of rules) pol false e s cs n i)
  else code3 (validate_entry SimpleHolder est_new prof (warn_of rules) pol e s cs n i).
Definition check_signed (c : commit_case) : bool :=
  let m := signed_model c in
  let o := snd c in
  if o =? 0 then m =? 0 else if o <=? 2 then negb (m =? 0) else false.
