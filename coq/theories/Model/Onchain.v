(** Model of the checks in front of every layer-1 (wallet / funding) signature of vls-core:
      policy/simple_validator.rs   validate_onchain_tx (output classification, beneficial sum,
                                   unknown destinations), validate_beneficial_value
      util/transaction_utils.rs    is_tx_non_malleable, estimate_feerate_per_kw (the repaired one,
                                   shared with Model/CommitmentPolicy.v)
      node.rs                      Node::check_onchain_tx (weight lower bound, fee velocity insert),
                                   unchecked_sign_onchain_tx (persists the node entry),
                                   Wallet::can_spend / allowlist_contains (as answers per output)
      vls-protocol-signer/src/approver.rs   Approve::handle_proposed_onchain
    Definitions only.  Amounts are [N] with the machine operations of Base/U64.v. *)
From VLS Require Export Base.U64 Model.Velocity.
From VLS Require Model.CommitmentPolicy.
From Coq Require Export String.
From Coq Require Export List.   (* [length], [app] mean the list functions again *)

(** * Tags and the policy filter *)

Inductive otag :=
| T_format_standard        (* policy-onchain-format-standard *)
| T_max_size               (* policy-onchain-max-size *)
| T_non_malleable          (* policy-onchain-funding-non-malleable *)
| T_output_scriptpubkey    (* policy-onchain-output-scriptpubkey *)
| T_no_unknown_outputs     (* policy-onchain-no-unknown-outputs *)
| T_match_commitment       (* policy-onchain-output-match-commitment *)
| T_initial_countersigned  (* policy-onchain-initial-commitment-countersigned *)
| T_no_fund_inbound        (* policy-onchain-no-fund-inbound *)
| T_no_channel_push        (* policy-onchain-no-channel-push *)
| T_fee_range.             (* policy-onchain-fee-range *)

Definition otag_name (t : otag) : string :=
  match t with
  | T_format_standard => "policy-onchain-format-standard"
  | T_max_size => "policy-onchain-max-size"
  | T_non_malleable => "policy-onchain-funding-non-malleable"
  | T_output_scriptpubkey => "policy-onchain-output-scriptpubkey"
  | T_no_unknown_outputs => "policy-onchain-no-unknown-outputs"
  | T_match_commitment => "policy-onchain-output-match-commitment"
  | T_initial_countersigned => "policy-onchain-initial-commitment-countersigned"
  | T_no_fund_inbound => "policy-onchain-no-fund-inbound"
  | T_no_channel_push => "policy-onchain-no-channel-push"
  | T_fee_range => "policy-onchain-fee-range"
  end%string.

(** PolicyFilter (policy/filter.rs), the same first-match rule list as in the commitment model *)
Definition owarn_of (rules : list CommitmentPolicy.rule) (t : otag) : bool :=
  CommitmentPolicy.filter_warn rules (otag_name t).

Definition strict : otag -> bool := fun _ => false.

(** * Data *)

Record opolicy := mkOPol {
  max_feerate : N;            (* max_feerate_per_kw, u32 *)
  disable_beneficial : bool   (* dev_flags.disable_beneficial_balance_checks *)
}.

(** what the channel branch reads from a [ChannelSlot::Ready] found by funding outpoint *)
Record chanfacts := mkChan {
  c_value : N;          (* setup.channel_value_sat *)
  c_script_ok : bool;   (* output.script_pubkey == p2wsh(make_funding_redeemscript(holder, counterparty)) *)
  c_next_holder : N;    (* enforcement_state.next_holder_commit_num *)
  c_outbound : bool;    (* setup.is_outbound *)
  c_push_msat : N       (* setup.push_value_msat *)
}.

Inductive opath :=
| NoPath       (* opaths is shorter than tx.output: the index panics *)
| EmptyPath    (* opath.len() == 0 *)
| WalletPath.  (* opath.len() > 0 *)

Record output := mkOut {
  o_value : N;                  (* output.value.to_sat() *)
  o_path : opath;
  o_can_spend : option bool;    (* wallet.can_spend(opath, script); None = Err (bad path length) *)
  o_allow_path : option bool;   (* wallet.allowlist_contains(script, opath); None = panic (hardened
                                   step derived from an allowlisted xpub) *)
  o_allow_script : bool;        (* wallet.allowlist_contains(script, master) *)
  o_chan : option chanfacts     (* find_channel_with_funding_outpoint(txid, index) *)
}.

(** * validate_onchain_tx *)

(** [if violated { policy_err!(tag) }] in sequence: the first violated check whose tag the filter
    does not downgrade refuses *)
Fixpoint first_err (warn : otag -> bool) (l : list (bool * otag)) : option otag :=
  match l with
  | [] => None
  | (violated, t) :: r => if violated && negb (warn t) then Some t else first_err warn r
  end.

(** the effect of one output on the loop *)
Inductive oeffect :=
| EBen (v : N)     (* add_beneficial_output!(sum, v) *)
| ESkip            (* a violated check was downgraded: nothing is added, nothing is reported *)
| EUnk             (* unknowns.push(outndx) *)
| EErr (t : otag)
| EPanic.

Definition chan_effect (warn : otag -> bool) (o : output) (c : chanfacts) : oeffect :=
  match first_err warn
          [ (negb (o_value o =? c_value c), T_match_commitment);
            (negb (c_script_ok c), T_output_scriptpubkey);
            (negb (c_next_holder c =? 1), T_initial_countersigned);
            (negb (c_outbound c), T_no_fund_inbound);
            (0 <? c_push_msat c / 1000, T_no_channel_push) ] with
  | Some t => EErr t
  | None =>
      match sub_checked (c_value c) (c_push_msat c / 1000) with
      | None => EErr T_fee_range          (* policy_error, never filtered *)
      | Some v => EBen v
      end
  end.

Definition effect (warn : otag -> bool) (o : output) : oeffect :=
  match o_path o with
  | NoPath => EPanic
  | WalletPath =>
      match o_can_spend o with
      | None => EErr T_output_scriptpubkey      (* policy_error, never filtered *)
      | Some true => EBen (o_value o)
      | Some false =>
          match o_allow_path o with
          | None => EPanic
          | Some true => EBen (o_value o)
          | Some false => if warn T_no_unknown_outputs then ESkip else EErr T_no_unknown_outputs
          end
      end
  | EmptyPath =>
      if o_allow_script o then EBen (o_value o)
      else match o_chan o with
           | Some c => chan_effect warn o c
           | None => EUnk
           end
  end.

Inductive lres := LDone (sum : N) (unk : list N) | LErr (t : otag) | LPanic.

Fixpoint out_loop (warn : otag -> bool) (outs : list output) (i sum : N) (unk : list N) : lres :=
  match outs with
  | [] => LDone sum unk
  | o :: r =>
      match effect warn o with
      | EBen v =>
          match add_checked sum v with
          | None => LErr T_fee_range            (* beneficial outputs overflow, never filtered *)
          | Some s => out_loop warn r (i + 1) s unk
          end
      | ESkip => out_loop warn r (i + 1) sum unk
      | EUnk => out_loop warn r (i + 1) sum (unk ++ [i])
      | EErr t => LErr t
      | EPanic => LPanic
      end
  end.

Fixpoint sum_checked (l : list N) (acc : N) : option N :=
  match l with
  | [] => Some acc
  | v :: r => match add_checked acc v with None => None | Some s => sum_checked r s end
  end.

Definition MAX_ONCHAIN_TX_SIZE : N := 32768.

(** the arguments of [validate_onchain_tx], as far as it reads them *)
Record txcase := mkTx {
  t_version_two : bool;       (* tx.version == Version::TWO *)
  t_base_size : N;            (* tx.base_size() *)
  t_n_txin : N;               (* tx.input.len() *)
  t_flags : list bool;        (* segwit_flags *)
  t_values : list N;          (* values_sat *)
  t_outputs : list output;    (* tx.output zipped with opaths and channels *)
  t_weight : N                (* weight_lower_bound *)
}.

Inductive vres := VOk (nbv : N) | VErr (t : otag) | VUnknown (idxs : list N) | VPanic.

Definition has_chan (o : output) : bool := match o_chan o with Some _ => true | None => false end.
Definition any_chan (outs : list output) : bool := existsb has_chan outs.

(** [is_tx_non_malleable]: the assert_eq on the lengths panics *)
Definition non_malleable (tx : txcase) : option bool :=
  if N.of_nat (length (t_flags tx)) =? t_n_txin tx
  then Some (forallb (fun b => b) (t_flags tx)) else None.

Definition estimate : N -> N -> N := CommitmentPolicy.estimate_feerate_per_kw.

Definition validate_beneficial (warn : otag -> bool) (pol : opolicy) (sum_in sum_out w : N) : vres :=
  match sub_checked sum_in sum_out with
  | None => VErr T_format_standard            (* policy_error, never filtered *)
  | Some nbv =>
      if w =? 0 then VPanic                   (* u128 division by zero *)
      else if (max_feerate pol <? estimate nbv w) && negb (disable_beneficial pol)
              && negb (warn T_fee_range)
           then VErr T_fee_range
           else VOk nbv
  end.

Definition validate_onchain (warn : otag -> bool) (pol : opolicy) (tx : txcase) : vres :=
  if negb (t_version_two tx) && negb (warn T_format_standard) then VErr T_format_standard
  else if (MAX_ONCHAIN_TX_SIZE <? t_base_size tx) && negb (warn T_max_size) then VErr T_max_size
  else
    match (if any_chan (t_outputs tx) then non_malleable tx else Some true) with
    | None => VPanic
    | Some nm =>
        if negb nm && negb (warn T_non_malleable) then VErr T_non_malleable
        else
          match out_loop warn (t_outputs tx) 0 0 [] with
          | LPanic => VPanic
          | LErr t => VErr t
          | LDone ben unk =>
              if negb (length unk =? 0)%nat then VUnknown unk
              else
                match sum_checked (t_values tx) 0 with
                | None => VErr T_fee_range    (* funding sum inputs overflow, never filtered *)
                | Some sin => validate_beneficial warn pol sin ben (t_weight tx)
                end
          end
    end.

(** * Node::check_onchain_tx *)

(** a previous output as the node reads it *)
Record input := mkIn {
  i_value : N;               (* prev_outs[idx].value *)
  i_spend_valid : bool       (* SpendType::from_script_pubkey(..) != Invalid *)
}.

(** witness-header + element-count + length + sig + len, then the key / the unilateral-close
    stack ([Some l]: l = sum of 1 + len over the stack elements) *)
Definition in_weight (p : input) (uck : option N) : N :=
  if i_spend_valid p then 77 + match uck with Some l => l | None => 33 end else 0.

(** the loop runs over uniclosekeys and indexes prev_outs: a longer uniclosekeys panics *)
Fixpoint extra_weight (ucks : list (option N)) (prevs : list input) : option N :=
  match ucks, prevs with
  | [], _ => Some 0
  | _ :: _, [] => None
  | u :: us, p :: ps =>
      match extra_weight us ps with
      | None => None
      | Some r => Some (in_weight p u + r)
      end
  end.

Record nodecase := mkNode {
  n_version_two : bool;
  n_base_size : N;
  n_tx_weight : N;                (* tx.weight().to_wu() *)
  n_n_txin : N;
  n_flags : list bool;
  n_prevs : list input;           (* prev_outs *)
  n_ucks : list (option N);       (* uniclosekeys *)
  n_outputs : list output
}.

Definition to_txcase (nc : nodecase) (w : N) : txcase :=
  mkTx (n_version_two nc) (n_base_size nc) (n_n_txin nc) (n_flags nc)
       (map i_value (n_prevs nc)) (n_outputs nc) w.

Definition node_weight (nc : nodecase) : option N :=
  match extra_weight (n_ucks nc) (n_prevs nc) with
  | None => None
  | Some e => Some (n_tx_weight nc + e)
  end.

(** the result carries the non-beneficial value as a ghost (the code returns [()]) *)
Inductive cres := COk (nbv : N) | CErr (t : otag) | CUnknown (idxs : list N) | CPanic.

Definition sat_mul (a b : N) : N := N.min (a * b) U64MAX.

(** [c] is the node's fee velocity control, [now] the clock; the returned control is what the
    node holds in memory afterwards.  [msat] is how the value is turned into millisatoshi. *)
Definition check_onchain_with (msat : N -> trap N) (warn : otag -> bool) (pol : opolicy)
           (c : vc) (now : N) (nc : nodecase) : cres * vc :=
  match node_weight nc with
  | None => (CPanic, c)
  | Some w =>
      match validate_onchain warn pol (to_txcase nc w) with
      | VPanic => (CPanic, c)
      | VErr t => (CErr t, c)
      | VUnknown u => (CUnknown u, c)
      | VOk nbv =>
          match msat nbv with
          | Trap => (CPanic, c)
          | Val amt =>
              let '(c1, ok) := insert c now amt in
              if ok then (COk nbv, c1)
              else if warn T_fee_range then (COk nbv, c1) else (CErr T_fee_range, c1)
          end
      end
  end.

(** the repaired code (notes/fixes/C08-fee-velocity-msat-no-wrap.patch):
    [non_beneficial_sat.saturating_mul(1000)] *)
Definition check_onchain : (otag -> bool) -> opolicy -> vc -> N -> nodecase -> cres * vc :=
  check_onchain_with (fun nbv => Val (sat_mul nbv 1000)).

(** as found: [non_beneficial_sat * 1000], which traps in a debug build and wraps in a release
    build *)
Definition check_onchain_old (prof : profile) : (otag -> bool) -> opolicy -> vc -> N -> nodecase -> cres * vc :=
  check_onchain_with (fun nbv => mul_p prof nbv 1000).

(** * Approve::handle_proposed_onchain *)

Inductive hres := HApproved | HRejected | HFailed | HPanic.

Definition handle_proposed_with (check : vc -> N -> nodecase -> cres * vc)
           (approve : list N -> bool) (c : vc) (now : N) (nc : nodecase) : hres * vc :=
  let '(r, c1) := check c now nc in
  (match r with
   | COk _ => HApproved
   | CUnknown u => if approve u then HApproved else HRejected
   | CErr _ => HFailed
   | CPanic => HPanic
   end, c1).
Definition handle_proposed (warn : otag -> bool) (pol : opolicy) :=
  handle_proposed_with (check_onchain warn pol).

(** * Histories: the fee velocity control of a node across requests, writes and restarts *)

Inductive oop :=
| OTx (now : N) (nc : nodecase)   (* check_onchain_tx, then unchecked_sign_onchain_tx iff Ok *)
| OPersist                        (* any other request that writes the node entry *)
| ORestart.                       (* restore from the persisted entry under the same spec *)

(** state and, for an accepted transaction, the (time, msat) pair it was counted with *)
Definition ostep (warn : otag -> bool) (pol : opolicy) (it : itype) (lim : N)
           (s : nodevc) (o : oop) : nodevc * option (N * N) :=
  match o with
  | OTx now nc =>
      match check_onchain warn pol (mem s) now nc with
      | (COk nbv, c1) => (mknode c1 c1, Some (now, nbv * 1000))
      | (_, c1) => (mknode c1 (disk s), None)
      end
  | OPersist => (mknode (mem s) (mem s), None)
  | ORestart => (mknode (restore it lim (disk s)) (disk s), None)
  end.

Fixpoint orun_from warn pol it lim (s : nodevc) (log : list (N * N)) (ops : list oop)
  : nodevc * list (N * N) :=
  match ops with
  | [] => (s, log)
  | o :: r =>
      let '(s1, e) := ostep warn pol it lim s o in
      orun_from warn pol it lim s1
                (match e with Some x => log ++ [x] | None => log end) r
  end.
Definition orun warn pol it lim ops := orun_from warn pol it lim (vinit it lim) [] ops.

Fixpoint oop_times (ops : list oop) : list N :=
  match ops with
  | [] => []
  | OTx now _ :: r => now :: oop_times r
  | _ :: r => oop_times r
  end.

(** * Vocabulary of the property (used by the theorem statements) *)

(** an output nobody vouches for: no wallet path, script not allowlisted, no channel of this node
    has it as funding outpoint *)
Definition unclassified (o : output) : bool :=
  match o_path o with
  | EmptyPath => negb (o_allow_script o) && negb (has_chan o)
  | _ => false
  end.

Fixpoint unknown_idx_from (i : N) (outs : list output) : list N :=
  match outs with
  | [] => []
  | o :: r => if unclassified o then i :: unknown_idx_from (i + 1) r else unknown_idx_from (i + 1) r
  end.
Definition unknown_idx (outs : list output) : list N := unknown_idx_from 0 outs.

(** the output funds channel [c]: no wallet path, script not allowlisted, [c] has it as funding
    outpoint *)
Definition funds (o : output) (c : chanfacts) : Prop :=
  o_path o = EmptyPath /\ o_allow_script o = false /\ o_chan o = Some c.

(** exact value, funding script, outbound, no satoshi pushed, initial holder commitment
    counter-signed and validated *)
Definition chan_valid (o : output) (c : chanfacts) : Prop :=
  o_value o = c_value c /\ c_script_ok c = true /\ c_next_holder c = 1 /\
  c_outbound c = true /\ c_push_msat c / 1000 = 0.

(** the same with every conjunct guarded by its tag, for an arbitrary filter *)
Definition chan_valid_w (warn : otag -> bool) (o : output) (c : chanfacts) : Prop :=
  (warn T_match_commitment = false -> o_value o = c_value c) /\
  (warn T_output_scriptpubkey = false -> c_script_ok c = true) /\
  (warn T_initial_countersigned = false -> c_next_holder c = 1) /\
  (warn T_no_fund_inbound = false -> c_outbound c = true) /\
  (warn T_no_channel_push = false -> c_push_msat c / 1000 = 0) /\
  c_push_msat c / 1000 <= c_value c.

(** returned to the wallet, to an allowlisted destination (script or xpub), or into a validated
    channel *)
Definition beneficial (o : output) : Prop :=
  match o_path o with
  | NoPath => False
  | WalletPath =>
      o_can_spend o = Some true \/ (o_can_spend o = Some false /\ o_allow_path o = Some true)
  | EmptyPath =>
      o_allow_script o = true \/
      (o_allow_script o = false /\ exists c, o_chan o = Some c /\ chan_valid o c)
  end.

(** what the loop adds for an output (the value the code counts as coming back) *)
Definition counted (o : output) : N :=
  match o_path o with
  | NoPath => 0
  | WalletPath =>
      match o_can_spend o, o_allow_path o with
      | Some true, _ => o_value o
      | Some false, Some true => o_value o
      | _, _ => 0
      end
  | EmptyPath =>
      if o_allow_script o then o_value o
      else match o_chan o with
           | Some c => c_value c - c_push_msat c / 1000
           | None => 0
           end
  end.

(** for an arbitrary filter: beneficial, or let through by a downgraded tag *)
Definition passable (warn : otag -> bool) (o : output) : Prop :=
  match o_path o with
  | NoPath => False
  | WalletPath =>
      o_can_spend o = Some true \/
      (o_can_spend o = Some false /\
       (o_allow_path o = Some true \/
        (o_allow_path o = Some false /\ warn T_no_unknown_outputs = true)))
  | EmptyPath =>
      o_allow_script o = true \/
      (o_allow_script o = false /\ exists c, o_chan o = Some c /\ chan_valid_w warn o c)
  end.

Definition out_values (outs : list output) : list N := map o_value outs.

(** an output that does not stop the loop by itself: beneficial, let through, or unknown *)
Definition quiet (warn : otag -> bool) (o : output) : Prop :=
  match effect warn o with EErr _ | EPanic => False | _ => True end.

(** * MemoApprover (vls-protocol-signer/src/approver.rs): explicit approvals, used once

    [approve] replaces the memorized approvals; every on-chain request drains them all and is
    approved iff the very transaction (identity: inputs, outputs, locktime, version — [==] on
    [Transaction]) was among them, otherwise the delegate decides.  Transactions enter as
    identities. *)
Inductive mop :=
| MSet (txs : list N)    (* MemoApprover::approve(vec![Approval::Onchain(tx), ...]) *)
| MAsk (tx : N).         (* approve_onchain(tx, ..) *)

Definition mstep (delegate : N -> bool) (memo : list N) (o : mop) : list N * option bool :=
  match o with
  | MSet txs => (txs, None)
  | MAsk tx => ([], Some (existsb (N.eqb tx) memo || delegate tx))
  end.

Fixpoint mrun (delegate : N -> bool) (memo : list N) (ops : list mop) : list N * list bool :=
  match ops with
  | [] => (memo, [])
  | o :: r =>
      let '(m1, a) := mstep delegate memo o in
      let '(m2, answers) := mrun delegate m1 r in
      (m2, match a with Some b => b :: answers | None => answers end)
  end.
