(** C20 — lock-free counters (definitions only).

    The key manager hands out channel ids, entropy and base-point indices from atomic counters
    that are used before (or without) any mutex.  A request's use of such a counter is a small
    program over three events: [Rmw] - one atomic read-modify-write (fetch_add: returns the old
    value and stores old+1 in ONE step), [Ld] - an atomic load into a thread-local register,
    [St] - an atomic store of register+1, handing out the loaded value.  The programs of the real
    code are read from the source on every run (tools/gen_locks.py atomic_programs) and written to
    Gen/LockProgs.v [counter_progs]. *)
From Coq Require Export List NArith Bool Arith Lia.
Export ListNotations.
Open Scope N_scope.

Inductive aop := Rmw | Ld | St.

Record athread := mkA { aprog : list aop; areg : option N }.

(** counter value, threads, the values handed out so far (newest first) *)
Record astate := mkS { cnt : N; thr : list athread; handed : list N }.

Fixpoint aupd (ts : list athread) (n : nat) (t' : athread) : list athread :=
  match ts, n with
  | [], _ => []
  | _ :: r, O => t' :: r
  | x :: r, S k => x :: aupd r k t'
  end.

(** thread [n] performs its next event *)
Definition astep (s : astate) (n : nat) : option astate :=
  match nth_error (thr s) n with
  | None => None
  | Some t =>
      match aprog t with
      | [] => None
      | Rmw :: r => Some (mkS (cnt s + 1) (aupd (thr s) n (mkA r (areg t))) (cnt s :: handed s))
      | Ld :: r => Some (mkS (cnt s) (aupd (thr s) n (mkA r (Some (cnt s)))) (handed s))
      | St :: r =>
          match areg t with
          | Some v => Some (mkS (v + 1) (aupd (thr s) n (mkA r None)) (v :: handed s))
          | None => None
          end
      end
  end.

(** a schedule: which thread moves next; [None] when a chosen thread cannot move *)
Fixpoint arun (s : astate) (sched : list nat) : option astate :=
  match sched with
  | [] => Some s
  | n :: r => match astep s n with Some s' => arun s' r | None => None end
  end.

Definition ainit (c0 : N) (ps : list (list aop)) : astate := mkS c0 (map (fun p => mkA p None) ps) [].

(** the discipline: every write to the counter is a read-modify-write (loads alone are reads) *)
Definition no_store (p : list aop) : bool :=
  forallb (fun o => match o with St => false | _ => true end) p.
