(** Model of the channel bookkeeping of vls-core/src/node.rs that decides when channel state
    is discarded and which node-assigned ids may be used: [Node::new_channel] /
    [find_or_create_channel], [setup_channel] (+ the registration of the funding inputs when
    the funding transaction is signed), [forget_channel], [prune_channels] (called from
    [get_heartbeat]), the delivery of connected / disconnected blocks to every channel's
    monitor through the tracker, and [Node::restore_node] (a restart from the store).
    Built on the monitor model (Model/Monitor.v): a ready channel carries a [mon].
    Definitions only.

    What a restart sees.  Everything this model speaks about is written to the store by
    the operation that changes it (the stub entry by new_channel, the channel entry and the
    tracker entry by setup_channel, the node entry by forget_channel when the high-water
    mark moves, the deletion of a channel entry by forget_channel / prune_channels, the
    tracker entry after every connected / disconnected block).  The forget flag lives in
    monitor::State, which is stored inside the TRACKER entry; the store therefore has its
    own copy of the flag ([forgot_disk]) that is brought up to date by every tracker write
    ([flush]), and a restart takes the stored copy.  Since the repair "persist the forget
    flag when the node forgets a channel" forget_channel writes the tracker entry itself
    ([forget_flush = true]); before it wrote the channel entry only, so the flag was lost
    by a restart that came before the next tracker write ([forget_flush = false]; finding
    F10, C11's subject).  Every theorem of C15 holds for both. *)
From VLS Require Export Base.U64 Model.Monitor.

(** a channel id as the handler forms it: (peer id, dbid); the high-water mark compares
    the dbid only *)
Definition chanid : Type := (N * N)%type.
Definition dbid (c : chanid) : N := snd c.

(** vls-core/src/node.rs; [MIN_DEPTH] is in Model/Monitor.v.  The harness reads the three
    constants from the source of the tree under test on every run and the check compares
    them with these. *)
Definition CHANNEL_STUB_PRUNE_BLOCKS : N := 6.
Definition REGTEST_STUB_EXTRA : N := 100.
Definition model_consts : N * N * N := (MIN_DEPTH, CHANNEL_STUB_PRUNE_BLOCKS, REGTEST_STUB_EXTRA).

Record params := mkparams { regtest : bool; max_channels : N; forget_flush : bool }.
Definition stub_prune_time (p : params) : N :=
  if regtest p then CHANNEL_STUB_PRUNE_BLOCKS + REGTEST_STUB_EXTRA else CHANNEL_STUB_PRUNE_BLOCKS.

(** bookkeeping that the implementation does not have (never observed, never branched on):
    whether the node asked to forget the channel, and the channel's view of the chain: the
    blocks that its monitor connected and that were not disconnected since ([g_view], tip
    first), on top of height [g_h0].  A block disconnected when the view is empty (a reorg
    below the height at which the channel was set up) lowers [g_h0]. *)
Record ghost := mkgh { g_asked : bool; g_h0 : N; g_view : list block }.

Inductive slot :=
| Stub (created : N)                       (* ChannelStub.blockheight *)
| Ready (g : cfg) (alias : bool)           (* a permanent channel id was supplied: a second key *)
        (m : mon)
        (forgot : bool)                    (* saw_forget_channel, in memory *)
        (forgot_disk : bool)               (* ... in the stored tracker entry *)
        (gh : ghost).

Definition is_ready (sl : slot) : bool := match sl with Ready _ _ _ _ _ _ => true | Stub _ => false end.

(** the channel map, ordered by key *)
Definition cmap : Type := list (chanid * slot).
Fixpoint cfind (id : chanid) (l : cmap) : option slot :=
  match l with
  | [] => None
  | (k, v) :: r => if op_eqb id k then Some v else cfind id r
  end.
Fixpoint cput (id : chanid) (v : slot) (l : cmap) : cmap :=
  match l with
  | [] => [(id, v)]
  | (k, w) :: r => match ocmp id k with
                   | Lt => (id, v) :: l
                   | Eq => (id, v) :: r
                   | Gt => (k, w) :: cput id v r
                   end
  end.
Definition cdel (id : chanid) (l : cmap) : cmap := filter (fun p => negb (op_eqb id (fst p))) l.

Record node := mknode {
  chans : cmap;
  hwm : N;                  (* NodeState.dbid_high_water_mark *)
  theight : N;              (* tracker height *)
  chain : list block        (* the blocks connected since the start that survive, tip first *)
}.
Definition init_node (h : N) : node := mknode [] 0 h [].

Inductive nop :=
| NewChannel (id : chanid)
| Setup (id : chanid) (alias : bool) (g : cfg)
| Forget (id : chanid)
| Heartbeat
| AddBlock (b : block)
| RemoveBlock
| Restart.

Inductive refusal := EReuse | EFull | ENoChannel | EDifferentSetup | ENoBlock.
Inductive outcome := Done | Refused (e : refusal).

(** keys of the in-memory map: one per slot, two for a ready channel with a permanent id *)
Definition nkeys (l : cmap) : N :=
  fold_right (fun p acc => acc + match snd p with Ready _ true _ _ _ _ => 2 | _ => 1 end) 0 l.

Definition cfg_eqb (a b : cfg) : bool :=
  (ftxid a =? ftxid b) && (fvout a =? fvout b)
  && (fix eqs (x y : list outpoint) : bool :=
        match x, y with
        | [], [] => true
        | p :: x', q :: y' => op_eqb p q && eqs x' y'
        | _, _ => false
        end) (finputs a) (finputs b).

(** a write of the tracker entry *)
Definition flush_slot (sl : slot) : slot :=
  match sl with Ready g a m f _ gh => Ready g a m f f gh | s => s end.
Definition flush (l : cmap) : cmap := map (fun p => (fst p, flush_slot (snd p))) l.

Definition restart_slot (sl : slot) : slot :=
  match sl with Ready g a m _ fd gh => Ready g a m fd fd gh | s => s end.

Definition gh_push (gh : ghost) (o : op) : ghost :=
  match o with
  | Add b => mkgh (g_asked gh) (g_h0 gh) (b :: g_view gh)
  | Remove _ => match g_view gh with
                | [] => mkgh (g_asked gh) (g_h0 gh - 1) []
                | _ :: v => mkgh (g_asked gh) (g_h0 gh) v
                end
  end.

(** notify_listeners_add / _remove over all listeners *)
Definition deliver_slot (f : cfg -> mon -> res mon) (o : op) (sl : slot) : res slot :=
  match sl with
  | Ready g a m fg fd gh => m' <- f g m ;; Ok (Ready g a m' fg fd (gh_push gh o))
  | s => Ok s
  end.
Fixpoint deliver (f : cfg -> mon -> res mon) (o : op) (l : cmap) : res cmap :=
  match l with
  | [] => Ok []
  | (id, sl) :: r =>
      sl' <- deliver_slot f o sl ;;
      r' <- deliver f o r ;;
      Ok ((id, sl') :: r')
  end.

(** prune_channels: what goes *)
Definition prunable (p : params) (h : N) (sl : slot) : bool :=
  match sl with
  | Ready _ _ m fg _ _ => is_done (m_state m) fg
  | Stub c => stub_prune_time p <? h - c          (* saturating_sub *)
  end.

Definition with_chans (s : node) (l : cmap) : node := mknode l (hwm s) (theight s) (chain s).

Definition step (p : params) (s : node) (o : nop) : res (node * outcome) :=
  match o with
  | NewChannel id =>
      if dbid id <=? hwm s then Ok (s, Refused EReuse)
      else if max_channels p <=? nkeys (chans s) then Ok (s, Refused EFull)
      else match cfind id (chans s) with
           | Some _ => Ok (s, Done)
           | None => Ok (with_chans s (cput id (Stub (theight s)) (chans s)), Done)
           end
  | Setup id alias g =>
      match cfind id (chans s) with
      | None => Ok (s, Refused ENoChannel)
      | Some (Ready g' _ _ _ _ _) => if cfg_eqb g g' then Ok (s, Done) else Ok (s, Refused EDifferentSetup)
      | Some (Stub _) =>
          let sl := Ready g alias (init_mon g (theight s)) false false (mkgh false (theight s) []) in
          Ok (with_chans s (flush (cput id sl (chans s))), Done)
      end
  | Forget id =>
      match cfind id (chans s) with
      | None => Ok (s, Done)
      | Some (Stub _) => Ok (mknode (cdel id (chans s)) (N.max (hwm s) (dbid id)) (theight s) (chain s), Done)
      | Some (Ready g a m _ fd gh) =>
          let l := cput id (Ready g a m true fd (mkgh true (g_h0 gh) (g_view gh))) (chans s) in
          Ok (mknode (if forget_flush p then flush l else l)
                     (N.max (hwm s) (dbid id)) (theight s) (chain s), Done)
      end
  | Heartbeat =>
      let keep := filter (fun x => negb (prunable p (theight s) (snd x))) (chans s) in
      let tracker_modified := existsb (fun x => is_ready (snd x) && prunable p (theight s) (snd x)) (chans s) in
      Ok (with_chans s (if tracker_modified then flush keep else keep), Done)
  | AddBlock b =>
      if U32MAX <=? theight s then Abort else
      l <- deliver (fun g m => madd g m b) (Add b) (chans s) ;;
      Ok (mknode (flush l) (hwm s) (theight s + 1) (b :: chain s), Done)
  | RemoveBlock =>
      match chain s with
      | [] => Ok (s, Refused ENoBlock)
      | b :: rest =>
          l <- deliver (fun g m => mremove repaired g m b) (Remove b) (chans s) ;;
          Ok (mknode (flush l) (hwm s) (theight s - 1) rest, Done)
      end
  | Restart => Ok (with_chans s (map (fun x => (fst x, restart_slot (snd x))) (chans s)), Done)
  end.

(** a history; [Abort] (a panic of the signer) ends it *)
Fixpoint nrun (p : params) (s : node) (ops : list nop) : res node :=
  match ops with
  | [] => Ok s
  | o :: r => '(s', _) <- step p s o ;; nrun p s' r
  end.

(** * Admissible block histories: what is connected keeps the chain consistent for every
    ready channel (no outpoint spent twice, unique transaction ids, inputs refer to earlier
    transactions, see Model/Monitor.v) and satisfies the listener's own assertions *)
Definition block_ok_for (b : block) (sl : slot) : bool :=
  match sl with
  | Ready g _ _ _ _ gh => consistent g (rev (b :: g_view gh)) && chain_wf g [b]
  | Stub _ => true
  end.
Definition op_ok (s : node) (o : nop) : bool :=
  match o with
  | AddBlock b => forallb (fun x => block_ok_for b (snd x)) (chans s)
  | _ => true
  end.
Fixpoint hist_admissible (p : params) (s : node) (ops : list nop) : bool :=
  match ops with
  | [] => true
  | o :: r => op_ok s o && match step p s o with Ok (s', _) => hist_admissible p s' r | Abort => true end
  end.

(** * Preimages: which HTLC outputs of a confirmed commitment are the node's to claim
    ([Channel::get_spendable_htlc_indices]) depends on the preimages the signer knows when the
    commitment transaction is decoded.  This layer makes that dependency explicit: a block is
    given with transactions whose classification may need a preimage, and is resolved against
    the preimages the signer knows at that moment.  The signer learns preimages through
    [Channel::htlcs_fulfilled] ([PFulfill]); they live in NodeState.payments and reach the store
    with the node entry.  [fulfill_flush = true]: htlcs_fulfilled writes the node entry itself
    (the code since the repair "persist the node entry when htlcs_fulfilled records a
    preimage"); [false]: it does not, and the preimage survives a restart only if some later
    request happened to write the node entry. *)
Inductive pclose :=
| PFixed (k : close_kind)
| PNeeds (h : N) (known unknown : close_kind).     (* payment hash; classification with / without its preimage *)
Record ptx := mkptx { p_id : N; p_ins : list outpoint; p_nout : N; p_close : pclose }.
Definition resolve (kn : list N) (t : ptx) : tx :=
  mktx (p_id t) (p_ins t) (p_nout t)
       (match p_close t with
        | PFixed k => k
        | PNeeds h a b => if mem_N h kn then a else b
        end).

Record pnode := mkpnode {
  pn : node;
  known : list N;          (* preimages in NodeState.payments *)
  known_disk : list N;     (* preimages in the stored node entry *)
  given : list N;          (* bookkeeping: every preimage that was ever handed to the signer *)
  pchain : list (list ptx) (* bookkeeping: the connected blocks as they were given, tip first *)
}.
Definition init_pnode (h : N) : pnode := mkpnode (init_node h) [] [] [] [].

Inductive pop :=
| PLift (o : nop)            (* an operation of the node; AddBlock with a block that needs no preimage *)
| PAdd (b : list ptx)
| PFulfill (h : N)
| PWriteNode.                (* any other request that writes the node entry (add_invoice, add_keysend, ...) *)

(** the node operations that write the node entry themselves: forget_channel when the mark
    moves, setup_channel + signing the funding transaction *)
Definition writes_node_entry (s : node) (o : nop) : bool :=
  match o with
  | Forget id => match cfind id (chans s) with Some _ => hwm s <? dbid id | None => false end
  | Setup id _ _ => match cfind id (chans s) with Some (Stub _) => true | _ => false end
  | _ => false
  end.

Definition pstep (ff : bool) (p : params) (s : pnode) (o : pop) : res (pnode * outcome) :=
  match o with
  | PLift o =>
      '(n', out) <- step p (pn s) o ;;
      let kn := match o with Restart => known_disk s | _ => known s end in
      let kd := if writes_node_entry (pn s) o then kn else known_disk s in
      let pc := match o, out with
                | AddBlock b, Done => map (fun t => mkptx (tx_id t) (tx_ins t) (tx_nout t) (PFixed (tx_close t))) b :: pchain s
                | RemoveBlock, Done => tl (pchain s)
                | _, _ => pchain s
                end in
      Ok (mkpnode n' kn kd (given s) pc, out)
  | PAdd b =>
      '(n', out) <- step p (pn s) (AddBlock (map (resolve (known s)) b)) ;;
      Ok (mkpnode n' (known s) (known_disk s) (given s) (b :: pchain s), out)
  | PFulfill h =>
      Ok (mkpnode (pn s) (h :: known s) (if ff then h :: known s else known_disk s) (h :: given s) (pchain s), Done)
  | PWriteNode => Ok (mkpnode (pn s) (known s) (known s) (given s) (pchain s), Done)
  end.

Fixpoint prun (ff : bool) (p : params) (s : pnode) (ops : list pop) : res pnode :=
  match ops with
  | [] => Ok s
  | o :: r => '(s', _) <- pstep ff p s o ;; prun ff p s' r
  end.

(** the chain as it really is: every transaction classified with the preimages that were
    handed to the signer, oldest block first *)
Definition true_chain (s : pnode) : list block := map (map (resolve (given s))) (rev (pchain s)).
