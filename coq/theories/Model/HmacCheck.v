(** Executable side of the C17 correspondence.  [mac] is a parameter of the model, so the
    model cannot print a tag; it prints, for every case, exactly what it would hand to [mac]
    (key and message) and what it would compare the result with.  The driver feeds these
    bytes to a reference HMAC-SHA256 and compares with what the real functions returned.
    [hquery_*_spec] in Proofs/HmacProofs.v state that this is all there is to the model's
    answer. *)
From VLS Require Export Base.Eqb Model.Hmac.

#[global] Instance Eqb_cls : Eqb cls :=
  fun x y => match x, y with
             | NonceKey, NonceKey | KeyVersion, KeyVersion | MergeSplit, MergeSplit => true
             | _, _ => false
             end.

Inductive hcase :=
| CShared (secret nonce : bytes) (rs : list record)
    (* compute_shared_hmac (vls-core and storage-server), client_hmac / server_hmac *)
| CCheck (secret : bytes) (nonces : list bytes) (rs : list record) (received : bytes)
    (* ExternalPersistHelper::new(secret); new_nonce for each of [nonces]; check_hmac *)
| CValue (secret key : bytes) (ver : N) (val : bytes)          (* prepare_value_for_put *)
| CGet (secret key : bytes) (ver : N) (stored : bytes)         (* process_value_from_get *)
| CPair (secret : bytes) (a b : input)                         (* two inputs with one tag *)
| CNonces (ns : list bytes)       (* the nonces of one client's consecutive reads, as sent *)
| CInit (secret nonce : bytes) (rs : list record) (tag : bytes)
    (* init_state / new_nonce + get + check_hmac: the reply (rs, tag) as delivered to a read that
       sent [nonce] *)
| COpen (hmac_secret : bytes) (kvs : list wrecord).
    (* remove_and_check_hmacs on the records of a get reply / of a put-conflict reply, versions as
       the i64 on the wire *)

Definition cls_code (c : option cls) : N :=
  match c with
  | None => 0
  | Some NonceKey => 1
  | Some KeyVersion => 2
  | Some MergeSplit => 3
  end.

Definition b2n (b : bool) : N := if b then 1 else 0.

(** the nonce the helper holds after the calls of a [CCheck] case *)
Definition effective_nonce (secret : bytes) (nonces : list bytes) : bytes :=
  last_nonce (fold_left new_nonce nonces (helper_new secret)).

(** the pairs of inputs proved to collide in Props/C17.v, numbered from 1 *)
Definition witnesses : list (input * input) :=
  [ (([], [wit_kv_a]), ([], [wit_kv_b]));
    (([1], wit_ms_a), ([1], wit_ms_b));
    (wit_nk_a, wit_nk_b);
    (([1], wit_put_rs), (wit_get_nonce, wit_get_rs)) ].

Fixpoint index_of {A} (e : A -> bool) (i : N) (l : list A) : N :=
  match l with
  | [] => 0
  | x :: t => if e x then i else index_of e (i + 1) t
  end.

(** What the model hands to [mac] and compares:
    - CShared: [key; message]
    - CCheck : [key; message; received]            (accept iff received = mac key message)
    - CValue : [key; message; value]               (stored = value ‖ mac key message)
    - CGet   : [] when shorter than 32, else [key; message; claimed tag; value]
               (accept, returning value, iff claimed tag = mac key message)
    - CPair  : [[serialisations equal]; [class]; [inputs equal]; [index in witnesses]]
    - CNonces: [[nonces_fresh]]                    (the premise of the replay theorems)
    - CInit  : [key; message; delivered tag]       (accept, returning rs, iff tag = mac key message)
    - COpen  : per record, in order: [[0]] when it is shorter than 32 bytes, else
               [[1]; key; message; claimed tag; value]; the call succeeds (returning the values) iff
               no record is short and every claimed tag = mac key message, else it fails at the
               first record that is short or mismatches *)
Definition hquery (c : hcase) : list bytes :=
  match c with
  | CShared s n rs => [s; ser_shared s n rs]
  | CCheck s ns rs recv => [s; ser_shared s (effective_nonce s ns) rs; recv]
  | CValue s k v x => [s; ser_value k v x; x]
  | CGet s k v st =>
      match split_tag st with
      | None => []
      | Some (y, t) => [s; ser_value k v y; t; y]
      end
  | CPair s a b =>
      [ [b2n (beq (ser_input s a) (ser_input s b))];
        [cls_code (in_diff a b)];
        [b2n (beq a b)];
        [index_of (fun w => beq w (a, b)) 1 witnesses] ]
  | CNonces ns => [[b2n (nonces_fresh ns)]]
  | CInit s n rs t => [s; ser_shared s n rs; t]
  | COpen hs kvs =>
      flat_map (fun r : wrecord =>
                  let '(k, v, st) := r in
                  match split_tag st with
                  | None => [[0]]
                  | Some (y, t) => [[1]; hs; ser_value k (wire_version v) y; t; y]
                  end) kvs
  end.
