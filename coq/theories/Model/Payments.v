(** Model of the node-wide payment bookkeeping:
    vls-core/src/policy/validator.rs (EnforcementState::payments_summary /
    incoming_payments_summary), vls-core/src/node.rs (NodeState::validate_payments,
    apply_payments, add_invoice / add_keysend, restore), vls-core/src/channel.rs (which request
    validates and which applies: sign_counterparty_commitment_tx = validate + apply,
    validate_holder_commitment_tx = validate, revoke_previous_holder_commitment = validate +
    apply, restore_payments) and SimpleValidator::validate_payment_balance.
    Amounts are satoshi unless a name ends in [msat].  Definitions only. *)
From VLS Require Export Base.U64.

(** one side of a commitment: payment hash -> summed HTLC value (entries are positive) *)
Definition hmap := list (N * N).

Fixpoint hget (m : hmap) (h : N) : N :=
  match m with
  | [] => 0
  | (k, v) :: r => if k =? h then v else hget r h
  end.
Fixpoint hhas (m : hmap) (h : N) : bool :=
  match m with
  | [] => false
  | (k, _) :: r => (k =? h) || hhas r h
  end.
Definition hkeys (m : hmap) : list N := map fst m.

(** a commitment as far as payments go, from the node's point of view:
    [c_out] = HTLCs the node offers (holder tx: offered; counterparty tx: received),
    [c_in]  = HTLCs offered to the node *)
Record content := mkCt { c_out : hmap; c_in : hmap }.

Record pchan := mkPC {
  hcur : option content;      (* current_holder_commit_info *)
  ccur : option content;      (* current_counterparty_commit_info *)
  hnxt : option content       (* next_holder_commit_info *)
}.

Definition oout (c : option content) : hmap := match c with Some x => c_out x | None => [] end.
Definition oin (c : option content) : hmap := match c with Some x => c_in x | None => [] end.
Definition opt_or {A} (a b : option A) : option A := match a with Some _ => a | None => b end.

(** payments_summary (new_holder_tx, new_counterparty_tx): value and key set *)
Definition out_val (p : pchan) (nh nc : option content) (h : N) : N :=
  N.max (hget (oout (opt_or nh (hcur p))) h) (hget (oout (opt_or nc (ccur p))) h).
Definition out_keys (p : pchan) (nh nc : option content) : list N :=
  hkeys (oout (opt_or nh (hcur p))) ++ hkeys (oout (opt_or nc (ccur p)))
  ++ hkeys (oout (hcur p)) ++ hkeys (oout (ccur p)).

(** incoming_payments_summary: only what both transactions contain, the smaller value *)
Definition in_val (p : pchan) (nh nc : option content) (h : N) : N :=
  let hm := oin (opt_or nh (hcur p)) in
  let cm := oin (opt_or nc (ccur p)) in
  if hhas hm h && hhas cm h then N.min (hget hm h) (hget cm h) else 0.
Definition in_keys (p : pchan) (nh nc : option content) : list N :=
  filter (hhas (oin (opt_or nc (ccur p)))) (hkeys (oin (opt_or nh (hcur p))))
  ++ hkeys (oin (hcur p)) ++ hkeys (oin (ccur p)).

Definition sum_keys (p : pchan) (nh nc : option content) : list N :=
  in_keys p nh nc ++ out_keys p nh nc.

(** the node: invoices, the set of hashes with a payment record, the ledger *)
Record pnode := mkPN {
  inv : N -> option N;            (* invoices: hash -> amount_msat *)
  known : N -> bool;              (* payments.contains_key(hash) *)
  led : N -> N -> N * N;          (* hash -> channel -> (incoming_sat, outgoing_sat) *)
  chans : N -> pchan;
  pre : N -> bool                 (* the payment record carries the preimage (RoutedPayment::preimage) *)
}.

Definition upd {A} (f : N -> A) (k : N) (v : A) : N -> A := fun x => if x =? k then v else f x.

(** channel ids are 0 .. nch-1 *)
Fixpoint chan_ids (n : nat) : list N :=
  match n with O => [] | S m => chan_ids m ++ [N.of_nat m] end.

Section Node.
Variable nch : nat.                 (* number of channels of the node *)
Variable max_fee_msat : N.          (* policy.max_routing_fee_msat *)
Variable max_fee_pct : N.           (* policy.max_feerate_percentage *)

Definition in_total (s : pnode) (h : N) : N := sum_N (map (fun c => fst (led s h c)) (chan_ids nch)).
Definition out_total (s : pnode) (h : N) : N := sum_N (map (fun c => snd (led s h c)) (chan_ids nch)).

(** SimpleValidator::validate_payment_balance *)
Definition balance_ok (incoming_msat outgoing_msat : N) (invoiced : option N) : bool :=
  let max_to_invoice := match invoiced with Some a => a + max_fee_msat | None => 0 end in
  if incoming_msat + max_to_invoice <? outgoing_msat then false
  else match invoiced with
       | None => true
       | Some a =>
           if outgoing_msat <? a + incoming_msat then true
           else negb (max_fee_pct <? ((outgoing_msat - a - incoming_msat) * 100) / N.max a 1)
       end.

(** totals if channel [ch] updates to [(i, o)] for hash [h] (updated_incoming_outgoing) *)
Definition upd_totals (s : pnode) (h ch i o : N) : N * N :=
  (in_total s h + i - fst (led s h ch), out_total s h + o - snd (led s h ch)).

(** NodeState::validate_payments for one hash: accepted, or tolerated for an uninvoiced hash
    that already has a payment record (issue 331) *)
Definition hash_ok (s : pnode) (ch : N) (p : pchan) (nh nc : option content) (h : N) : bool :=
  let '(i, o) :=
    if known s h then upd_totals s h ch (in_val p nh nc h) (out_val p nh nc h)
    else (in_val p nh nc h, out_val p nh nc h) in
  balance_ok (i * 1000) (o * 1000) (inv s h)
  || (known s h && match inv s h with None => true | Some _ => false end).

Definition validate_payments (s : pnode) (ch : N) (nh nc : option content) : bool :=
  forallb (hash_ok s ch (chans s ch) nh nc) (sum_keys (chans s ch) nh nc).

(** NodeState::apply_payments *)
Definition apply_one (p : pchan) (nh nc : option content) (ch : N)
  (acc : (N -> bool) * (N -> N -> N * N)) (h : N) : (N -> bool) * (N -> N -> N * N) :=
  (upd (fst acc) h true,
   upd (snd acc) h (upd (snd acc h) ch (in_val p nh nc h, out_val p nh nc h))).

Definition apply_payments (s : pnode) (ch : N) (nh nc : option content) : pnode :=
  let '(k, l) := fold_left (apply_one (chans s ch) nh nc ch)
                           (sum_keys (chans s ch) nh nc) (known s, led s) in
  mkPN (inv s) k l (chans s) (pre s).

Definition set_chan (s : pnode) (ch : N) (p : pchan) : pnode :=
  mkPN (inv s) (known s) (led s) (upd (chans s) ch p) (pre s).

Inductive pop :=
| PAddInvoice (h amount_msat : N)
| PSignCp (ch : N) (c : content) (other_ok : bool)   (* [other_ok]: every non-payment check passed *)
| PValidateHolder (ch : N) (c : content) (other_ok : bool)
| PRevoke (ch : N)
| PFulfil (h : N)      (* Channel::htlcs_fulfilled with the preimage of hash [h] *)
| PHeartbeat           (* Node::get_heartbeat: prunes payment records that carry nothing *)
| PRestart.

(** restore: the ledger is rebuilt from the current commitments of every channel
    (Channel::restore_payments), payment records exist for invoices and for what is in flight *)
Definition restore_chan (acc : (N -> bool) * (N -> N -> N * N)) (chp : N * pchan)
  : (N -> bool) * (N -> N -> N * N) :=
  fold_left (apply_one (snd chp) None None (fst chp)) (sum_keys (snd chp) None None) acc.

Definition restore (s : pnode) : pnode :=
  let k0 := fun h => match inv s h with Some _ => true | None => pre s h end in
  let '(k, l) := fold_left restore_chan (map (fun c => (c, chans s c)) (chan_ids nch))
                           (k0, fun _ _ => (0, 0)) in
  mkPN (inv s) k l (chans s) (pre s).

Definition in_range (ch : N) : bool := ch <? N.of_nat nch.

Definition prunable (s : pnode) (h : N) : bool :=
  match inv s h with
  | Some _ => false
  | None => (in_total s h =? 0) && (out_total s h =? 0)
  end.

Definition pstep (s : pnode) (o : pop) : pnode * bool :=
  match o with
  | PAddInvoice h a =>
      match inv s h with
      | Some _ => (s, true)          (* same invoice again *)
      | None => (mkPN (upd (inv s) h (Some a)) (upd (known s) h true) (led s) (chans s) (pre s), true)
      end
  | PSignCp ch c ok =>
      if negb (in_range ch) || negb ok then (s, false)
      else if negb (validate_payments s ch None (Some c)) then (s, false)
      else
        let s1 := apply_payments s ch None (Some c) in
        let p := chans s ch in
        (set_chan s1 ch (mkPC (hcur p) (Some c) (hnxt p)), true)
  | PValidateHolder ch c ok =>
      if negb (in_range ch) || negb ok then (s, false)
      else if negb (validate_payments s ch (Some c) None) then (s, false)
      else
        let p := chans s ch in
        (set_chan s ch (mkPC (hcur p) (ccur p) (Some c)), true)
  | PRevoke ch =>
      if negb (in_range ch) then (s, false)
      else match hnxt (chans s ch) with
           | None => (s, false)
           | Some c =>
               (* the node-wide payment state may have changed since the commitment was
                  validated: it is validated again before it is applied *)
               if negb (validate_payments s ch (Some c) None) then (s, false)
               else
                 let s1 := apply_payments s ch (Some c) None in
                 let p := chans s ch in
                 (set_chan s1 ch (mkPC (Some c) (ccur p) None), true)
           end
  | PFulfil h =>
      (* NodeState::htlc_fulfilled records the preimage in a payment entry that EXISTS and marks
         an issued invoice; it creates no entry and changes no in-flight amount (the balance
         register it feeds is only read under enforce_balance, which the policies here leave
         off).  Node::htlcs_fulfilled writes the node entry at once (b4eb03c), and the node
         entry lists the preimages: a restart brings the record back *)
      (mkPN (inv s) (known s) (led s) (chans s) (fun x => pre s x || ((x =? h) && known s h)), true)
  | PHeartbeat =>
      (* prune_forwarded_payments: a record without approval and without value in flight on any
         channel is dropped; approvals are pruned only after their expiry (the clock of the
         histories considered here does not reach it) *)
      (mkPN (inv s) (fun h => known s h && negb (prunable s h)) (led s) (chans s)
            (fun h => pre s h && negb (prunable s h)), true)
  | PRestart => (restore s, true)
  end.

(** revocation as it was before the repair: applies without validating again *)
Definition prevoke_old (s : pnode) (ch : N) : pnode * bool :=
  match hnxt (chans s ch) with
  | None => (s, false)
  | Some c =>
      let s1 := apply_payments s ch (Some c) None in
      let p := chans s ch in
      (set_chan s1 ch (mkPC (Some c) (ccur p) None), true)
  end.

Definition empty_ct : content := mkCt [] [].
(** channels are observed from the point where the initial commitments exist *)
Definition pinit : pnode :=
  mkPN (fun _ => None) (fun _ => false) (fun _ _ => (0, 0))
       (fun _ => mkPC (Some empty_ct) (Some empty_ct) None) (fun _ => false).

Fixpoint prun (s : pnode) (ops : list pop) : pnode :=
  match ops with
  | [] => s
  | o :: r => prun (fst (pstep s o)) r
  end.

End Node.
