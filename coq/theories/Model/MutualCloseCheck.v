(** Executable comparison of Model/MutualClose.v with observations of the real validator and
    of real channels (evaluated by [vm_compute] in generated case files).  The wallet and the
    allowlist are finite answer tables recorded from the real [Node] for the (path, script)
    pairs of the request; signatures are symbolic: the model "signs" by returning the
    transaction and the amount whose digest is signed, the harness verifies the real signature
    against the digest of the transaction it reports. *)
From VLS Require Export Base.Eqb Model.MutualClose.

Definition tag_code (t : tag) : N :=
  match t with
  | T_other => 0 | T_destination => 1 | T_no_htlcs => 2 | T_fee_range => 3
  | T_value_matches => 4 | T_scripts => 5 | T_format_standard => 6 | T_tx_format => 7
  end.

(** validator-level codes printed by the harness: 0 accepted, 1 panic, 100 + tag refused *)
Definition res_code (r : res) : N :=
  match r with Ok => 0 | Panic => 1 | Err t => 100 + tag_code t end.
Definition decoded_code (d : decoded) : N :=
  match d with DOk _ => 0 | DPanic => 1 | DErr t => 100 + tag_code t end.

(** channel-level codes: 0 signed, 1 panic, 2 failed precondition (any validation error),
    3 invalid argument, 4 internal (persist failed) *)
Definition outcome_code {A} (o : outcome A) : N :=
  match o with
  | Signed _ => 0
  | Aborted => 1
  | Refused (R_policy _) => 2
  | Refused R_invalid_argument => 3
  | Refused R_internal => 4
  end.

(** * Oracle tables *)

(** can_spend: 0 false, 1 true, 2 error *)
Definition cs_table : Type := list (path * script * N).
Definition al_table : Type := list (script * path * bool).

Fixpoint cs_lookup (tb : cs_table) (p : path) (s : script) : option N :=
  match tb with
  | [] => None
  | (p', s', a) :: r => if bytes_eqb p p' && bytes_eqb s s' then Some a else cs_lookup r p s
  end.
Fixpoint al_lookup (tb : al_table) (s : script) (p : path) : option bool :=
  match tb with
  | [] => None
  | (s', p', a) :: r => if bytes_eqb p p' && bytes_eqb s s' then Some a else al_lookup r s p
  end.
Definition can_spend_of (tb : cs_table) (p : path) (s : script) : option bool :=
  match cs_lookup tb p s with
  | Some a => if a =? 0 then Some false else if a =? 1 then Some true else None
  | None => Some false
  end.
Definition allowlisted_of (tb : al_table) (s : script) (p : path) : bool :=
  match al_lookup tb s p with Some a => a | None => false end.

(** a missing table entry is a harness error: the check fails on it *)
Definition has_entry (cs : cs_table) (al : al_table) (p : path) (s : script) : bool :=
  negb (is_none (cs_lookup cs p s)) && negb (is_none (al_lookup al s p)).

(** * Cases *)

(** (filter rules, policy, can_spend table, allowlist table) *)
Definition env : Type := list rule * policy * cs_table * al_table.
(** (store answers the write, setup, enforcement state in memory, enforcement state in the store) *)
Definition state : Type := bool * setup * estate * estate.

Definition estate_eqb (a b : estate) : bool :=
  let info_eqb (x y : cinfo) :=
    (to_broadcaster x =? to_broadcaster y) && (to_countersigner x =? to_countersigner y) &&
    (n_offered x =? n_offered y) && (n_received x =? n_received y) in
  let oi (x y : option cinfo) :=
    match x, y with Some u, Some v => info_eqb u v | None, None => true | _, _ => false end in
  oi (holder_info a) (holder_info b) && oi (cp_info a) (cp_info b) && Bool.eqb (closed a) (closed b).

Definition opt_tx_eqb (a b : option tx) : bool :=
  match a, b with Some x, Some y => tx_eqb x y | None, None => true | _, _ => false end.

(** symbolic signing: the "signature" is the transaction and the amount that were hashed *)
Definition sym_sighash (t : tx) (amount : N) : tx * N := (t, amount).
Definition sym_sign (_ : unit) (m : tx * N) : tx * N := m.

Definition signed_tx (s : setup) (o : outcome (tx * N)) : option tx :=
  match o with
  | Signed (t, amount) => if amount =? channel_value s then Some t else None
  | _ => None
  end.

(** ** phase 2: (env, state, arguments,
                (validator code, channel code, transaction the signature verifies against,
                 enforcement state in memory afterwards, in the store afterwards)) *)
Definition obs2 : Type := N * N * option tx * estate * estate.
Definition close2_case : Type := env * state * close_args * obs2.

Definition close2_model (c : close2_case) : obs2 :=
  let '((rules, pol, cs, al), (pok, s, mem, disk), a, _) := c in
  let v := validate_mutual_close (warn_of rules) (can_spend_of cs) (allowlisted_of al) pol s mem a in
  let '(c', o) := sign_close_phase2 unit (tx * N) (tx * N) sym_sighash sym_sign tt
                    (warn_of rules) (can_spend_of cs) (allowlisted_of al) pol pok s
                    (mkChan mem disk) a in
  (res_code v, outcome_code o, signed_tx s o, c_mem c', c_disk c').

Definition obs2_eqb (x y : obs2) : bool :=
  let '(v1, c1, t1, m1, d1) := x in
  let '(v2, c2, t2, m2, d2) := y in
  (v1 =? v2) && (c1 =? c2) && opt_tx_eqb t1 t2 && estate_eqb m1 m2 && estate_eqb d1 d2.

Definition close2_complete (c : close2_case) : bool :=
  let '((_, _, cs, al), _, a, _) := c in
  match a_sh a with Some scr => has_entry cs al (a_path a) scr | None => true end.

Definition check_close2 (c : close2_case) : bool :=
  close2_complete c && obs2_eqb (close2_model c) (snd c).

(** ** phase 1: (env, state, (transaction, output paths),
                (decode code, the arguments of the returned ClosingTransaction
                 (to_holder, to_counterparty, holder script, counterparty script),
                 channel code, signed transaction, memory afterwards, store afterwards)) *)
Definition chosen : Type := N * N * script * script.
Definition obs1 : Type := N * option chosen * N * option tx * estate * estate.
Definition close1_case : Type := env * state * (tx * list path) * obs1.

Definition chosen_of (d : decoded) : option chosen :=
  match d with
  | DOk a => Some (a_vh a, a_vc a, unwrap_script (a_sh a), unwrap_script (a_sc a))
  | _ => None
  end.

Definition close1_model (c : close1_case) : obs1 :=
  let '((rules, pol, cs, al), (pok, s, mem, disk), (t, paths), _) := c in
  let d := decode_and_validate (warn_of rules) (can_spend_of cs) (allowlisted_of al) pol s mem t paths in
  let '(c', o) := sign_close_phase1 unit (tx * N) (tx * N) sym_sighash sym_sign tt
                    (warn_of rules) (can_spend_of cs) (allowlisted_of al) pol pok s
                    (mkChan mem disk) t paths in
  (decoded_code d, chosen_of d, outcome_code o, signed_tx s o, c_mem c', c_disk c').

Definition chosen_eqb (x y : option chosen) : bool :=
  match x, y with
  | Some (a1, b1, s1, t1), Some (a2, b2, s2, t2) =>
      (a1 =? a2) && (b1 =? b2) && bytes_eqb s1 s2 && bytes_eqb t1 t2
  | None, None => true
  | _, _ => false
  end.

Definition obs1_eqb (x y : obs1) : bool :=
  let '(v1, g1, c1, t1, m1, d1) := x in
  let '(v2, g2, c2, t2, m2, d2) := y in
  (v1 =? v2) && chosen_eqb g1 g2 && (c1 =? c2) && opt_tx_eqb t1 t2 &&
  estate_eqb m1 m2 && estate_eqb d1 d2.

(** every (path_i, script_i) of the request must have been asked of the real wallet *)
Fixpoint entries_complete (cs : cs_table) (al : al_table) (outs : list txout) (paths : list path) : bool :=
  match outs, paths with
  | o :: outs', p :: paths' => has_entry cs al p (o_script o) && entries_complete cs al outs' paths'
  | _, _ => true
  end.

Definition close1_complete (c : close1_case) : bool :=
  let '((_, _, cs, al), _, (t, paths), _) := c in
  if (length (tx_outs t) <=? 2)%nat && (length paths =? length (tx_outs t))%nat
  then entries_complete cs al (tx_outs t) paths else true.

Definition check_close1 (c : close1_case) : bool :=
  close1_complete c && obs1_eqb (close1_model c) (snd c).

(** ** the weight and the canonical transaction alone, against the real builders:
       ((to_holder, to_counterparty, holder script, counterparty script, funding outpoint),
        (transaction LDK built, mutual_close_tx_weight of it)) *)
Definition build_case : Type := (N * N * script * script * outpoint) * (tx * N).
Definition build_model (c : build_case) : tx * N :=
  let '((vh, vc, sh, sc, fo), _) := c in
  let t := canon_close (mkSetup true 0 None fo) vh vc sh sc in
  (t, close_weight (tx_outs t)).
Definition check_build (c : build_case) : bool :=
  let '(t, w) := build_model c in
  let '(t', w') := snd c in
  tx_eqb t t' && (w =? w').

(** coverage probe: a phase-1 case that was accepted by the SECOND attempt (the first,
    "likely", assignment failed validation); [first_attempt_or_refused] is false exactly there *)
Definition first_attempt_or_refused (c : close1_case) : bool :=
  let '((rules, pol, cs, al), (_, s, mem, _), (t, paths), _) := c in
  match decode_and_validate (warn_of rules) (can_spend_of cs) (allowlisted_of al) pol s mem t paths with
  | DOk _ =>
      match candidates pol mem (tx_outs t) paths with
      | Some (likely, _) =>
          match validate_mutual_close (warn_of rules) (can_spend_of cs) (allowlisted_of al) pol s mem likely with
          | Ok => true
          | _ => false
          end
      | None => true
      end
  | _ => true
  end.
