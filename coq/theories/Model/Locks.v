(** C20 — lock programs and their interleaving semantics (definitions only).

    A request of the signer is abstracted to its *lock program*: the sequence of mutex
    acquisitions, releases and accesses to mutex-protected values that it performs.  The
    programs of the real request kinds are recorded from the running code (instrumented
    [Mutex] under [--cfg vls_verif], harness [locks]) and written to [Gen/LockProgs.v] on
    every run; nothing in this file depends on them.

    A lock is a pair (class, instance): the class is the type of the protected value
    (node state, channel map, channel slot, chain tracker, ...), the instance tells two
    mutexes of the same class apart (two channel slots).  [Touch l] is an access to the value
    protected by [l] (in Rust only possible through the guard of [l]). *)
From Coq Require Export List NArith Bool Arith Lia.
Export ListNotations.
Open Scope N_scope.

Definition lock := (N * N)%type.

Definition lock_eqb (a b : lock) : bool := (fst a =? fst b) && (snd a =? snd b).

Inductive instr :=
| Acq (l : lock)      (* blocking, non-reentrant acquisition *)
| Rel (l : lock)      (* release (the guard is dropped) *)
| Touch (l : lock).   (* access to the value protected by l *)

Definition program := list instr.

Definition mem (l : lock) (h : list lock) : bool := existsb (lock_eqb l) h.
Definition drop (l : lock) (h : list lock) : list lock :=
  filter (fun x => negb (lock_eqb x l)) h.

(** The strict order on locks induced by a rank on classes: a lock of a higher-ranked class
    may be taken while holding a lower-ranked one; two instances of one class only in
    increasing order of the instance number. *)
Definition lock_lt (rank : N -> N) (a b : lock) : bool :=
  (rank (fst a) <? rank (fst b)) || ((fst a =? fst b) && (snd a <? snd b)).

(** Discipline 1: [ranked lt held p] - starting with the locks [held], the program acquires
    only locks above everything it holds, releases only what it holds, and holds nothing
    when it ends (well-bracketed). *)
Fixpoint ranked (lt : lock -> lock -> bool) (held : list lock) (p : program) : bool :=
  match p with
  | [] => match held with [] => true | _ => false end
  | Acq l :: r => forallb (fun h => lt h l) held && ranked lt (l :: held) r
  | Rel l :: r => mem l held && ranked lt (drop l held) r
  | Touch _ :: r => ranked lt held r
  end.

(** Discipline 2: [guarded held p] - every access to a protected value happens while its
    lock is held. *)
Fixpoint guarded (held : list lock) (p : program) : bool :=
  match p with
  | [] => true
  | Acq l :: r => guarded (l :: held) r
  | Rel l :: r => guarded (drop l held) r
  | Touch o :: r => mem o held && guarded held r
  end.

(** ** Interleaving semantics *)

Record thread := mkT { held : list lock; rest : program }.
Definition config := list thread.

(** every lock that some thread holds *)
Definition owned (c : config) : list lock := flat_map held c.

(** One step of one thread; [busy] are the locks held by anybody (the thread itself
    included: the mutexes are not reentrant, taking a lock twice blocks for ever). *)
Definition tstep (busy : list lock) (t : thread) : option (instr * thread) :=
  match rest t with
  | [] => None
  | Acq l :: r => if mem l busy then None else Some (Acq l, mkT (l :: held t) r)
  | Rel l :: r => if mem l (held t) then Some (Rel l, mkT (drop l (held t)) r) else None
  | Touch o :: r => Some (Touch o, mkT (held t) r)
  end.

Fixpoint upd (c : config) (n : nat) (t' : thread) : config :=
  match c, n with
  | [], _ => []
  | _ :: r, O => t' :: r
  | x :: r, S k => x :: upd r k t'
  end.

Definition event := (nat * instr)%type.   (* which thread did what *)

Definition step (c : config) (e : event) (c' : config) : Prop :=
  exists t t', nth_error c (fst e) = Some t /\
               tstep (owned c) t = Some (snd e, t') /\
               c' = upd c (fst e) t'.

(** a run: any schedule is a list of such steps *)
Inductive steps : config -> list event -> config -> Prop :=
| steps_nil c : steps c [] c
| steps_cons c e c1 tr c2 : step c e c1 -> steps c1 tr c2 -> steps c (e :: tr) c2.

Definition init (ps : list program) : config := map (mkT []) ps.
Definition finished (c : config) : Prop := forall t, In t c -> rest t = [].
Definition total (c : config) : nat := fold_right (fun t n => (length (rest t) + n)%nat) O c.

(** ** The projection of a run on one protected value *)

Definition concerns (g : lock) (i : instr) : bool :=
  match i with Acq l | Rel l | Touch l => lock_eqb l g end.

(** The automaton of critical sections of [g]: state = the thread inside the section. *)
Definition sec_trans (g : lock) (o : option nat) (e : event) : option (option nat) :=
  if concerns g (snd e) then
    match snd e, o with
    | Acq _, None => Some (Some (fst e))
    | Touch _, Some n => if Nat.eqb (fst e) n then Some o else None
    | Rel _, Some n => if Nat.eqb (fst e) n then Some None else None
    | _, _ => None
    end
  else Some o.

Fixpoint sec_run (g : lock) (o : option nat) (tr : list event) : option (option nat) :=
  match tr with
  | [] => Some o
  | e :: r => match sec_trans g o e with
              | Some o' => sec_run g o' r
              | None => None
              end
  end.

Definition proj (g : lock) (tr : list event) : list event :=
  filter (fun e => concerns g (snd e)) tr.
Definition of_thread (n : nat) (tr : list event) : list instr :=
  map snd (filter (fun e => Nat.eqb (fst e) n) tr).

(** one whole critical section of [g]: acquire, accesses, release *)
Definition is_section (g : lock) (s : list instr) : Prop :=
  exists k, s = Acq g :: repeat (Touch g) k ++ [Rel g].

(** a block: one thread and the instructions it performs without interruption *)
Definition block := (nat * list instr)%type.
Definition flatten (bs : list block) : list event :=
  flat_map (fun b => map (pair (fst b)) (snd b)) bs.

(** ** Checks evaluated on the generated programs *)

Definition all_ranked (rank : N -> N) (ps : list program) : bool :=
  forallb (ranked (lock_lt rank) []) ps.
Definition all_guarded (ps : list program) : bool := forallb (guarded []) ps.

(** number of critical sections of [g] in a program, and: every lock is taken at most once
    per request (then the request's accesses to a value form one uninterrupted block) *)
Fixpoint count_acq (g : lock) (p : program) : nat :=
  match p with
  | [] => O
  | Acq l :: r => ((if lock_eqb l g then 1 else 0) + count_acq g r)%nat
  | _ :: r => count_acq g r
  end.
Definition locks_of (p : program) : list lock :=
  flat_map (fun i => match i with Acq l => [l] | _ => [] end) p.
Definition single_section (cls : N) (p : program) : bool :=
  forallb (fun l => negb (fst l =? cls) || Nat.leb (count_acq l p) 1) (locks_of p).

(** renaming of instances (the same request on other channels) *)
Definition ren_lock (f : N -> N -> N) (l : lock) : lock := (fst l, f (fst l) (snd l)).
Definition ren_instr (f : N -> N -> N) (i : instr) : instr :=
  match i with
  | Acq l => Acq (ren_lock f l)
  | Rel l => Rel (ren_lock f l)
  | Touch l => Touch (ren_lock f l)
  end.
Definition rename (f : N -> N -> N) (p : program) : program := map (ren_instr f) p.
Definition monotone (f : N -> N -> N) : Prop := forall c a b, a < b -> f c a < f c b.

(** ** Executable companions (for concrete witnesses) *)

(** run a schedule (which thread moves next); [None] when a chosen thread cannot move *)
Fixpoint exec (c : config) (sched : list nat) : option (config * list event) :=
  match sched with
  | [] => Some (c, [])
  | n :: r =>
      match nth_error c n with
      | None => None
      | Some t =>
          match tstep (owned c) t with
          | None => None
          | Some (i, t') =>
              match exec (upd c n t') r with
              | Some (c', tr) => Some (c', (n, i) :: tr)
              | None => None
              end
          end
      end
  end.

Definition stuckb (c : config) : bool :=
  forallb (fun t => match tstep (owned c) t with None => true | Some _ => false end) c.
Definition finishedb (c : config) : bool :=
  forallb (fun t => match rest t with [] => true | _ => false end) c.

(** deepest nesting of locks in a program *)
Fixpoint max_nesting (held : list lock) (p : program) : nat :=
  match p with
  | [] => length held
  | Acq l :: r => Nat.max (length held) (max_nesting (l :: held) r)
  | Rel l :: r => Nat.max (length held) (max_nesting (drop l held) r)
  | Touch _ :: r => max_nesting held r
  end.

(** a set of programs and a schedule that ends in a stuck, unfinished configuration *)
Definition witness_ok (w : list program * list nat) : bool :=
  match exec (init (fst w)) (snd w) with
  | Some (c, _) => negb (finishedb c) && stuckb c
  | None => false
  end.

(** the lock-order edges of a program: (h, l) when l is acquired while h is held *)
Fixpoint edges (held : list lock) (p : program) : list (lock * lock) :=
  match p with
  | [] => []
  | Acq l :: r => map (fun h => (h, l)) held ++ edges (l :: held) r
  | Rel l :: r => edges (drop l held) r
  | Touch _ :: r => edges held r
  end.
Definition has_edge (a b : lock) (p : program) : bool :=
  existsb (fun e => lock_eqb (fst e) a && lock_eqb (snd e) b) (edges [] p).

(** every acquisition of a lock of class [inner] (the store) happens while a lock whose class is in
    [outer] is held: the write belongs to that critical section *)
Fixpoint nested_under (outer : list N) (inner : N) (held : list lock) (p : program) : bool :=
  match p with
  | [] => true
  | Acq l :: r =>
      (negb (fst l =? inner) || existsb (fun h => existsb (N.eqb (fst h)) outer) held)
      && nested_under outer inner (l :: held) r
  | Rel l :: r => nested_under outer inner (drop l held) r
  | Touch _ :: r => nested_under outer inner held r
  end.
