(** C19 — hand-written part of the wire model (definitions only):
    - the embedded bitcoin objects the signer protocol treats as opaque blobs
      (Transaction, PSBT, TxoProof) as a record of operations [blob_ops] with their
      round-trip laws [blob_laws] (premises of the theorems, never axioms);
    - the view of a PSBT that [StreamedPSBT]'s decoder reads and its post-processing
      (vls-protocol/src/psbt.rs), with the reference (specification-side) previous outputs
      and segwit flags;
    - the registry: [from_vec] over a dispatch table in enum order
      (msgs.rs from_vec/from_reader/check_message_length + bolt-derive ReadMessage).
    The per-struct codecs and the table itself are generated from the Rust source into
    Gen/WireGen.v by tools/gen_wire.py on every run. *)
From Coq Require Import List Arith NArith Bool.
From VLS Require Export Base.Codec.
Import ListNotations.
Open Scope N_scope.

(** ** PSBT view *)

Record txout := { o_value : N; o_spk : bytes }.
(** what the decoder reads of a [non_witness_utxo]: its txid and its outputs *)
Record prevtx := { pt_txid : bytes; pt_outs : list txout }.
Record pinput := { i_nwu : option prevtx; i_wu : option txout }.
(** what it reads of an input of the unsigned transaction *)
Record txin := { ti_txid : bytes; ti_vout : N; ti_sig_empty : bool; ti_wit_empty : bool }.
(** the part of a PSBT the streamed decoder looks at: the unsigned transaction ([p_tx], its
    serialisation), what it reads of the transaction's inputs, and the per-input maps *)
Record psbt := { p_tx : bytes; p_txins : list txin; p_inputs : list pinput }.

(** rust-bitcoin guarantees one PSBT input per transaction input *)
Definition psbt_ok (p : psbt) : bool := Nat.eqb (length (p_txins p)) (length (p_inputs p)).

Definition txout_eqb (a b : txout) : bool :=
  (o_value a =? o_value b) && bytes_eqb (o_spk a) (o_spk b).

(** rust-bitcoin 0.32 Script::witness_version().is_some() *)
Definition is_witness_program (s : bytes) : bool :=
  let n := lenN s in
  (4 <=? n) && (n <=? 42) &&
  match s with
  | ver :: push :: _ =>
      (2 <=? push) && (push <=? 40) && (n - 2 =? push) &&
      ((ver =? 0) || ((81 <=? ver) && (ver <=? 96)))
  | _ => false
  end.

(** rust-bitcoin 0.32 Script::is_p2sh: OP_HASH160 <20 bytes> OP_EQUAL, exactly 23 bytes *)
Definition is_p2sh (s : bytes) : bool :=
  (lenN s =? 23) &&
  match nth_error s 0, nth_error s 1, nth_error s 22 with
  | Some a, Some b, Some c => (a =? 169) && (b =? 20) && (c =? 135)
  | _, _, _ => false
  end.

(** A claimed previous output WITHOUT the previous transaction ("bare claim") is only taken
    when spending it commits to the amount: witness programs and p2sh (wrapped segwit).  A
    bare claim about a legacy output is refused (/repo 6e3d302). *)
Definition bare_claim_ok (i : pinput) : bool :=
  match i_nwu i, i_wu i with
  | None, Some w => is_witness_program (o_spk w) || is_p2sh (o_spk w)
  | _, _ => true
  end.

(** [output.get(vout)] with a binary index (vout is any u32) *)
Fixpoint nth_N {A} (l : list A) (n : N) : option A :=
  match l with
  | [] => None
  | x :: r => if n =? 0 then Some x else nth_N r (n - 1)
  end.

(** one input of StreamedPSBT::consensus_decode_from_finite_reader *)
Definition post_input (t : txin) (i : pinput) : option (pinput * bool) :=
  match i_nwu i with
  | None => if bare_claim_ok i then Some (i, false) else None
  | Some ptx =>
      if negb (bytes_eqb (pt_txid ptx) (ti_txid t)) then None
      else match nth_N (pt_outs ptx) (ti_vout t) with
           | None => None
           | Some o =>
               let flag := is_witness_program (o_spk o) in
               match i_wu i with
               | Some w => if txout_eqb w o then Some ({| i_nwu := None; i_wu := Some w |}, flag)
                           else None
               | None => Some ({| i_nwu := None; i_wu := Some o |}, flag)
               end
           end
  end.

Fixpoint post_inputs (ts : list txin) (ins : list pinput) : option (list pinput * list bool) :=
  match ts, ins with
  | [], [] => Some ([], [])
  | t :: ts', i :: ins' =>
      match post_input t i with
      | None => None
      | Some (i', f) => match post_inputs ts' ins' with
                        | None => None
                        | Some (l, fl) => Some (i' :: l, f :: fl)
                        end
      end
  | _, _ => None
  end.

Definition unsigned_tx_ok (p : psbt) : bool :=
  forallb (fun t => ti_sig_empty t && ti_wit_empty t) (p_txins p).

(** the decoded StreamedPSBT: the rewritten PSBT and the per-input segwit flags *)
Definition streamed_post (p : psbt) : option (psbt * list bool) :=
  if negb (unsigned_tx_ok p) then None
  else match post_inputs (p_txins p) (p_inputs p) with
       | None => None
       | Some (ins', flags) =>
           Some ({| p_tx := p_tx p; p_txins := p_txins p; p_inputs := ins' |}, flags)
       end.

(** reference, read off the PSBT that was encoded: the previous output an input designates
    and whether it is known to be segwit *)
Definition ref_prevout (t : txin) (i : pinput) : option txout :=
  match i_nwu i with
  | Some ptx => nth_N (pt_outs ptx) (ti_vout t)
  | None => i_wu i
  end.
Definition ref_flag (t : txin) (i : pinput) : bool :=
  match i_nwu i with
  | Some ptx => match nth_N (pt_outs ptx) (ti_vout t) with
                | Some o => is_witness_program (o_spk o)
                | None => false
                end
  | None => false
  end.
Fixpoint map2 {A B C} (f : A -> B -> C) (la : list A) (lb : list B) : list C :=
  match la, lb with a :: la', b :: lb' => f a b :: map2 f la' lb' | _, _ => [] end.

(** a PSBT the streamed decoder accepts: unsigned tx really unsigned, every supplied
    previous transaction is the one the input spends, has that output, and agrees with a
    supplied witness_utxo; a witness_utxo supplied without the previous transaction is about
    a witness-program or p2sh output *)
Definition input_consistent (t : txin) (i : pinput) : bool :=
  match i_nwu i with
  | None => bare_claim_ok i
  | Some ptx =>
      bytes_eqb (pt_txid ptx) (ti_txid t) &&
      match nth_N (pt_outs ptx) (ti_vout t) with
      | None => false
      | Some o => match i_wu i with Some w => txout_eqb w o | None => true end
      end
  end.
Definition streamable (p : psbt) : bool :=
  psbt_ok p && unsigned_tx_ok p && forallb (fun b => b) (map2 input_consistent (p_txins p) (p_inputs p)).

(** ** opaque blobs *)

Record blob_ops := {
  TxT : Type;                                  (* bitcoin::Transaction *)
  tx_ser : TxT -> bytes;
  tx_parse : bytes -> option TxT;              (* consensus_decode of exactly this window *)
  PsbtT : Type;                                (* bitcoin::psbt::Psbt *)
  psbt_view : PsbtT -> psbt;                   (* the part psbt.rs reads (a function of the PSBT) *)
  psbt_ser : PsbtT -> bytes;                   (* Psbt::serialize *)
  psbt_parse : bytes -> option PsbtT;          (* Psbt::deserialize of exactly this window *)
  ProofT : Type;                               (* txoo::proof::TxoProof *)
  proof_ser : ProofT -> bytes;
  proof_dec : dec_t ProofT;                    (* self-delimiting consensus_decode *)
}.

Record blob_laws (B : blob_ops) : Prop := {
  tx_rt : forall t, tx_parse B (tx_ser B t) = Some t;
  psbt_rt : forall p, psbt_parse B (psbt_ser B p) = Some p;
  proof_rt : forall p rest, proof_dec B (proof_ser B p ++ rest) = Some (p, rest);
}.

Section BlobCodecs.
  Variable B : blob_ops.

  (** WithSize<Transaction> *)
  Definition enc_ws_tx : TxT B -> bytes := enc_withsize (tx_ser B).
  Definition dec_ws_tx : dec_t (TxT B) := dec_withsize (tx_parse B).
  Definition wf_ws_tx : TxT B -> bool := wf_withsize (tx_ser B) (fun _ => true).

  (** WithSize<PsbtWrapper> *)
  Definition enc_ws_psbt : PsbtT B -> bytes := enc_withsize (psbt_ser B).
  Definition dec_ws_psbt : dec_t (PsbtT B) := dec_withsize (psbt_parse B).
  Definition wf_ws_psbt : PsbtT B -> bool := wf_withsize (psbt_ser B) (fun _ => true).

  (** WithSize<StreamedPSBT>: same bytes; the decoder additionally runs [streamed_post] on
      what it parsed and refuses when that fails.  The model value is the PSBT that was
      encoded; the Rust value after decoding is [streamed_post] of its view (theorems
      C19_psbt_sound and C19_psbt_accepts). *)
  Definition parse_streamed (w : bytes) : option (PsbtT B) :=
    bind (psbt_parse B w) (fun x =>
      match streamed_post (psbt_view B x) with Some _ => Some x | None => None end).
  Definition enc_ws_streamed : PsbtT B -> bytes := enc_withsize (psbt_ser B).
  Definition dec_ws_streamed : dec_t (PsbtT B) := dec_withsize parse_streamed.
  Definition wf_ws_streamed : PsbtT B -> bool :=
    wf_withsize (psbt_ser B) (fun x => streamable (psbt_view B x)).

  (** DebugTxoProof *)
  Definition enc_proof : ProofT B -> bytes := proof_ser B.
  Definition dec_proof : dec_t (ProofT B) := proof_dec B.
  Definition wf_proof (_ : ProofT B) : bool := true.
End BlobCodecs.

(** ** bitcoin::OutPoint (consensus encoding: txid, then vout little-endian) *)
Record OutPoint := { op_txid : bytes; op_vout : N }.
Definition enc_OutPoint (o : OutPoint) : bytes := enc_fixed 32 (op_txid o) ++ enc_u32le (op_vout o).
Definition dec_OutPoint : dec_t OutPoint := fun bs =>
  bind (dec_fixed 32 bs) (fun '(t, r) => bind (dec_u32le r) (fun '(v, r') =>
    Some ({| op_txid := t; op_vout := v |}, r'))).
Definition wf_OutPoint (o : OutPoint) : bool := wf_fixed 32 (op_txid o) && wf_u32 (op_vout o).

(** ** registry *)

Record entry (M : Type) := { e_id : N; e_dec : dec_t M }.
Arguments e_id {M}. Arguments e_dec {M}.
Inductive decoded (M : Type) := Known (m : M) | Unknown (ty : N).
Arguments Known {M}. Arguments Unknown {M}.

(** first arm of the generated [match message_type] that has this id *)
Fixpoint lookup {M} (table : list (entry M)) (ty : N) : option (entry M) :=
  match table with
  | [] => None
  | e :: r => if e_id e =? ty then Some e else lookup r ty
  end.

Definition dec_map {A M} (f : A -> M) (d : dec_t A) : dec_t M :=
  fun bs => match d bs with Some (x, r) => Some (f x, r) | None => None end.

(** msgs::from_vec: length check (MAX_MESSAGE_SIZE = [maxsz], read from the source), type
    prefix, dispatch, no trailing bytes *)
Definition from_vec {M} (maxsz : N) (table : list (entry M)) (bs : bytes) : option (decoded M) :=
  if lenN bs <? 2 then None
  else if maxsz <? lenN bs then None
  else bind (dec_u16 bs) (fun '(ty, payload) =>
    match lookup table ty with
    | Some e => match e_dec e payload with
                | Some (m, []) => Some (Known m)
                | _ => None
                end
    | None => match payload with [] => Some (Unknown ty) | _ => None end
    end).

(** SerBolt::as_vec: type prefix, then the struct *)
Definition as_vec_of {M} (id_of : M -> N) (enc : M -> bytes) (m : M) : bytes :=
  enc_u16 (id_of m) ++ enc m.

(** ** length framing on a stream (sockets, serial line)
    msgs::write_vec: u32 big-endian length, then the payload (= type prefix + struct);
    msgs::write must produce the same bytes as write_vec (as_vec m);
    msgs::read / read_message::<T>: u32 length, check_message_length, a window of exactly that
    many bytes which the decoder must consume completely; the rest of the stream is untouched. *)
Definition frame (p : bytes) : bytes := enc_u32 (lenN p) ++ p.
Definition unframe : dec_t bytes :=
  fun bs => bind (dec_u32 bs) (fun '(n, r) => take (N.to_nat n) r).

Definition read {M} (maxsz : N) (table : list (entry M)) (bs : bytes) : option (decoded M * bytes) :=
  bind (dec_u32 bs) (fun '(n, r) =>
    if n <? 2 then None else if maxsz <? n then None
    else bind (take (N.to_nat n) r) (fun '(w, rest) =>
           bind (from_vec maxsz table w) (fun m => Some (m, rest)))).

(** read_message::<T>: the type must be T's *)
Definition read_typed {A} (maxsz : N) (id : N) (dec : dec_t A) (bs : bytes) : option (A * bytes) :=
  bind (dec_u32 bs) (fun '(n, r) =>
    if n <? 2 then None else if maxsz <? n then None
    else bind (take (N.to_nat n) r) (fun '(w, rest) =>
           bind (dec_u16 w) (fun '(ty, payload) =>
             if ty =? id then match dec payload with Some (x, []) => Some (x, rest) | _ => None end
             else None))).

(** [k] messages one after the other *)
Fixpoint read_stream {M} (maxsz : N) (table : list (entry M)) (k : nat) (bs : bytes)
  : option (list (decoded M) * bytes) :=
  match k with
  | O => Some ([], bs)
  | S k' => match read maxsz table bs with
            | None => None
            | Some (m, r) => match read_stream maxsz table k' r with
                             | None => None
                             | Some (l, r') => Some (m :: l, r')
                             end
            end
  end.

Fixpoint nodupb (l : list N) : bool :=
  match l with [] => true | x :: r => negb (existsb (N.eqb x) r) && nodupb r end.
