(** Executable comparison of the kvv model with observations of the three real stores
    (evaluated by [vm_compute] in generated case files). *)
From VLS Require Export Base.Eqb Model.Kvv.

Definition obs_eqb (a b : obs) : bool :=
  match a, b with
  | OUnit, OUnit => true
  | OErr, OErr => true
  | OAbort, OAbort => true
  | OVal x, OVal y => beq x y
  | OVer x, OVer y => beq x y
  | OList x, OList y => beq x y
  | _, _ => false
  end.
#[global] Instance Eqb_obs : Eqb obs := obs_eqb.

(** what the harness records after every request:
    memory: result, full dump ([get_prefix ""]);
    disk:   result, full dump, [get_version] of every probe key ([None] once the cache mutex
            is poisoned);
    cloud:  result, dump of the local store, and - while a transaction is open and the log
            mutex is healthy - [get] of every probe key *)
Definition mrow : Type := obs * store.
Definition drow : Type := obs * store * option (list (option N)).
Definition crow : Type := obs * store * option (list (option vv)).

Definition d_view (probe : list key) (d : disk) : option (list (option N)) :=
  if vpoison d then None else Some (map (fun k => lookup k (cache d)) probe).
Definition c_view (probe : list key) (c : cloud) : option (list (option vv)) :=
  if cpoison c then None else
  match clog c with
  | None => None
  | Some _ => Some (map (c_visible c) probe)
  end.

Fixpoint m_rows (p : profile) (s : store) (ops : list op) : list mrow :=
  match ops with
  | [] => []
  | o :: r => let '(s', x) := m_step p s o in (x, s') :: m_rows p s' r
  end.
Fixpoint d_rows (p : profile) (probe : list key) (d : disk) (ops : list op) : list drow :=
  match ops with
  | [] => []
  | o :: r => let '(d', x) := d_step p d o in (x, table d', d_view probe d') :: d_rows p probe d' r
  end.
Fixpoint c_rows (fixed : bool) (p : profile) (sid : value) (probe : list key) (c : cloud) (ops : list op)
  : list crow :=
  match ops with
  | [] => []
  | o :: r =>
      let '(c', x) := c_step_gen fixed p sid c o in
      (x, local c', c_view probe c') :: c_rows fixed p sid probe c' r
  end.

Fixpoint cr_rows (p : profile) (sid : value) (probe : list key) (c : cloud) (ops : list op)
  : list crow :=
  match ops with
  | [] => []
  | o :: r =>
      let '(c', x) := cr_step p sid c o in
      (x, local c', c_view probe c') :: cr_rows p sid probe c' r
  end.

(** a case: (profile, signer id, probe keys), a common prefix of requests with the rows
    observed on the three stores, and alternative last requests, each run from the state the
    prefix leads to *)
Definition kvv_alt : Type := op * mrow * drow * crow * crow.
Definition kvv_case : Type :=
  (profile * value * list key) * list op * (list mrow * list drow * list crow * list crow) * list kvv_alt.

Definition alt_model (p : profile) (sid : value) (probe : list key)
  (s : store) (d : disk) (c cr : cloud) (o : op) : mrow * drow * crow * crow :=
  let '(s', xm) := m_step p s o in
  let '(d', xd) := d_step p d o in
  let '(c', xc) := c_step p sid c o in
  let '(r', xr) := cr_step p sid cr o in
  ((xm, s'), (xd, table d', d_view probe d'), (xc, local c', c_view probe c'),
   (xr, local r', c_view probe r')).

Definition kvv_model (c : kvv_case)
  : (list mrow * list drow * list crow * list crow) * list (mrow * drow * crow * crow) :=
  let '((p, sid, probe), ops, _, alts) := c in
  let s := m_run p ops in
  let d := d_run p ops in
  let cl := c_run p sid ops in
  let cr := cr_run p sid ops in
  ((m_rows p [] ops, d_rows p probe d_init ops, c_rows true p sid probe c_init ops,
    cr_rows p sid probe c_init ops),
   map (fun a => alt_model p sid probe s d cl cr (fst (fst (fst (fst a))))) alts).

Definition alt_obs (a : kvv_alt) : mrow * drow * crow * crow :=
  (snd (fst (fst (fst a))), snd (fst (fst a)), snd (fst a), snd a).

Definition check_kvv (c : kvv_case) : bool :=
  let '(rows, alts) := kvv_model c in
  let '(_, _, obsrows, oalts) := c in
  beq rows obsrows && beq alts (map alt_obs oalts).

(** per-backend verdicts (memory, redb, cloud on memory, cloud on redb), for the report of a
    failing case *)
Definition diag_kvv (c : kvv_case) : bool * bool * bool * bool :=
  let '(rows, alts) := kvv_model c in
  let '(_, _, obsrows, oalts) := c in
  let '(rm, rd, rc, rr) := rows in
  let '(om, od, oc, or) := obsrows in
  let oa := map alt_obs oalts in
  (beq rm om && beq (map (fun a => fst (fst (fst a))) alts) (map (fun a => fst (fst (fst a))) oa),
   beq rd od && beq (map (fun a => snd (fst (fst a))) alts) (map (fun a => snd (fst (fst a))) oa),
   beq rc oc && beq (map (fun a => snd (fst a)) alts) (map (fun a => snd (fst a)) oa),
   beq rr or && beq (map (fun a => snd a) alts) (map (fun a => snd a) oa)).
