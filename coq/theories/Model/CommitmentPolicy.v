(** Model of the commitment policy checks of vls-core:
      policy/simple_validator.rs   validate_commitment_tx (+ validate_expiry, validate_fee),
                                   validate_counterparty_commitment_tx, validate_holder_commitment_tx,
                                   validate_setup_channel (+ validate_delay), validate_channel_value
      policy/onchain_validator.rs  ensure_funding_buried_and_unspent and the two wrappers
      policy/filter.rs, error.rs   PolicyFilter::filter, policy_err! (downgrade to a warning)
      util/transaction_utils.rs    estimate_feerate_per_kw, expected_commitment_tx_weight
      channel.rs                   the validate_channel_value call in front of every counterparty signature
    Definitions only.  Amounts are [N] with the machine operations of Base/U64.v. *)
From VLS Require Export Base.U64.
From Coq Require Export String.
From Coq Require Export List.   (* [length], [app] mean the list functions again *)

(** * Tags, filter, results *)

Inductive tag :=
| T_outputs_trimmed        (* policy-commitment-outputs-trimmed *)
| T_htlc_count             (* policy-commitment-htlc-count-limit *)
| T_cltv_range             (* policy-commitment-htlc-cltv-range *)
| T_payment_velocity       (* policy-commitment-payment-velocity: the overflow refusals, never filtered *)
| T_inflight               (* policy-commitment-htlc-inflight-limit *)
| T_fee_range              (* policy-commitment-fee-range *)
| T_first_no_htlcs         (* policy-commitment-first-no-htlcs *)
| T_initial_funding_value  (* policy-commitment-initial-funding-value *)
| T_previous_revoked       (* policy-commitment-previous-revoked *)
| T_retry_same             (* policy-commitment-retry-same *)
| T_holder_not_revoked     (* policy-commitment-holder-not-revoked *)
| T_active_utxo            (* policy-commitment-spends-active-utxo (permanent) *)
| T_active_utxo_temp       (* policy-commitment-spends-active-utxo (temporary: funding not buried) *)
| T_safe_type              (* policy-channel-safe-type *)
| T_delay_holder           (* policy-channel-contest-delay-range-holder *)
| T_delay_counterparty     (* policy-channel-contest-delay-range-counterparty *)
| T_scriptpubkey           (* policy-onchain-output-scriptpubkey: wallet error, never filtered *)
| T_mutual_destination     (* policy-mutual-destination-allowlisted *)
| T_funding_max.           (* policy-funding-max *)

Definition tag_name (t : tag) : string :=
  match t with
  | T_outputs_trimmed => "policy-commitment-outputs-trimmed"
  | T_htlc_count => "policy-commitment-htlc-count-limit"
  | T_cltv_range => "policy-commitment-htlc-cltv-range"
  | T_payment_velocity => "policy-commitment-payment-velocity"
  | T_inflight => "policy-commitment-htlc-inflight-limit"
  | T_fee_range => "policy-commitment-fee-range"
  | T_first_no_htlcs => "policy-commitment-first-no-htlcs"
  | T_initial_funding_value => "policy-commitment-initial-funding-value"
  | T_previous_revoked => "policy-commitment-previous-revoked"
  | T_retry_same => "policy-commitment-retry-same"
  | T_holder_not_revoked => "policy-commitment-holder-not-revoked"
  | T_active_utxo => "policy-commitment-spends-active-utxo"
  | T_active_utxo_temp => "policy-commitment-spends-active-utxo"
  | T_safe_type => "policy-channel-safe-type"
  | T_delay_holder => "policy-channel-contest-delay-range-holder"
  | T_delay_counterparty => "policy-channel-contest-delay-range-counterparty"
  | T_scriptpubkey => "policy-onchain-output-scriptpubkey"
  | T_mutual_destination => "policy-mutual-destination-allowlisted"
  | T_funding_max => "policy-funding-max"
  end%string.

(** PolicyFilter: rules are tried in order, the first match decides, no match = Error *)
Record rule := mkRule { r_tag : string; r_prefix : bool; r_warn : bool }.

Definition rule_matches (r : rule) (t : string) : bool :=
  if r_prefix r then String.prefix (r_tag r) t else String.eqb t (r_tag r).

Fixpoint filter_warn (rules : list rule) (t : string) : bool :=
  match rules with
  | [] => false
  | r :: rs => if rule_matches r t then r_warn r else filter_warn rs t
  end.

Definition warn_of (rules : list rule) (t : tag) : bool := filter_warn rules (tag_name t).
Definition permissive_rules : list rule := [mkRule "" true true].

(** the answer of a validation: Ok, a refusal carrying the policy tag, or a Rust panic *)
Inductive res := Ok | Err (t : tag) | Panic.

Definition andthen (a b : res) : res := match a with Ok => b | _ => a end.

(** [policy_err!]: refuse unless the filter downgrades the tag to a warning, in which case
    execution continues *)
Definition perr (warn : tag -> bool) (t : tag) : res := if warn t then Ok else Err t.
(** [if violated { policy_err!(tag) }] *)
Definition check (warn : tag -> bool) (violated : bool) (t : tag) : res :=
  if violated then perr warn t else Ok.

(** * Data *)

Inductive ctype := Legacy | StaticRemoteKey | Anchors | AnchorsZeroFeeHtlc.
Definition is_anchors (c : ctype) : bool :=
  match c with Anchors | AnchorsZeroFeeHtlc => true | _ => false end.
Definition is_zero_fee_htlc (c : ctype) : bool :=
  match c with AnchorsZeroFeeHtlc => true | _ => false end.
Definition safe_type (c : ctype) : bool :=
  match c with StaticRemoteKey | AnchorsZeroFeeHtlc => true | _ => false end.

Record policy := mkPol {
  min_delay : N;            (* u16 *)
  max_delay : N;            (* u16 *)
  max_channel_size : N;     (* u64, sat *)
  max_htlcs : N;            (* usize *)
  max_htlc_value : N;       (* u64, sat *)
  use_chain_state : bool;
  min_feerate : N;          (* u32, per kw *)
  max_feerate : N           (* u32, per kw *)
}.

Record setup := mkSetup {
  is_outbound : bool;
  channel_value : N;        (* u64, sat *)
  push_value_msat : N;      (* u64 *)
  holder_delay : N;         (* holder_selected_contest_delay, u16 *)
  cp_delay : N;             (* counterparty_selected_contest_delay, u16 *)
  commitment_type : ctype;
  shutdown : N              (* holder_shutdown_script: 0 none, 1 in wallet or allowlist, 2 neither, 3 wallet error *)
}.

Record chain := mkChain {
  current_height : N;       (* u32 *)
  funding_depth : N;        (* u32 *)
  closing_depth : N         (* u32 *)
}.

(** an HTLC is (value_sat, cltv_expiry) *)
Definition htlc : Type := N * N.

Record cinfo := mkInfo {
  cp_broadcaster : bool;    (* is_counterparty_broadcaster *)
  to_countersigner : N;
  to_broadcaster : N;
  offered : list htlc;
  received : list htlc;
  feerate : N               (* feerate_per_kw, u32 *)
}.

(** the part of EnforcementState the wrappers read; the comparisons of points and of
    CommitmentInfo2 values enter as their answers *)
Record estate := mkEstate {
  next_holder_commit_num : N;
  next_cp_commit_num : N;
  next_cp_revoke_num : N;
  channel_closed : bool;
  cp_point_same : option bool;     (* None: no current_counterparty_point *)
  cp_info_same : bool;             (* Some(info2) == previous counterparty info for this number *)
  holder_info_same : option bool   (* None: no current_holder_commit_info ([expect] panics) *)
}.

(** * Constants *)

Definition MIN_DUST_LIMIT : N := 330.
Definition MIN_CHAN_DUST_LIMIT : N := 354.
Definition MAX_CLTV_EXPIRY : N := 500000000.
Definition HTLC_TIMEOUT_WEIGHT : N := 663.      (* non zero-fee types only reach this *)
Definition HTLC_SUCCESS_WEIGHT : N := 703.
Definition MIN_FUNDING_DEPTH : N := 1.          (* make_onchain_policy *)

(** plain [+] on u32 *)
Definition add_p32 (p : profile) (a b : N) : trap N :=
  match p with
  | Debug => if a + b <=? U32MAX then Val (a + b) else Trap
  | Release => Val ((a + b) mod two32)
  end.

(** * util/transaction_utils.rs *)

Definition n_htlcs (i : cinfo) : N := N.of_nat (length (offered i) + length (received i)).

Definition expected_weight (anchors : bool) (n : N) : N :=
  (if anchors then 1124 else 724) + n * 172.

(** repaired: u128 arithmetic, saturating conversion to u32 *)
Definition estimate_feerate_per_kw (fee w : N) : N := N.min ((fee * 1000 + 999) / w) U32MAX.

(** as found: [(((total_fee * 1000) + 999) / weight) as u32] *)
Definition estimate_feerate_per_kw_old (p : profile) (fee w : N) : trap N :=
  match mul_p p fee 1000 with
  | Trap => Trap
  | Val m => match add_p p m 999 with
             | Trap => Trap
             | Val s => Val (as_u32 (s / w))
             end
  end.

(** * simple_validator.rs *)

Section Validator.
  (** the fee-rate estimator in use (repaired or as found) *)
  Variable est : N -> N -> trap N.
  Variable prof : profile.
  Variable warn : tag -> bool.
  Variable pol : policy.

  Definition validate_delay (t : tag) (delay : N) : res :=
    andthen (check warn (delay <? min_delay pol) t)
            (check warn (max_delay pol <? delay) t).

  Definition validate_expiry (expiry cur : N) : res :=
    andthen (check warn (MAX_CLTV_EXPIRY <=? expiry) T_cltv_range)
      (if use_chain_state pol then
         match add_p32 prof cur (min_delay pol) with
         | Trap => Panic
         | Val lo =>
             andthen (check warn (expiry <? lo) T_cltv_range)
               (match add_p32 prof cur (max_delay pol) with
                | Trap => Panic
                | Val hi => check warn (hi <? expiry) T_cltv_range
                end)
         end
       else Ok).

  Definition validate_fee (sum_inputs sum_outputs w : N) : res :=
    match sub_checked sum_inputs sum_outputs with
    | None => Err T_fee_range                     (* fee underflow: never filtered *)
    | Some fee =>
        if w =? 0 then Panic else
        match est fee w with
        | Trap => Panic
        | Val r =>
            andthen (check warn (r <? min_feerate pol) T_fee_range)
                    (check warn (max_feerate pol <? r) T_fee_range)
        end
    end.

  (** one of the two HTLC loops: expiry, checked accumulation, trim limit — in this order *)
  Fixpoint htlc_loop (cur limit : N) (hs : list htlc) (acc : N) : res * N :=
    match hs with
    | [] => (Ok, acc)
    | (v, e) :: r =>
        match validate_expiry e cur with
        | Ok =>
            match add_checked acc v with
            | None => (Err T_payment_velocity, acc)
            | Some acc' =>
                match check warn (v <? limit) T_outputs_trimmed with
                | Ok => htlc_loop cur limit r acc'
                | bad => (bad, acc')
                end
            end
        | bad => (bad, acc)
        end
    end.

  Definition offered_limit (s : setup) (i : cinfo) : N :=
    if is_zero_fee_htlc (commitment_type s) then MIN_CHAN_DUST_LIMIT
    else MIN_DUST_LIMIT + feerate i * HTLC_TIMEOUT_WEIGHT / 1000.
  Definition received_limit (s : setup) (i : cinfo) : N :=
    if is_zero_fee_htlc (commitment_type s) then MIN_CHAN_DUST_LIMIT
    else MIN_DUST_LIMIT + feerate i * HTLC_SUCCESS_WEIGHT / 1000.

  (** value_to_parties().1 *)
  Definition cp_value (i : cinfo) : N :=
    if cp_broadcaster i then to_broadcaster i else to_countersigner i.
  Definition holder_value (i : cinfo) : N :=
    if cp_broadcaster i then to_countersigner i else to_broadcaster i.

  Definition initial_rules (s : setup) (n : N) (i : cinfo) : res :=
    if n =? 0 then
      andthen (check warn (0 <? n_htlcs i) T_first_no_htlcs)
        (if is_outbound s
         then check warn (push_value_msat s / 1000 <? cp_value i) T_initial_funding_value
         else Ok)
    else Ok.

  Definition validate_commitment (s : setup) (cs : chain) (n : N) (i : cinfo) : res :=
    andthen (check warn ((0 <? to_broadcaster i) && (to_broadcaster i <? MIN_CHAN_DUST_LIMIT))
                   T_outputs_trimmed)
   (andthen (check warn ((0 <? to_countersigner i) && (to_countersigner i <? MIN_CHAN_DUST_LIMIT))
                   T_outputs_trimmed)
   (andthen (check warn (max_htlcs pol <? n_htlcs i) T_htlc_count)
     match htlc_loop (current_height cs) (offered_limit s i) (offered i) 0 with
     | (Ok, acc1) =>
         match htlc_loop (current_height cs) (received_limit s i) (received i) acc1 with
         | (Ok, acc2) =>
             andthen (check warn (max_htlc_value pol <? acc2) T_inflight)
               match add_checked (to_broadcaster i) (to_countersigner i) with
               | None => Err T_payment_velocity
               | Some s1 =>
                   match add_checked s1 acc2 with
                   | None => Err T_payment_velocity
                   | Some sum_outputs =>
                       andthen (validate_fee (channel_value s) sum_outputs
                                  (expected_weight (is_anchors (commitment_type s)) (n_htlcs i)))
                               (initial_rules s n i)
                   end
               end
         | (bad, _) => bad
         end
     | (bad, _) => bad
     end)).

  Definition validate_counterparty_commitment (e : estate) (s : setup) (cs : chain) (n : N)
      (i : cinfo) : res :=
    andthen (validate_commitment s cs n i)
      match add_p prof (next_cp_revoke_num e) 1 with
      | Trap => Panic
      | Val lim =>
          andthen (check warn (lim <? n) T_previous_revoked)
            match add_p prof n 1 with
            | Trap => Panic
            | Val n1 =>
                if n1 =? next_cp_commit_num e then
                  andthen
                    match cp_point_same e with
                    | None => perr warn T_retry_same
                    | Some same => check warn (negb same) T_retry_same
                    end
                    (check warn (negb (cp_info_same e)) T_retry_same)
                else Ok
            end
      end.

  Definition validate_holder_commitment (e : estate) (s : setup) (cs : chain) (n : N)
      (i : cinfo) : res :=
    andthen (validate_commitment s cs n i)
      match add_p prof n 1 with
      | Trap => Panic
      | Val n1 =>
          andthen
            (if n1 =? next_holder_commit_num e then
               match holder_info_same e with
               | None => Panic
               | Some same => check warn (negb same) T_retry_same
               end
             else Ok)
            match add_p prof n 2 with
            | Trap => Panic
            | Val n2 =>
                andthen (check warn (n2 <=? next_holder_commit_num e) T_holder_not_revoked)
                        (check warn ((n =? next_holder_commit_num e) && channel_closed e)
                               T_active_utxo)
            end
      end.

  Definition validate_setup_channel (s : setup) : res :=
    andthen (check warn (negb (safe_type (commitment_type s))) T_safe_type)
   (andthen (validate_delay T_delay_holder (cp_delay s))
   (andthen (validate_delay T_delay_counterparty (holder_delay s))
      (if shutdown s =? 0 then Ok
       else if shutdown s =? 1 then Ok
       else if shutdown s =? 2 then perr warn T_mutual_destination
       else Err T_scriptpubkey))).

  Definition validate_channel_value (s : setup) : res :=
    check warn (max_channel_size pol <? channel_value s) T_funding_max.

  (** * onchain_validator.rs (the filter is copied from the inner policy) *)

  Definition ensure_funding_buried_and_unspent (n : N) (cs : chain) : res :=
    if 0 <? n then
      andthen (check warn (funding_depth cs <? MIN_FUNDING_DEPTH) T_active_utxo_temp)
              (check warn (0 <? closing_depth cs) T_active_utxo)
    else Ok.

  Definition onchain_counterparty_commitment (e : estate) (s : setup) (cs : chain) (n : N)
      (i : cinfo) : res :=
    andthen (ensure_funding_buried_and_unspent n cs)
            (validate_counterparty_commitment e s cs n i).

  Definition onchain_holder_commitment (e : estate) (s : setup) (cs : chain) (n : N)
      (i : cinfo) : res :=
    andthen (if next_holder_commit_num e <=? n then ensure_funding_buried_and_unspent n cs else Ok)
            (validate_holder_commitment e s cs n i).

  (** * channel.rs: what stands between a request and a counterparty signature, as far as the
      validator is concerned (sign_counterparty_commitment_tx and .._phase2 both start with
      validate_channel_value and sign only after validate_counterparty_commitment_tx) *)
  Definition sign_counterparty (onchain : bool) (e : estate) (s : setup) (cs : chain) (n : N)
      (i : cinfo) : res :=
    andthen (validate_channel_value s)
            (if onchain then onchain_counterparty_commitment e s cs n i
             else validate_counterparty_commitment e s cs n i).

End Validator.

(** the repaired estimator never traps *)
Definition est_new : N -> N -> trap N := fun fee w => Val (estimate_feerate_per_kw fee w).
Definition est_old (p : profile) : N -> N -> trap N := estimate_feerate_per_kw_old p.

(** which entry point accepted *)
Inductive entry := SimpleCp | SimpleHolder | OnchainCp | OnchainHolder.
Definition validate_entry (en : entry) est prof warn pol e s cs n i : res :=
  match en with
  | SimpleCp => validate_counterparty_commitment est prof warn pol e s cs n i
  | SimpleHolder => validate_holder_commitment est prof warn pol e s cs n i
  | OnchainCp => onchain_counterparty_commitment est prof warn pol e s cs n i
  | OnchainHolder => onchain_holder_commitment est prof warn pol e s cs n i
  end.

(** * node.rs: a channel is a stub until [setup_channel] succeeds; only then can commitments
    be signed or validated on it.  [validate_setup_channel] runs before the ready channel
    replaces the stub, so a refused setup leaves the stub in place.  (The refusals of
    setup_channel in front of the validator also leave the stub: push value above the channel
    value is modelled ([setup_pre]); a funding vout above 16 bits cannot come from the wire.) *)

Definition ctype_eqb (a b : ctype) : bool :=
  match a, b with
  | Legacy, Legacy | StaticRemoteKey, StaticRemoteKey | Anchors, Anchors
  | AnchorsZeroFeeHtlc, AnchorsZeroFeeHtlc => true
  | _, _ => false
  end.
Definition setup_eqb (a b : setup) : bool :=
  Bool.eqb (is_outbound a) (is_outbound b) && (channel_value a =? channel_value b)
  && (push_value_msat a =? push_value_msat b) && (holder_delay a =? holder_delay b)
  && (cp_delay a =? cp_delay b) && ctype_eqb (commitment_type a) (commitment_type b)
  && (shutdown a =? shutdown b).

Inductive slot := Stub | Ready (s : setup).

(** requests on one channel id; the enforcement and chain state a commitment request meets
    are part of the request (they are whatever the channel holds at that point) *)
Inductive lop :=
| LSetup (s : setup)
| LSignCp (e : estate) (cs : chain) (n : N) (i : cinfo)          (* sign_counterparty_commitment_tx_phase2 *)
| LValidateHolder (e : estate) (cs : chain) (n : N) (i : cinfo). (* validate_holder_commitment_tx_phase2 *)

Definition code3 (r : res) : N := match r with Ok => 0 | Panic => 1 | Err _ => 2 end.

Section Lifecycle.
  Variable est : N -> N -> trap N.
  Variable prof : profile.
  Variable warn : tag -> bool.
  Variable pol : policy.
  Variable onchain : bool.

  (** setup_channel, in front of the validator, for a channel we fund:
      [(channel_value_sat * 1000).checked_sub(push_value_msat)] — plain multiplication, refusal
      ("policy-routing-balanced", never filtered) when the push exceeds the channel value *)
  Definition setup_pre (s : setup) : N :=
    if is_outbound s then
      match mul_p prof (channel_value s) 1000 with
      | Trap => 1
      | Val m => if m <? push_value_msat s then 2 else 0
      end
    else 0.

  (** answer: 0 accepted, 1 panic, 2 refused *)
  Definition lstep (st : slot) (o : lop) : slot * N :=
    match o with
    | LSetup s =>
        match st with
        | Ready s' => (st, if setup_eqb s' s then 0 else 2)
        | Stub =>
            if setup_pre s =? 0 then
              match validate_setup_channel warn pol s with
              | Ok => (Ready s, 0)
              | r => (Stub, code3 r)
              end
            else (Stub, setup_pre s)
        end
    | LSignCp e cs n i =>
        match st with
        | Stub => (st, 2)
        | Ready s => (st, code3 (sign_counterparty est prof warn pol onchain e s cs n i))
        end
    | LValidateHolder e cs n i =>
        match st with
        | Stub => (st, 2)
        | Ready s =>
            (st, code3 (validate_entry (if onchain then OnchainHolder else SimpleHolder)
                                       est prof warn pol e s cs n i))
        end
    end.

  Fixpoint ltrace (st : slot) (ops : list lop) : list N :=
    match ops with
    | [] => []
    | o :: r => let '(st1, a) := lstep st o in a :: ltrace st1 r
    end.

  Definition lrun (st : slot) (ops : list lop) : slot :=
    fold_left (fun s o => fst (lstep s o)) ops st.
End Lifecycle.

(** * channel.rs, phase 2: which commitment a signature is for.
    sign_counterparty_commitment_tx_phase2 and sign_holder_commitment_tx_phase2_redundant build
    the transaction they sign from the request's own values and HTLC lists; the CommitmentInfo2
    handed to the validator is made of the same values and lists (CommitmentInfo2::new only
    sorts them — HTLCs that agree in amount, hash and expiry stay separate entries, they are
    separate outputs).  [Some j]: a signature was released, and it is for content [j]. *)
Definition signed_counterparty est prof warn pol (oc : bool) e s cs n (req : cinfo) : option cinfo :=
  match sign_counterparty est prof warn pol oc e s cs n req with Ok => Some req | _ => None end.
Definition signed_holder_redundant est prof warn pol (oc : bool) e s cs n (req : cinfo) : option cinfo :=
  match validate_entry (if oc then OnchainHolder else SimpleHolder) est prof warn pol e s cs n req with
  | Ok => Some req
  | _ => None
  end.

(** the variant in which the validator is shown the lists with repeated entries removed
    (Vec::dedup on the sorted lists) while the transaction is still built from the request *)
Fixpoint dedup_adj (l : list htlc) : list htlc :=
  match l with
  | [] => []
  | a :: t =>
      match t with
      | b :: _ => if (fst a =? fst b) && (snd a =? snd b) then dedup_adj t else a :: dedup_adj t
      | [] => [a]
      end
  end.
Definition dedup_info (i : cinfo) : cinfo :=
  mkInfo (cp_broadcaster i) (to_countersigner i) (to_broadcaster i)
         (dedup_adj (offered i)) (dedup_adj (received i)) (feerate i).
Definition signed_counterparty_dedup est prof warn pol (oc : bool) e s cs n (req : cinfo) : option cinfo :=
  match sign_counterparty est prof warn pol oc e s cs n (dedup_info req) with Ok => Some req | _ => None end.

(** * The bounds, stated mathematically (no machine arithmetic) *)

Definition msum (hs : list htlc) : N := sum_N (map fst hs).
Definition total_out (i : cinfo) : N :=
  to_broadcaster i + to_countersigner i + msum (offered i) + msum (received i).
Definition weight_of (s : setup) (i : cinfo) : N :=
  expected_weight (is_anchors (commitment_type s)) (n_htlcs i).
(** BOLT-3 fee of a transaction of weight [w] at [rate] per kw *)
Definition bolt3_fee (rate w : N) : N := rate * w / 1000.

(** the outputs do not exceed the funding, and the implied fee lies between the BOLT-3 fee at
    the minimum rate and (strictly) the BOLT-3 fee one above the maximum rate; equivalently
    [min * w <= 1000 * fee + 999 < (max + 1) * w] *)
Definition fee_bound (p : policy) (s : setup) (i : cinfo) : Prop :=
  total_out i <= channel_value s /\
  bolt3_fee (min_feerate p) (weight_of s i) <= channel_value s - total_out i /\
  channel_value s - total_out i < bolt3_fee (max_feerate p + 1) (weight_of s i).

Definition main_output_ok (v : N) : Prop := v = 0 \/ MIN_CHAN_DUST_LIMIT <= v.
Definition htlc_limit (s : setup) (i : cinfo) (w : N) : N :=
  if is_zero_fee_htlc (commitment_type s) then 354 else 330 + feerate i * w / 1000.
Definition dust_bound (s : setup) (i : cinfo) : Prop :=
  main_output_ok (to_broadcaster i) /\ main_output_ok (to_countersigner i) /\
  Forall (fun h => htlc_limit s i 663 <= fst h) (offered i) /\
  Forall (fun h => htlc_limit s i 703 <= fst h) (received i).

Definition count_bound (p : policy) (i : cinfo) : Prop := n_htlcs i <= max_htlcs p.
Definition inflight_bound (p : policy) (i : cinfo) : Prop :=
  msum (offered i) + msum (received i) <= max_htlc_value p.

Definition expiry_ok (p : policy) (cs : chain) (e : N) : Prop :=
  e < MAX_CLTV_EXPIRY /\
  (use_chain_state p = true ->
   current_height cs + min_delay p <= e /\ e <= current_height cs + max_delay p).
Definition expiry_bound (p : policy) (cs : chain) (i : cinfo) : Prop :=
  Forall (fun h => expiry_ok p cs (snd h)) (offered i ++ received i).

Definition initial_bound (s : setup) (n : N) (i : cinfo) : Prop :=
  n = 0 ->
  offered i = [] /\ received i = [] /\
  (is_outbound s = true -> cp_value i <= push_value_msat s / 1000).

Definition Bounds (p : policy) (s : setup) (cs : chain) (n : N) (i : cinfo) : Prop :=
  fee_bound p s i /\ dust_bound s i /\ count_bound p i /\ inflight_bound p i /\
  expiry_bound p cs i /\ initial_bound s n i.

(** In a release build plain u32 [+] wraps; the expiry window is then only meaningful when
    [current_height + delay] fits (block heights are far below 2^32 - 2^16).  Debug builds
    trap instead, so nothing is accepted on a wrapped window there. *)
Definition heights_fit (prof : profile) (p : policy) (cs : chain) : Prop :=
  prof = Debug \/
  (current_height cs + min_delay p <= U32MAX /\ current_height cs + max_delay p <= U32MAX).

Definition setup_bound (p : policy) (s : setup) : Prop :=
  safe_type (commitment_type s) = true /\
  min_delay p <= holder_delay s <= max_delay p /\
  min_delay p <= cp_delay s <= max_delay p /\
  (shutdown s = 0 \/ shutdown s = 1).

Definition strict : tag -> bool := fun _ => false.
