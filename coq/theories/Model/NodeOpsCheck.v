(** Executable comparison of Model/NodeOps.v with the real node (harness/src/bin/nodeops.rs). *)
From VLS Require Export Base.Eqb Model.NodeOps.

Definition kcode (k : skind) : N := match k with SNone => 0 | SStub => 1 | SReady => 2 | SForgot => 3 end.
Definition None_ := SNone.
(** an absent issued invoice as the harness prints it (its [None] stands for the slot kind) *)
Definition No : option N := None.

Definition nobs : Type := bool * (list N * N * list bool * N * list (option N)).
Definition nobserve (s : nnode) : list N * N * list bool * N * list (option N) :=
  (map (fun d => kcode (slots (nmem s) d)) [1; 2; 3; 4], hwm (nmem s),
   map (allow (nmem s)) [0; 1; 2], ninv (nmem s), map (iss (nmem s)) ISS_HASHES).

Definition nodeops_case : Type := list nop * list (bool * (list skind * N * list bool * N * list (option N))).

Fixpoint ntrace (s : nnode) (ops : list nop) : list nobs :=
  match ops with
  | [] => []
  | o :: r => let '(s', ok) := nstep s o in (ok, nobserve s') :: ntrace s' r
  end.

Definition recode (x : bool * (list skind * N * list bool * N * list (option N))) : nobs :=
  let '(ok, (ks, h, al, n, il)) := x in (ok, (map kcode ks, h, al, n, il)).

Definition nodeops_model (c : nodeops_case) : list nobs := ntrace ninit (fst c).
Definition check_nodeops (c : nodeops_case) : bool := beq (nodeops_model c) (map recode (snd c)).

Fixpoint nfirst_diff (i : N) (x y : list nobs) : option N :=
  match x, y with
  | [], [] => None
  | a :: x', b :: y' => if beq a b then nfirst_diff (i + 1) x' y' else Some i
  | _, _ => Some i
  end.
Definition nodeops_first_diff (c : nodeops_case) : option N :=
  nfirst_diff 0 (nodeops_model c) (map recode (snd c)).
