(** The node as a whole, as far as commitment updates go: the per-channel enforcement state
    machines (Model/Enforcement.v) and the node-wide payment bookkeeping (Model/Payments.v) run
    together, the way vls-core/src/channel.rs runs them inside one request:

      sign_counterparty_commitment_tx_phase2 : validator checks on the enforcement state +
                                               NodeState::validate_payments, then the state
                                               advances and apply_payments books the HTLCs;
      validate_holder_commitment_tx_phase2   : the same checks, nothing booked yet;
      revoke_previous_holder_commitment      : the payments are validated AGAIN against the
                                               node-wide ledger as it is now, then the holder
                                               state advances and the payments are booked.

    In the two component models the verdict of the other component is an input ([pol_ok] /
    [pay_ok] of Enforcement, [other_ok] of Payments).  Here those inputs are computed: the payment
    verdict from the ledger, the enforcement verdict from the counters.  A joint request is
    executed as a PLAN of component requests, so that every joint history projects, by
    definition, onto a history of each component model (Proofs/JointProofs.v), and every theorem
    about those carries over.  Definitions only. *)
From VLS Require Export Base.U64.
From VLS Require Export Model.Enforcement.
From VLS Require Model.Payments.
Module P := Payments.

(** one slot (with its ghost ledgers) per channel id, and the payment bookkeeping *)
Record jnode := mkJ { jp : P.pnode; jc : N -> slot * ghost }.

Inductive jop :=
| JAddInvoice (h amount_msat : N)
| JSignCp (ch n : N) (pt : point) (cid : content) (c : P.content) (pol_ok : bool)
| JValidateHolder (ch n : N) (cid : content) (c : P.content) (sg : sigq) (pol_ok : bool)
| JRevoke (ch n : N)
| JCpRevoke (ch r : N) (pt_of_secret : point) (secret : N) (chains : bool)
| JSignHolder (ch n : N)
| JFulfil (h : N)
| JHeartbeat
| JRestart.

Section J.
Variable warn : tag -> bool.
Variable prof : profile.
Variable nch : nat.
Variables mf mp : N.

Definition slot_next_h (s : slot) : option N :=
  match s with Stub => None | Ready ch => Some (next_h (mem ch)) end.

Definition oN_eqb (a b : option N) : bool :=
  match a, b with
  | Some x, Some y => x =? y
  | None, None => true
  | _, _ => false
  end.

(** the component requests one joint request consists of, and its reply *)
Definition plan (s : jnode) (o : jop) : list P.pop * list (N * op) * outp :=
  match o with
  | JAddInvoice h a => ([P.PAddInvoice h a], [], ok0)
  | JFulfil h => ([P.PFulfil h], [], ok0)
  | JHeartbeat => ([P.PHeartbeat], [], ok0)
  | JRestart => ([P.PRestart], map (fun ch => (ch, Restart)) (P.chan_ids nch), ok0)
  | JSignCp ch n pt cid c pol =>
      if negb (P.in_range nch ch) then ([], [], refused)
      else
        let pay := P.validate_payments nch mf mp (jp s) ch None (Some c) in
        let eo := SignCp n pt cid (pol && pay) in
        let r := snd (gstep warn prof (jc s ch) eo) in
        (match st r with Ok => [P.PSignCp ch c true] | _ => [] end, [(ch, eo)], r)
  | JValidateHolder ch n cid c sg pol =>
      if negb (P.in_range nch ch) then ([], [], refused)
      else
        let pay := P.validate_payments nch mf mp (jp s) ch (Some c) None in
        let eo := ValidateHolder n cid sg (pol && pay) in
        let res := gstep warn prof (jc s ch) eo in
        let r := snd res in
        (* a retry of the current commitment is accepted without becoming the next one *)
        let is_next := oN_eqb (slot_next_h (fst (fst res))) (Some n) in
        (match st r with Ok => if is_next then [P.PValidateHolder ch c true] else [] | _ => [] end,
         [(ch, eo)], r)
  | JRevoke ch n =>
      if negb (P.in_range nch ch) then ([], [], refused)
      else
        let py := match P.hnxt (P.chans (jp s) ch) with
                  | Some c => P.validate_payments nch mf mp (jp s) ch (Some c) None
                  | None => true
                  end in
        let eo := Revoke n py in
        let res := gstep warn prof (jc s ch) eo in
        let advanced := negb (oN_eqb (slot_next_h (fst (jc s ch))) (slot_next_h (fst (fst res)))) in
        (if advanced then [P.PRevoke ch] else [], [(ch, eo)], snd res)
  | JCpRevoke ch r pt sec chains =>
      if negb (P.in_range nch ch) then ([], [], refused)
      else let eo := ValidateRevocation r pt sec chains in
           ([], [(ch, eo)], snd (gstep warn prof (jc s ch) eo))
  | JSignHolder ch n =>
      if negb (P.in_range nch ch) then ([], [], refused)
      else let eo := SignHolder n in
           ([], [(ch, eo)], snd (gstep warn prof (jc s ch) eo))
  end.

Definition ops_for (ch : N) (l : list (N * op)) : list op :=
  map snd (filter (fun p => fst p =? ch) l).

(** a panic takes the whole signer process down: what serves the next request is a signer
    restarted from the store *)
Definition with_crash (pl : list P.pop * list (N * op) * outp) : list P.pop * list (N * op) * outp :=
  let '(pops, cops, r) := pl in
  match st r with
  | Abort => (pops ++ [P.PRestart], cops ++ map (fun ch => (ch, Restart)) (P.chan_ids nch), r)
  | _ => pl
  end.

Definition exec (s : jnode) (pl : list P.pop * list (N * op) * outp) : jnode * outp :=
  let '(pops, cops, r) := pl in
  (mkJ (P.prun nch mf mp (jp s) pops) (fun ch => grun warn prof (jc s ch) (ops_for ch cops)), r).

Definition jstep (s : jnode) (o : jop) : jnode * outp := exec s (with_crash (plan s o)).

Fixpoint jrun (s : jnode) (ops : list jop) : jnode :=
  match ops with [] => s | o :: r => jrun (fst (jstep s o)) r end.

(** the component histories a joint history consists of *)
Fixpoint jrun_pops (s : jnode) (ops : list jop) : list P.pop :=
  match ops with
  | [] => []
  | o :: r => fst (fst (with_crash (plan s o))) ++ jrun_pops (fst (jstep s o)) r
  end.
Fixpoint jrun_cops (ch : N) (s : jnode) (ops : list jop) : list op :=
  match ops with
  | [] => []
  | o :: r => ops_for ch (snd (fst (with_crash (plan s o)))) ++ jrun_cops ch (fst (jstep s o)) r
  end.

End J.

(** every channel is observed from the point where its initial commitments exist (as
    [Payments.pinit]): set up, commitment 0 validated and activated, counterparty commitment 0
    signed for point 0, all without HTLCs (content 0) *)
Definition boot : list op :=
  [Setup; ValidateHolder 0 0 SGood true; Activate; SignCp 0 0 0 true].

Definition jinit (warn : tag -> bool) (prof : profile) : jnode :=
  mkJ P.pinit (fun _ => grun warn prof (Stub, ghost0) boot).
