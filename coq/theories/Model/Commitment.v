(** C04 — model of the counterparty-commitment signing paths of vls-core/src/channel.rs.

    Three layers, all definitions (proofs are in Proofs/Commitment*.v):

    (i)  [canon_tx] / [canon_ws] / [htlc_txs]: the BOLT-3 commitment transaction of a channel
         setup, a set of per-commitment keys and a commitment content, assembled the way
         LDK 0.1.8 [CommitmentTransaction::new_with_auxiliary_htlc_data] does when it is driven by
         [Channel::make_counterparty_commitment_tx] (lightning/src/ln/chan_utils.rs:
         [internal_build_outputs], [internal_build_inputs], [make_transaction], the script
         builders [get_revokeable_redeemscript], [get_htlc_redeemscript_with_explicit_keys],
         [get_to_countersignatory_with_anchors_redeemscript], [get_anchor_redeemscript],
         [make_funding_redeemscript], [build_htlc_transaction]; rust-bitcoin 0.32 script
         [Builder::push_int]/[push_slice], consensus serialisation and the BIP143 preimage).
         The already tweaked per-commitment keys and the 48-bit obscuring factor are inputs.

    (ii) [decode]: vls-core/src/tx/tx.rs [CommitmentInfo::handle_output] with its five script
         templates, on top of a model of rust-bitcoin's [Script::instructions] lexer,
         [read_scriptint] and of vls-core/src/tx/script.rs [expect_op]/[expect_data]/
         [expect_number]/[expect_script_end]; driven by
         [SimpleValidator::decode_commitment_tx] (version check, one [handle_output] per output).

    (iii) [sign_phase1] ([Channel::sign_counterparty_commitment_tx]) and [sign_phase2]
         ([Channel::sign_counterparty_commitment_tx_phase2]) over an abstract signer.

    External primitives are section variables: [sha] (SHA-256), [rip] (RIPEMD-160), [pk_parse]
    (secp256k1 [PublicKey::from_slice] followed by compressed serialisation), [sign] (ECDSA
    with RFC6979 nonces: a function), and [accept]: everything both entry points ask of the
    validator and of the node state about the *semantic* content ([validate_counterparty_
    commitment_tx], [validate_payments], [set_next_counterparty_commit_num]) — the two entry
    points call these with the same [CommitmentInfo2], which is what the model records.
    Executable instances ([Sha256.sha256], [Ripemd160.ripemd160], an oracle table for
    [pk_parse]) are supplied in Model/CommitmentCheck.v.

    Scope: the counterparty's commitment ([is_counterparty_broadcaster = true]): the
    broadcaster is the counterparty, the countersignatory is the holder (the signer). *)
From Coq Require Import List NArith ZArith Bool.
From VLS Require Import Base.Codec.
Import ListNotations.
Open Scope N_scope.

(** * Opcodes (rust-bitcoin blockdata/opcodes.rs) *)
Definition OP_PUSHDATA1 : N := 0x4c.
Definition OP_PUSHDATA2 : N := 0x4d.
Definition OP_PUSHDATA4 : N := 0x4e.
Definition OP_1NEGATE : N := 0x4f.
Definition OP_1 : N := 0x51.
Definition OP_2 : N := 0x52.
Definition OP_16 : N := 0x60.
Definition OP_IF : N := 0x63.
Definition OP_NOTIF : N := 0x64.
Definition OP_ELSE : N := 0x67.
Definition OP_ENDIF : N := 0x68.
Definition OP_IFDUP : N := 0x73.
Definition OP_DROP : N := 0x75.
Definition OP_DUP : N := 0x76.
Definition OP_SWAP : N := 0x7c.
Definition OP_SIZE : N := 0x82.
Definition OP_EQUAL : N := 0x87.
Definition OP_EQUALVERIFY : N := 0x88.
Definition OP_HASH160 : N := 0xa9.
Definition OP_CHECKSIG : N := 0xac.
Definition OP_CHECKSIGVERIFY : N := 0xad.
Definition OP_CHECKMULTISIG : N := 0xae.
Definition OP_CLTV : N := 0xb1.
Definition OP_CSV : N := 0xb2.

(** * Script building (rust-bitcoin [Builder]) *)

(** [ScriptBuf::push_slice_no_opt] *)
Definition push_slice (d : bytes) : bytes :=
  let n := lenN d in
  (if n <? 0x4c then [n]
   else if n <? 0x100 then [OP_PUSHDATA1; n]
   else if n <? 0x10000 then [OP_PUSHDATA2; n mod 256; n / 256]
   else [OP_PUSHDATA4; n mod 256; (n / 256) mod 256; (n / 65536) mod 256; (n / 16777216) mod 256])
  ++ d.

(** [write_scriptint] for a non-negative argument (LDK only pushes u16 / u32 values):
    little-endian magnitude, plus a zero byte when the top bit of the last byte is set *)
Fixpoint scriptint_abs (fuel : nat) (a : N) : bytes :=
  match fuel with
  | O => []
  | S f => if 0xFF <? a then (a mod 256) :: scriptint_abs f (a / 256)
           else if 0x80 <=? a then [a; 0] else [a]
  end.
Definition write_scriptint (n : N) : bytes := if n =? 0 then [] else scriptint_abs 8 n.

(** [Builder::push_int] for a non-negative argument *)
Definition push_int (n : N) : bytes :=
  if (1 <=? n) && (n <=? 16) then [0x50 + n]
  else if n =? 0 then [0]
  else push_slice (write_scriptint n).

(** * Script lexing (rust-bitcoin [Instructions::next], non-minimal mode) *)
Inductive instr := IPush (d : bytes) | IOp (op : N).
Inductive nxt := NEnd | NBad | NIns (i : instr) (rest : bytes).

(** the length is compared in binary before any unary count is formed (a PUSHDATA4 length can
    be 2^32 - 1) *)
Definition take_push (n : N) (r : bytes) : nxt :=
  if lenN r <? n then NBad
  else match take (N.to_nat n) r with Some (d, r') => NIns (IPush d) r' | None => NBad end.

Definition next_instr (s : bytes) : nxt :=
  match s with
  | [] => NEnd
  | b :: r =>
      if b <? OP_PUSHDATA1 then take_push b r
      else if b =? OP_PUSHDATA1 then match r with l :: r' => take_push l r' | [] => NBad end
      else if b =? OP_PUSHDATA2 then
        match take 2 r with Some (l, r') => take_push (le_val l) r' | None => NBad end
      else if b =? OP_PUSHDATA4 then
        match take 4 r with Some (l, r') => take_push (le_val l) r' | None => NBad end
      else NIns (IOp b) r
  end.

(** [read_scriptint]: at most 4 bytes, minimally encoded, sign-magnitude *)
Definition read_scriptint (v : bytes) : option Z :=
  match rev v with
  | [] => Some 0%Z
  | last :: pre =>
      if 4 <? lenN v then None
      else if (last mod 128 =? 0)
              && (match pre with [] => true | p :: _ => N.even (p / 128) end) then None
      else
        let m := le_val v in
        if N.even (last / 128) then Some (Z.of_N m)
        else Some (- Z.of_N (m mod 2 ^ (8 * lenN v - 1)))%Z
  end.

(** vls-core/src/tx/script.rs *)
Definition expect_op (op : N) (s : bytes) : option bytes :=
  match next_instr s with
  | NIns (IOp o) r => if o =? op then Some r else None
  | _ => None
  end.
Definition expect_data (s : bytes) : option (bytes * bytes) :=
  match next_instr s with NIns (IPush d) r => Some (d, r) | _ => None end.
(** [Class::PushNum]: OP_1NEGATE and OP_1 .. OP_16 *)
Definition expect_number (s : bytes) : option (Z * bytes) :=
  match next_instr s with
  | NIns (IOp o) r =>
      if o =? OP_1NEGATE then Some ((-1)%Z, r)
      else if (OP_1 <=? o) && (o <=? OP_16) then Some (Z.of_N (o - 0x50), r)
      else None
  | NIns (IPush d) r => match read_scriptint d with Some z => Some (z, r) | None => None end
  | _ => None
  end.
Definition expect_end (s : bytes) : bool :=
  match next_instr s with NEnd => true | _ => false end.

(** * Script templates as data: the parsers of tx.rs are straight-line sequences of
      [expect_*] calls, so each one is a list of items interpreted by [parse_tmpl]. *)
Inductive titem := TOp (op : N) | TData | TNum | TNumIs (k : Z).
Inductive tval := VData (d : bytes) | VNum (z : Z).

Fixpoint parse_tmpl (t : list titem) (s : bytes) : option (list tval) :=
  match t with
  | [] => if expect_end s then Some [] else None
  | TOp op :: t' =>
      match expect_op op s with Some r => parse_tmpl t' r | None => None end
  | TData :: t' =>
      match expect_data s with
      | Some (d, r) => option_map (cons (VData d)) (parse_tmpl t' r)
      | None => None
      end
  | TNum :: t' =>
      match expect_number s with
      | Some (z, r) => option_map (cons (VNum z)) (parse_tmpl t' r)
      | None => None
      end
  | TNumIs k :: t' =>
      match expect_number s with
      | Some (z, r) => if Z.eqb z k then parse_tmpl t' r else None
      | None => None
      end
  end.

(** [parse_to_broadcaster_script] (= [parse_revokeable_redeemscript]) *)
Definition t_to_broadcaster : list titem :=
  [TOp OP_IF; TData; TOp OP_ELSE; TNum; TOp OP_CSV; TOp OP_DROP; TData; TOp OP_ENDIF;
   TOp OP_CHECKSIG].
Definition t_anchor_suffix (anchors : bool) : list titem :=
  if anchors then [TOp OP_1; TOp OP_CSV; TOp OP_DROP] else [].
(** [parse_received_htlc_script] *)
Definition t_received_htlc (anchors : bool) : list titem :=
  [TOp OP_DUP; TOp OP_HASH160; TData; TOp OP_EQUAL; TOp OP_IF; TOp OP_CHECKSIG; TOp OP_ELSE;
   TData; TOp OP_SWAP; TOp OP_SIZE; TNumIs 32; TOp OP_EQUAL; TOp OP_IF; TOp OP_HASH160; TData;
   TOp OP_EQUALVERIFY; TOp OP_2; TOp OP_SWAP; TData; TOp OP_2; TOp OP_CHECKMULTISIG;
   TOp OP_ELSE; TOp OP_DROP; TNum; TOp OP_CLTV; TOp OP_DROP; TOp OP_CHECKSIG; TOp OP_ENDIF]
  ++ t_anchor_suffix anchors ++ [TOp OP_ENDIF].
(** [parse_offered_htlc_script] *)
Definition t_offered_htlc (anchors : bool) : list titem :=
  [TOp OP_DUP; TOp OP_HASH160; TData; TOp OP_EQUAL; TOp OP_IF; TOp OP_CHECKSIG; TOp OP_ELSE;
   TData; TOp OP_SWAP; TOp OP_SIZE; TNumIs 32; TOp OP_EQUAL; TOp OP_NOTIF; TOp OP_DROP;
   TOp OP_2; TOp OP_SWAP; TData; TOp OP_2; TOp OP_CHECKMULTISIG; TOp OP_ELSE; TOp OP_HASH160;
   TData; TOp OP_EQUALVERIFY; TOp OP_CHECKSIG; TOp OP_ENDIF]
  ++ t_anchor_suffix anchors ++ [TOp OP_ENDIF].
(** [parse_anchor_script] *)
Definition t_anchor : list titem :=
  [TData; TOp OP_CHECKSIG; TOp OP_IFDUP; TOp OP_NOTIF; TOp OP_16; TOp OP_CSV; TOp OP_ENDIF].
(** [parse_to_countersigner_delayed_script] *)
Definition t_to_countersigner_delayed : list titem :=
  [TData; TOp OP_CHECKSIGVERIFY; TOp OP_1; TOp OP_CSV].

(** * Script builders (LDK chan_utils.rs) *)
Definition revokeable_script (revocation : bytes) (delay : N) (delayed : bytes) : bytes :=
  [OP_IF] ++ push_slice revocation ++ [OP_ELSE] ++ push_int delay ++ [OP_CSV; OP_DROP]
  ++ push_slice delayed ++ [OP_ENDIF; OP_CHECKSIG].

Definition to_countersigner_anchors_script (payment : bytes) : bytes :=
  push_slice payment ++ [OP_CHECKSIGVERIFY] ++ push_int 1 ++ [OP_CSV].

Definition anchor_script (funding : bytes) : bytes :=
  push_slice funding ++ [OP_CHECKSIG; OP_IFDUP; OP_NOTIF] ++ push_int 16 ++ [OP_CSV; OP_ENDIF].

Definition csv1_suffix (zf : bool) : bytes :=
  if zf then [OP_1; OP_CSV; OP_DROP] else [].

(** offered HTLC script: [rev160] = HASH160 of the revocation key, [pay160] = RIPEMD160 of the
    payment hash *)
Definition offered_htlc_script (zf : bool) (rev160 c_htlc b_htlc pay160 : bytes) : bytes :=
  [OP_DUP; OP_HASH160] ++ push_slice rev160 ++ [OP_EQUAL; OP_IF; OP_CHECKSIG; OP_ELSE]
  ++ push_slice c_htlc ++ [OP_SWAP; OP_SIZE] ++ push_int 32 ++ [OP_EQUAL; OP_NOTIF; OP_DROP]
  ++ push_int 2 ++ [OP_SWAP] ++ push_slice b_htlc ++ push_int 2
  ++ [OP_CHECKMULTISIG; OP_ELSE; OP_HASH160] ++ push_slice pay160
  ++ [OP_EQUALVERIFY; OP_CHECKSIG; OP_ENDIF] ++ csv1_suffix zf ++ [OP_ENDIF].

Definition received_htlc_script (zf : bool) (rev160 c_htlc b_htlc pay160 : bytes) (cltv : N)
  : bytes :=
  [OP_DUP; OP_HASH160] ++ push_slice rev160 ++ [OP_EQUAL; OP_IF; OP_CHECKSIG; OP_ELSE]
  ++ push_slice c_htlc ++ [OP_SWAP; OP_SIZE] ++ push_int 32 ++ [OP_EQUAL; OP_IF; OP_HASH160]
  ++ push_slice pay160 ++ [OP_EQUALVERIFY] ++ push_int 2 ++ [OP_SWAP] ++ push_slice b_htlc
  ++ push_int 2 ++ [OP_CHECKMULTISIG; OP_ELSE; OP_DROP] ++ push_int cltv
  ++ [OP_CLTV; OP_DROP; OP_CHECKSIG; OP_ENDIF] ++ csv1_suffix zf ++ [OP_ENDIF].

(** lexicographic order on byte strings ([<[u8]>::cmp]) *)
Fixpoint bytes_cmp (a b : bytes) : comparison :=
  match a, b with
  | [], [] => Eq
  | [], _ => Lt
  | _, [] => Gt
  | x :: a', y :: b' => match x ?= y with Eq => bytes_cmp a' b' | c => c end
  end.

(** [make_funding_redeemscript] *)
Definition funding_script (k1 k2 : bytes) : bytes :=
  let '(a, b) := match bytes_cmp k1 k2 with Lt => (k1, k2) | _ => (k2, k1) end in
  [OP_2] ++ push_slice a ++ push_slice b ++ [OP_2; OP_CHECKMULTISIG].

(** * Channel data *)
Inductive ctype := Legacy | StaticRemoteKey | Anchors | AnchorsZeroFeeHtlc.
(** [ChannelSetup::is_anchors]: what vls-core's decoder asks *)
Definition is_anchors (c : ctype) : bool :=
  match c with Anchors | AnchorsZeroFeeHtlc => true | _ => false end.
(** [features().supports_anchors_zero_fee_htlc_tx()]: what LDK's builder asks
    ([ChannelSetup::features] sets only the non-zero-fee bit for [Anchors]) *)
Definition is_zero_fee (c : ctype) : bool :=
  match c with AnchorsZeroFeeHtlc => true | _ => false end.

Record setup := mkSetup {
  s_ctype : ctype;
  s_outbound : bool;
  s_value : N;               (* channel_value_sat *)
  s_txid : bytes;            (* funding txid, 32 bytes, wire order *)
  s_vout : N;                (* funding output index *)
  s_delay : N;               (* holder_selected_contest_delay = to_self_delay of their commitment *)
  s_holder_funding : bytes;  (* 33-byte compressed keys *)
  s_cp_funding : bytes;
  s_holder_payment : bytes;  (* holder payment point: the to_remote key of their commitment *)
}.

(** per-commitment keys, derived by the harness with libsecp256k1 from the basepoints and
    the counterparty's per-commitment point, and the commitment-number obscuring factor *)
Record ckeys := mkKeys {
  k_revocation : bytes;      (* revocation key (holder can punish) *)
  k_delayed : bytes;         (* broadcaster delayed payment key *)
  k_b_htlc : bytes;          (* broadcaster (counterparty) HTLC key *)
  k_c_htlc : bytes;          (* countersignatory (holder) HTLC key *)
  k_obscure : N;             (* lower 48 bits of SHA256(open payment basepoint || accept ...) *)
}.

Record htlc := mkHtlc { h_value : N; h_hash : bytes; h_cltv : N }.

Record content := mkContent {
  c_num : N;                 (* commitment number, counting up *)
  c_feerate : N;
  c_to_holder : N;           (* to_countersignatory *)
  c_to_cp : N;               (* to_broadcaster *)
  c_offered : list htlc;     (* offered by the broadcaster *)
  c_received : list htlc;
}.

(** * The protocol handler's glue (vls-protocol-signer/src/handler.rs): what
      [SignRemoteCommitmentTx] (raw) and [SignRemoteCommitmentTx2] (semantic) hand to the core.
      A wire [Htlc] carries its amount in millisatoshi; [extract_htlcs] keeps the whole satoshis
      (BOLT-3: the output is amount_msat / 1000, rounded down).  Side 1 (REMOTE: offered by the
      counterparty) becomes an offered HTLC of their commitment, side 0 (LOCAL) a received one;
      entries with any other side are dropped; the order inside each list is the wire order. *)
Record whtlc := mkWHtlc { w_side : N; w_msat : N; w_hash : bytes; w_cltv : N }.
Definition wire_htlc (w : whtlc) : htlc := mkHtlc (w_msat w / 1000) (w_hash w) (w_cltv w).
Definition extract_htlcs (side : N) (l : list whtlc) : list htlc :=
  map wire_htlc (filter (fun w => w_side w =? side) l).
(** [SignRemoteCommitmentTx2]: commitment_number, feerate, to_local_value_sat (ours),
    to_remote_value_sat (theirs), htlcs *)
Definition wire_content (num feerate to_local to_remote : N) (l : list whtlc) : content :=
  mkContent num feerate to_local to_remote (extract_htlcs 1 l) (extract_htlcs 0 l).

(** * Transactions *)
Record txin := mkIn { i_txid : bytes; i_vout : N; i_script : bytes; i_seq : N; i_wit : list bytes }.
Record txout := mkOut { o_value : N; o_spk : bytes }.
Record tx := mkTx { t_version : N; t_ins : list txin; t_outs : list txout; t_lock : N }.

Definition txout_eqb (a b : txout) : bool :=
  (o_value a =? o_value b) && bytes_eqb (o_spk a) (o_spk b).
Fixpoint list_eqb {A} (e : A -> A -> bool) (x y : list A) : bool :=
  match x, y with
  | [], [] => true
  | a :: x', b :: y' => e a b && list_eqb e x' y'
  | _, _ => false
  end.
Definition txin_eqb (a b : txin) : bool :=
  bytes_eqb (i_txid a) (i_txid b) && (i_vout a =? i_vout b) && bytes_eqb (i_script a) (i_script b)
  && (i_seq a =? i_seq b) && list_eqb bytes_eqb (i_wit a) (i_wit b).
(** [Transaction]'s derived [PartialEq]: every field, including script_sig and witness *)
Definition tx_eqb (a b : tx) : bool :=
  (t_version a =? t_version b) && list_eqb txin_eqb (t_ins a) (t_ins b)
  && list_eqb txout_eqb (t_outs a) (t_outs b) && (t_lock a =? t_lock b).

(** consensus encoding (no input carries a witness in anything this model builds, so this is
    also the full [consensus_encode]); integers little-endian *)
Definition varint (n : N) : bytes :=
  if n <? 0xfd then [n]
  else if n <=? 0xffff then 0xfd :: le_enc 2 n
  else if n <=? 0xffffffff then 0xfe :: le_enc 4 n
  else 0xff :: le_enc 8 n.
Definition ser_outpoint (i : txin) : bytes := i_txid i ++ le_enc 4 (i_vout i).
Definition ser_in (i : txin) : bytes :=
  ser_outpoint i ++ varint (lenN (i_script i)) ++ i_script i ++ le_enc 4 (i_seq i).
Definition ser_out (o : txout) : bytes :=
  le_enc 8 (o_value o) ++ varint (lenN (o_spk o)) ++ o_spk o.
Definition ser_tx (t : tx) : bytes :=
  le_enc 4 (t_version t) ++ varint (lenN (t_ins t)) ++ concat (map ser_in (t_ins t))
  ++ varint (lenN (t_outs t)) ++ concat (map ser_out (t_outs t)) ++ le_enc 4 (t_lock t).

Definition SIGHASH_ALL : N := 1.
Definition SIGHASH_SINGLE_ANYONECANPAY : N := 0x83.

Inductive res (A : Type) := Ok (a : A) | Refused.
Arguments Ok {A} a.
Arguments Refused {A}.

(** what [decode_commitment_tx] leaves in [CommitmentInfo] (counterparty commitment) *)
Record info := mkInfo {
  has_cs : bool;             (* to_countersigner_address or _pubkey is Some *)
  cs_value : N;
  cs_anchors : N;            (* to_countersigner_anchor_count *)
  has_b : bool;              (* to_broadcaster_delayed_pubkey is Some *)
  b_value : N;
  b_delay : N;
  b_anchors : N;
  i_offered : list (N * bytes * N);   (* value, payment_hash_hash, 0 *)
  i_received : list (N * bytes * N);  (* value, payment_hash_hash, cltv *)
}.
Definition info0 : info := mkInfo false 0 0 false 0 0 0 [] [].

Definition ANCHOR_SAT : N := 330.
Definition MAX_DELAY : Z := 2016.

(** kind of a commitment output for LDK's sort tie-break and for the HTLC transactions *)
Inductive okind := KPlain | KHtlc (offered : bool) (h : htlc).
Record oentry := mkEntry { e_out : txout; e_ws : bytes; e_kind : okind }.

(** [sort_outputs]: value, then script_pubkey, then (both HTLCs) cltv, then payment hash *)
Definition entry_cmp (a b : oentry) : comparison :=
  match o_value (e_out a) ?= o_value (e_out b) with
  | Eq =>
      match bytes_cmp (o_spk (e_out a)) (o_spk (e_out b)) with
      | Eq =>
          match e_kind a, e_kind b with
          | KHtlc _ ha, KHtlc _ hb =>
              match h_cltv ha ?= h_cltv hb with
              | Eq => bytes_cmp (h_hash ha) (h_hash hb)
              | c => c
              end
          | _, _ => Eq
          end
      | c => c
      end
  | c => c
  end.
Definition entry_leb (a b : oentry) : bool :=
  match entry_cmp a b with Gt => false | _ => true end.
Fixpoint insert_entry (x : oentry) (l : list oentry) : list oentry :=
  match l with
  | [] => [x]
  | y :: r => if entry_leb x y then x :: l else y :: insert_entry x r
  end.
(** a stable sort; [sort_unstable_by] may order ties differently, but entries that tie have the
    same value and script_pubkey (and, among HTLCs, the same expiry and payment hash) *)
Definition sort_entries (l : list oentry) : list oentry := fold_right insert_entry [] l.

(** [HTLCInfo2]'s [Ord]: value, payment hash, expiry — [CommitmentInfo2::new] sorts both lists *)
Definition htlc_leb (a b : htlc) : bool :=
  match h_value a ?= h_value b with
  | Lt => true | Gt => false
  | Eq => match bytes_cmp (h_hash a) (h_hash b) with
          | Lt => true | Gt => false
          | Eq => h_cltv a <=? h_cltv b
          end
  end.
Fixpoint insert_htlc (x : htlc) (l : list htlc) : list htlc :=
  match l with
  | [] => [x]
  | y :: r => if htlc_leb x y then x :: l else y :: insert_htlc x r
  end.
Definition sort_htlcs (l : list htlc) : list htlc := fold_right insert_htlc [] l.
(** [build_counterparty_commitment_info] *)
Definition normalize (c : content) : content :=
  mkContent (c_num c) (c_feerate c) (c_to_holder c) (c_to_cp c)
            (sort_htlcs (c_offered c)) (sort_htlcs (c_received c)).

Section Model.
  Variable sha : bytes -> bytes.                 (* SHA-256 *)
  Variable rip : bytes -> bytes.                 (* RIPEMD-160 *)
  Variable pk_parse : bytes -> option bytes.     (* PublicKey::from_slice, re-serialised *)

  Definition dsha (x : bytes) : bytes := sha (sha x).
  Definition hash160 (x : bytes) : bytes := rip (sha x).
  Definition p2wsh (script : bytes) : bytes := 0 :: 0x20 :: sha script.
  Definition p2wpkh (h : bytes) : bytes := 0 :: 0x14 :: h.
  Definition is_p2wpkh (s : bytes) : bool :=
    match s with 0 :: 0x14 :: r => Nat.eqb (length r) 20 | _ => false end.
  Definition is_p2wsh (s : bytes) : bool :=
    match s with 0 :: 0x20 :: r => Nat.eqb (length r) 32 | _ => false end.

  Definition txid_of (t : tx) : bytes := dsha (ser_tx t).

  (** BIP143 digest of input [idx] for SIGHASH_ALL and SIGHASH_SINGLE|ANYONECANPAY *)
  Definition zero32 : bytes := repeat 0 32.
  Definition bip143_preimage (t : tx) (idx : nat) (script_code : bytes) (value : N) (ty : N)
    : bytes :=
    let all := ty =? SIGHASH_ALL in
    let hash_prevouts := if all then dsha (concat (map ser_outpoint (t_ins t))) else zero32 in
    let hash_sequence :=
      if all then dsha (concat (map (fun i => le_enc 4 (i_seq i)) (t_ins t))) else zero32 in
    let hash_outputs :=
      if all then dsha (concat (map ser_out (t_outs t)))
      else match nth_error (t_outs t) idx with Some o => dsha (ser_out o) | None => zero32 end in
    let i := nth idx (t_ins t) (mkIn [] 0 [] 0 []) in
    le_enc 4 (t_version t) ++ hash_prevouts ++ hash_sequence ++ ser_outpoint i
    ++ varint (lenN script_code) ++ script_code ++ le_enc 8 value ++ le_enc 4 (i_seq i)
    ++ hash_outputs ++ le_enc 4 (t_lock t) ++ le_enc 4 ty.
  Definition sighash (t : tx) (idx : nat) (script_code : bytes) (value : N) (ty : N) : bytes :=
    dsha (bip143_preimage t idx script_code value ty).

  (** ** (i) the canonical commitment transaction *)
  Section Canon.
    Variable s : setup.
    Variable k : ckeys.

    Definition zf : bool := is_zero_fee (s_ctype s).
    Definition to_local_script : bytes := revokeable_script (k_revocation k) (s_delay s) (k_delayed k).
    Definition rev160 : bytes := hash160 (k_revocation k).

    Definition htlc_script (offered : bool) (h : htlc) : bytes :=
      if offered
      then offered_htlc_script zf rev160 (k_c_htlc k) (k_b_htlc k) (rip (h_hash h))
      else received_htlc_script zf rev160 (k_c_htlc k) (k_b_htlc k) (rip (h_hash h)) (h_cltv h).

    (** [htlcs_info2_to_oic] ([amount_msat = value_sat * 1000] in u64, release profile) followed
        by [to_bitcoin_amount] *)
    Definition htlc_amount (v : N) : N := ((v * 1000) mod 2 ^ 64) / 1000.

    Definition htlc_entry (offered : bool) (h : htlc) : oentry :=
      let ws := htlc_script offered h in
      mkEntry (mkOut (htlc_amount (h_value h)) (p2wsh ws)) ws (KHtlc offered h).

    Definition p2wsh_entry (v : N) (ws : bytes) : oentry := mkEntry (mkOut v (p2wsh ws)) ws KPlain.

    Definition to_remote_entry (v : N) : oentry :=
      if zf then p2wsh_entry v (to_countersigner_anchors_script (s_holder_payment s))
      else mkEntry (mkOut v (p2wpkh (hash160 (s_holder_payment s)))) [] KPlain.

    (** [internal_build_outputs] before sorting *)
    Definition entries (c : content) : list oentry :=
      let has_htlcs := negb (match c_offered c, c_received c with [], [] => true | _, _ => false end) in
      (if 0 <? c_to_holder c then [to_remote_entry (c_to_holder c)] else [])
      ++ (if 0 <? c_to_cp c then [p2wsh_entry (c_to_cp c) to_local_script] else [])
      ++ (if zf then
            (if (0 <? c_to_cp c) || has_htlcs
             then [p2wsh_entry ANCHOR_SAT (anchor_script (s_cp_funding s))] else [])
            ++ (if (0 <? c_to_holder c) || has_htlcs
                then [p2wsh_entry ANCHOR_SAT (anchor_script (s_holder_funding s))] else [])
          else [])
      ++ map (htlc_entry true) (c_offered c) ++ map (htlc_entry false) (c_received c).

    Definition sorted_entries (c : content) : list oentry := sort_entries (entries c).

    (** [internal_build_inputs] / [make_transaction]; [as u32] truncations written out *)
    Definition obscured (c : content) : N := N.lxor (k_obscure k) (c_num c).
    Definition canon_locktime (c : content) : N := N.lor 0x20000000 (obscured c mod 2 ^ 24).
    Definition canon_sequence (c : content) : N :=
      N.lor 0x80000000 ((obscured c / 2 ^ 24) mod 2 ^ 32).

    Definition canon_tx (c : content) : tx :=
      mkTx 2 [mkIn (s_txid s) (s_vout s) [] (canon_sequence c) []]
           (map e_out (sorted_entries c)) (canon_locktime c).
    Definition canon_ws (c : content) : list bytes := map e_ws (sorted_entries c).

    Definition canon_funding_script : bytes := funding_script (s_cp_funding s) (s_holder_funding s).

    (** BIP143 digest the funding signature commits to *)
    Definition commit_sighash (t : tx) : bytes :=
      sighash t 0 canon_funding_script (s_value s) SIGHASH_ALL.

    (** [build_htlc_transaction] for the HTLC at output [idx]; [None] = [Amount] subtraction
        panics (caught by [catch_panic!] in phase 2) *)
    Definition htlc_weight (offered : bool) : N :=
      if offered then (if zf then 666 else 663) else (if zf then 706 else 703).
    Definition htlc_tx (txid : bytes) (feerate : N) (idx : N) (offered : bool) (h : htlc)
      : option tx :=
      let amt := htlc_amount (h_value h) in
      let fee := feerate * htlc_weight offered / 1000 in
      let out_value := if zf then Some amt else if fee <=? amt then Some (amt - fee) else None in
      match out_value with
      | Some v =>
          Some (mkTx 2 [mkIn txid idx [] (if zf then 1 else 0) []]
                     [mkOut v (p2wsh to_local_script)]
                     (if offered then h_cltv h else 0))
      | None => None
      end.

    (** HTLC transactions with the script and amount their signature commits to, in output
        order ([CommitmentTransaction::htlcs]) *)
    Fixpoint htlc_txs_from (txid : bytes) (feerate : N) (idx : N) (l : list oentry)
      : option (list (tx * bytes * N)) :=
      match l with
      | [] => Some []
      | e :: r =>
          match e_kind e with
          | KPlain => htlc_txs_from txid feerate (idx + 1) r
          | KHtlc offered h =>
              match htlc_tx txid feerate idx offered h, htlc_txs_from txid feerate (idx + 1) r with
              | Some t, Some ts => Some ((t, e_ws e, o_value (e_out e)) :: ts)
              | _, _ => None
              end
          end
      end.
    Definition htlc_txs (c : content) : option (list (tx * bytes * N)) :=
      htlc_txs_from (txid_of (canon_tx c)) (c_feerate c) 0 (sorted_entries c).
    Definition htlc_sighash_type : N := if zf then SIGHASH_SINGLE_ANYONECANPAY else SIGHASH_ALL.
    Definition htlc_sighash (x : tx * bytes * N) : bytes :=
      let '(t, ws, amt) := x in sighash t 0 ws amt htlc_sighash_type.

    (** ** BOLT-3 trimming.  An HTLC whose amount is below the dust limit plus the fee of its
        second-stage transaction (HTLC-timeout, weight 663, for an offered one; HTLC-success,
        weight 703, for a received one; no fee on zero-fee-anchor channels) has no output.  The
        signer has no negotiated dust limit: its constants are 330 sat (354 on zero-fee-anchor
        channels).  LDK's builder emits an output for every HTLC it is given, so the
        transaction the signer builds is the BOLT-3 one exactly for contents without a trimmed
        HTLC — which is what [validate_commitment_tx] (policy-commitment-outputs-trimmed) must
        guarantee; [bolt3_tx] is the specification the signatures are checked against. *)
    Definition htlc_trim_limit (feerate : N) (offered : bool) : N :=
      if zf then 354 else 330 + feerate * htlc_weight offered / 1000.
    Definition trimmed (feerate : N) (offered : bool) (h : htlc) : bool :=
      h_value h <? htlc_trim_limit feerate offered.
    Definition untrim (c : content) : content :=
      mkContent (c_num c) (c_feerate c) (c_to_holder c) (c_to_cp c)
                (filter (fun h => negb (trimmed (c_feerate c) true h)) (c_offered c))
                (filter (fun h => negb (trimmed (c_feerate c) false h)) (c_received c)).
    Definition bolt3_tx (c : content) : tx := canon_tx (untrim c).
    Definition bolt3_ws (c : content) : list bytes := canon_ws (untrim c).
    Definition bolt3_htlc_txs (c : content) : option (list (tx * bytes * N)) := htlc_txs (untrim c).

    (** ** (ii) [handle_output] and [decode_commitment_tx] *)
    Definition anchors : bool := is_anchors (s_ctype s).

    Definition handle_to_broadcaster (i : info) (v : N) (vals : list tval) : option info :=
      match vals with
      | [VData revocation; VNum delay; VData delayed] =>
          if has_b i then None
          else if (delay <? 0)%Z then None
          else if (MAX_DELAY <? delay)%Z then None
          else match pk_parse delayed, pk_parse revocation with
               | Some _, Some _ =>
                   Some (mkInfo (has_cs i) (cs_value i) (cs_anchors i) true v (Z.to_N delay mod 65536)
                                (b_anchors i) (i_offered i) (i_received i))
               | _, _ => None
               end
      | _ => None
      end.

    Definition handle_received_htlc (i : info) (v : N) (vals : list tval) : option info :=
      match vals with
      | [VData _; VData _; VData pay; VData _; VNum cltv] =>
          if negb (Nat.eqb (length pay) 20) then None
          else if (cltv <? 0)%Z then None
          else Some (mkInfo (has_cs i) (cs_value i) (cs_anchors i) (has_b i) (b_value i) (b_delay i)
                            (b_anchors i) (i_offered i)
                            (i_received i ++ [(v, pay, Z.to_N cltv mod 2 ^ 32)]))
      | _ => None
      end.

    Definition handle_offered_htlc (i : info) (v : N) (vals : list tval) : option info :=
      match vals with
      | [VData _; VData _; VData _; VData pay] =>
          if negb (Nat.eqb (length pay) 20) then None
          else Some (mkInfo (has_cs i) (cs_value i) (cs_anchors i) (has_b i) (b_value i) (b_delay i)
                            (b_anchors i) (i_offered i ++ [(v, pay, 0)]) (i_received i))
      | _ => None
      end.

    Definition handle_anchor (i : info) (v : N) (vals : list tval) : option info :=
      match vals with
      | [VData d] =>
          match pk_parse d with
          | None => None
          | Some p =>
              if negb (v =? ANCHOR_SAT) then None
              else if bytes_eqb p (s_cp_funding s) then
                Some (mkInfo (has_cs i) (cs_value i) (cs_anchors i) (has_b i) (b_value i) (b_delay i)
                             (b_anchors i + 1) (i_offered i) (i_received i))
              else if bytes_eqb p (s_holder_funding s) then
                Some (mkInfo (has_cs i) (cs_value i) (cs_anchors i + 1) (has_b i) (b_value i)
                             (b_delay i) (b_anchors i) (i_offered i) (i_received i))
              else None
          end
      | _ => None
      end.

    Definition handle_to_countersigner_delayed (i : info) (v : N) (vals : list tval) : option info :=
      match vals with
      | [VData d] =>
          if has_cs i then None
          else match pk_parse d with
               | Some _ => Some (mkInfo true v (cs_anchors i) (has_b i) (b_value i) (b_delay i)
                                        (b_anchors i) (i_offered i) (i_received i))
               | None => None
               end
      | _ => None
      end.

    (** [CommitmentInfo::handle_output]: the first template that parses decides *)
    Definition handle_output (i : info) (o : txout) (ws : bytes) : option info :=
      let spk := o_spk o in
      let v := o_value o in
      if is_p2wpkh spk then
        if anchors then None
        else if has_cs i then None
        else Some (mkInfo true v (cs_anchors i) (has_b i) (b_value i) (b_delay i) (b_anchors i)
                          (i_offered i) (i_received i))
      else if is_p2wsh spk then
        match ws with
        | [] => None
        | _ =>
            if negb (bytes_eqb spk (p2wsh ws)) then None
            else match parse_tmpl t_to_broadcaster ws with
            | Some vals => handle_to_broadcaster i v vals
            | None =>
            match parse_tmpl (t_received_htlc anchors) ws with
            | Some vals => handle_received_htlc i v vals
            | None =>
            match parse_tmpl (t_offered_htlc anchors) ws with
            | Some vals => handle_offered_htlc i v vals
            | None =>
            match parse_tmpl t_anchor ws with
            | Some vals => handle_anchor i v vals
            | None =>
            if anchors then
              match parse_tmpl t_to_countersigner_delayed ws with
              | Some vals => handle_to_countersigner_delayed i v vals
              | None => None
              end
            else None
            end end end end
        end
      else None.

    Fixpoint decode_outputs (i : info) (l : list (txout * bytes)) : option info :=
      match l with
      | [] => Some i
      | (o, ws) :: r =>
          match handle_output i o ws with
          | Some i' => decode_outputs i' r
          | None => None
          end
      end.

    (** [SimpleValidator::decode_commitment_tx] (non-permissive filter); the caller has checked
        that there are as many witness scripts as outputs *)
    Definition decode (t : tx) (ws : list bytes) : option info :=
      if negb (t_version t =? 2) then None
      else decode_outputs info0 (combine (t_outs t) ws).

    (** ** the raw HTLC-transaction entry point: [SimpleValidator::decode_and_validate_htlc_tx]
        as called by [Channel::sign_htlc_tx] ([sign_counterparty_htlc_tx]; with the holder's keys
        and the other delay in [s], [k] also [sign_holder_htlc_tx]).  Direction is read from the
        redeemscript, commitment txid / output index / expiry from the supplied transaction, the
        fee rate from its output value; the second-stage transaction is rebuilt from these with
        LDK's [build_htlc_transaction], and the request goes on only if the BIP143 digest of the
        supplied transaction equals the digest of the rebuilt one — a hard error, the policy
        filter is not consulted.  What is returned (and signed) is the digest of the REBUILT
        transaction. *)
    Definition estimate_feerate (fee w : N) : N := N.min ((fee * 1000 + 999) / w) 4294967295.
    (** vls-core keys the sighash type on [is_anchors] *)
    Definition htlc_sighash_type_p1 : N :=
      if anchors then SIGHASH_SINGLE_ANYONECANPAY else SIGHASH_ALL.
    Definition htlc_side (redeem : bytes) : option bool :=
      match parse_tmpl (t_offered_htlc anchors) redeem with
      | Some _ => Some true
      | None => match parse_tmpl (t_received_htlc anchors) redeem with
                | Some _ => Some false
                | None => None
                end
      end.
    (** fee rate, direction, expiry and the digest to sign *)
    Definition decode_htlc_tx (t : tx) (redeem : bytes) (amount : N) : option (N * bool * N * bytes) :=
      match t_ins t, t_outs t with
      | i0 :: _, o0 :: _ =>
          match htlc_side redeem with
          | None => None
          | Some offered =>
              let cltv := if offered then t_lock t else 0 in
              if amount <? o_value o0 then None
              else
                let fee := amount - o_value o0 in
                let feerate := if zf then 0 else estimate_feerate fee (if offered then 663 else 703) in
                match htlc_tx (i_txid i0) feerate (i_vout i0) offered (mkHtlc amount [] cltv) with
                | None => None
                | Some re =>
                    let d := sighash re 0 redeem amount htlc_sighash_type_p1 in
                    if bytes_eqb d (sighash t 0 redeem amount htlc_sighash_type_p1)
                    then Some (feerate, offered, cltv, d) else None
                end
          end
      | _, _ => None
      end.

    (** ** (iii) the two entry points *)
    Variable SK SIG : Type.
    Variable sign : SK -> bytes -> SIG.
    Variable funding_key : SK.       (* the channel's funding private key *)
    Variable htlc_key : SK.          (* holder HTLC base key tweaked by the per-commitment point *)
    Variable value_ok : bool.        (* validate_channel_value *)
    Variable accept : content -> bool.

    (** [Channel::sign_counterparty_commitment_tx] *)
    Definition sign_phase1 (t : tx) (ws : list bytes) (num feerate : N) (offered received : list htlc)
      : res SIG :=
      if negb (Nat.eqb (length (t_outs t)) (length ws)) then Refused
      else if negb value_ok then Refused
      else match decode t ws with
      | None => Refused
      | Some i =>
          let c := normalize (mkContent num feerate (cs_value i) (b_value i) offered received) in
          if negb (accept c) then Refused
          else
            let re := canon_tx c in
            if tx_eqb re t then Ok (sign funding_key (commit_sighash re)) else Refused
      end.

    (** [Channel::sign_counterparty_commitment_tx_phase2]: the validator sees the normalised
        content, LDK gets the HTLCs in the caller's order *)
    Definition sign_phase2 (c : content) : res (SIG * list SIG) :=
      if negb value_ok then Refused
      else if negb (accept (normalize c)) then Refused
      else match htlc_txs c with
      | None => Refused
      | Some hts =>
          Ok (sign funding_key (commit_sighash (canon_tx c)),
              map (fun x => sign htlc_key (htlc_sighash x)) hts)
      end.
    (** [Channel::sign_htlc_tx]: [accept_htlc] is [validate_htlc_tx] (fee-rate and expiry
        policies, whatever the policy filter makes of them) *)
    Variable accept_htlc : N -> bool -> N -> bool.
    Definition sign_htlc_phase1 (t : tx) (redeem : bytes) (amount : N) : res SIG :=
      match decode_htlc_tx t redeem amount with
      | None => Refused
      | Some (feerate, offered, cltv, d) =>
          if accept_htlc feerate offered cltv then Ok (sign htlc_key d) else Refused
      end.

    (** the handler-level requests: the same two entry points on the content the glue extracts *)
    Definition handle_sign_remote_commitment_tx2 (num feerate to_local to_remote : N) (l : list whtlc)
      : res (SIG * list SIG) :=
      sign_phase2 (wire_content num feerate to_local to_remote l).
    Definition handle_sign_remote_commitment_tx (t : tx) (ws : list bytes) (num feerate : N)
      (l : list whtlc) : res SIG :=
      sign_phase1 t ws num feerate (extract_htlcs 1 l) (extract_htlcs 0 l).
  End Canon.
End Model.
