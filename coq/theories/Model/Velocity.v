(** Model of vls-core/src/util/velocity.rs (VelocityControl) and of the way the node
    persists and restores it (vls-core/src/node.rs: add_invoice / add_keysend /
    check_onchain_tx, Node::new_full).  Definitions only. *)
From VLS Require Export Base.U64.

Record vc := mkvc {
  start : N;              (* start_sec *)
  interval : N;           (* bucket_interval (u32, > 0) *)
  buckets : list N;       (* buckets[0] is the current interval *)
  limit : N               (* u64::MAX = unlimited *)
}.

Definition velocity (c : vc) : N := sat_sum (buckets c).

(** [shift_buckets n bs]: drop the [n] oldest buckets and put [n] empty ones in front
    (Vec::resize(len - nshift) then nshift times insert(0, 0)) *)
Definition shift_buckets (n : nat) (bs : list N) : list N :=
  repeat 0 n ++ firstn (length bs - n) bs.

Definition nshift_of (c : vc) (now : N) : nat :=
  N.to_nat (N.min (N.of_nat (length (buckets c))) ((now - start c) / interval c)).

(** the time-only part of [insert]; [now >= start c] is the caller's obligation
    (u64 subtraction), stated wherever it matters *)
Definition advance (c : vc) (now : N) : vc :=
  mkvc (now - now mod interval c) (interval c)
       (shift_buckets (nshift_of c now) (buckets c)) (limit c).

Definition add_bucket0 (bs : list N) (amt : N) : list N :=
  match bs with
  | [] => []
  | b :: t => sat_add b amt :: t
  end.

Definition insert (c : vc) (now amt : N) : vc * bool :=
  let c1 := advance c now in
  if limit c1 <? sat_add (velocity c1) amt
  then (c1, false)
  else (mkvc (start c1) (interval c1) (add_bucket0 (buckets c1) amt) (limit c1), true).

Definition fresh (lim ivl : N) (nb : nat) : vc := mkvc 0 ivl (repeat 0 nb) lim.

(** VelocityControlSpec -> (limit, interval, buckets) *)
Inductive itype := Hourly | Daily | Unlimited.
Definition spec_triple (it : itype) (lim : N) : N * N * nat :=
  match it with
  | Hourly => (lim, 300, 12%nat)
  | Daily => (lim, 3600, 24%nat)
  | Unlimited => (U64MAX, 300, 12%nat)
  end.
Definition of_spec (it : itype) (lim : N) : vc :=
  let '(l, i, n) := spec_triple it lim in fresh l i n.
Definition spec_matches (c : vc) (it : itype) (lim : N) : bool :=
  let '(l, i, n) := spec_triple it lim in
  (limit c =? l) && (interval c =? i) && Nat.eqb (length (buckets c)) n.
Definition update_spec (c : vc) (it : itype) (lim : N) : vc :=
  if spec_matches c it lim then c else of_spec it lim.

(** * The node around one control: memory image, persisted image, restart *)

Record nodevc := mknode { mem : vc; disk : vc }.

Inductive vop :=
| Approve (now amt : N)   (* add_invoice / add_keysend / fee check: insert, persist iff approved *)
| Persist                 (* any other request that writes the node entry *)
| Restart.                (* restore from the persisted entry under the same policy spec *)

(** what the restart does with the persisted control, for a policy spec [(it, lim)]:
    the repaired code keeps the restored control unless the spec changed *)
Definition restore (it : itype) (lim : N) (d : vc) : vc := update_spec d it lim.

Definition vstep (it : itype) (lim : N) (s : nodevc) (o : vop) : nodevc * option bool :=
  match o with
  | Approve now amt =>
      let '(c, ok) := insert (mem s) now amt in
      (mknode c (if ok then c else disk s), Some ok)
  | Persist => (mknode (mem s) (mem s), None)
  | Restart => let c := restore it lim (disk s) in (mknode c (disk s), None)
  end.

Definition vinit (it : itype) (lim : N) : nodevc :=
  mknode (of_spec it lim) (of_spec it lim).

(** run a history, collecting the approved (time, amount) pairs in arrival order *)
Fixpoint vrun_from (it : itype) (lim : N) (s : nodevc) (log : list (N * N)) (ops : list vop)
  : nodevc * list (N * N) :=
  match ops with
  | [] => (s, log)
  | o :: r =>
      let '(s1, res) := vstep it lim s o in
      vrun_from it lim s1
        (match o, res with
         | Approve now amt, Some true => log ++ [(now, amt)]
         | _, _ => log
         end) r
  end.
Definition vrun (it : itype) (lim : N) (ops : list vop) : nodevc * list (N * N) :=
  vrun_from it lim (vinit it lim) [] ops.

(** the times at which requests arrive, in order *)
Fixpoint op_times (ops : list vop) : list N :=
  match ops with
  | [] => []
  | Approve now _ :: r => now :: op_times r
  | _ :: r => op_times r
  end.

Fixpoint nondecreasing (from : N) (l : list N) : bool :=
  match l with
  | [] => true
  | t :: r => (from <=? t) && nondecreasing t r
  end.

(** sum of the amounts of the logged approvals whose time satisfies [p] *)
Fixpoint wsum (p : N -> bool) (log : list (N * N)) : N :=
  match log with
  | [] => 0
  | (t, a) :: r => (if p t then a else 0) + wsum p r
  end.

Definition in_window (t0 len : N) (t : N) : bool := (t0 <=? t) && (t <? t0 + len).

(** the bare struct: a trace of (result, start, buckets) after each insert; used by the
    correspondence check *)
Fixpoint trace (c : vc) (ops : list (N * N)) : list (bool * N * list N) :=
  match ops with
  | [] => []
  | (now, amt) :: r =>
      let '(c1, ok) := insert c now amt in
      (ok, start c1, buckets c1) :: trace c1 r
  end.
