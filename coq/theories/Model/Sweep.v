(** Model of the sweep and second-level HTLC signing paths of vls-core:
      policy/simple_validator.rs   validate_sweep, validate_delayed_sweep,
                                   validate_counterparty_htlc_sweep, validate_justice_sweep,
                                   decode_and_validate_htlc_tx, validate_htlc_tx
      channel.rs                   sign_delayed_sweep, sign_counterparty_htlc_sweep,
                                   sign_justice_sweep, sign_holder_htlc_tx,
                                   sign_counterparty_htlc_tx (-> sign_htlc_tx)
      util/transaction_utils.rs    estimate_feerate_per_kw (repaired: u128, saturating)
      tx/tx.rs                     parse_offered_htlc_script / parse_received_htlc_script (as
                                   recognisers of a script descriptor)
    and of what they use from other crates, written out literally:
      rust-bitcoin 0.32  absolute::LockTime::is_satisfied_by(height, time), Height::from_consensus,
                         SighashCache::p2wsh_signature_hash (the fields the BIP143 preimage commits
                         to under ALL resp. SINGLE|ANYONECANPAY; the hash itself is a parameter)
      LDK 0.1            chan_utils::build_htlc_transaction, htlc_{timeout,success}_tx_weight
    Definitions only.  Keys, txids and scripts are identities (numbers); amounts, heights,
    locktimes, sequences are [N] with the machine operations of Base/U64.v. *)
From VLS Require Export Base.U64 Model.CommitmentPolicy.
From Coq Require Export List.

(** * Results *)

Inductive stag :=
(* transaction_format_err!: never filtered; the tag does not survive (all become a
   TransactionFormat error), only the class is observable *)
| S_version            (* policy-sweep-version *)
| S_locktime           (* policy-sweep-locktime *)
| S_sequence           (* policy-sweep-sequence *)
| S_other              (* policy-sweep-other: bad cltv in / unparsable redeemscript, bad input index *)
(* policy errors *)
| S_scriptpubkey       (* policy-onchain-output-scriptpubkey: wallet error, never filtered *)
| S_destination        (* policy-sweep-destination-allowlisted: through the filter *)
| H_sighash            (* policy-commitment-other: no sighash for the submitted tx, never filtered *)
| H_scripts            (* policy-commitment-scripts: redeemscript of neither kind, never filtered *)
| H_fee_underflow      (* policy-commitment-fee-range: output above the HTLC amount, never filtered *)
| H_mismatch           (* policy-htlc-other: sighash mismatch, never filtered *)
| H_locktime           (* policy-htlc-locktime: through the filter *)
| H_fee_range          (* policy-htlc-fee-range: through the filter *)
(* channel.rs, in front of the validator *)
| C_input_index        (* invalid_argument: bad input index *)
| C_commit_point.      (* get_per_commitment_point: number too far ahead *)

Definition stag_name (t : stag) : string :=
  match t with
  | S_version => "policy-sweep-version"
  | S_locktime => "policy-sweep-locktime"
  | S_sequence => "policy-sweep-sequence"
  | S_other => "policy-sweep-other"
  | S_scriptpubkey => "policy-onchain-output-scriptpubkey"
  | S_destination => "policy-sweep-destination-allowlisted"
  | H_sighash => "policy-commitment-other"
  | H_scripts => "policy-commitment-scripts"
  | H_fee_underflow => "policy-commitment-fee-range"
  | H_mismatch => "policy-htlc-other"
  | H_locktime => "policy-htlc-locktime"
  | H_fee_range => "policy-htlc-fee-range"
  | C_input_index => "invalid-argument"
  | C_commit_point => "policy-optional-fail-fast"
  end%string.

Definition swarn_of (rules : list rule) (t : stag) : bool := filter_warn rules (stag_name t).

Inductive sres := SOk | SErr (t : stag) | SPanic.
Definition sthen (a b : sres) : sres := match a with SOk => b | _ => a end.
(** [policy_err!]: refuse unless the filter downgrades the tag, then execution continues *)
Definition sperr (warn : stag -> bool) (t : stag) : sres := if warn t then SOk else SErr t.
Definition sstrict : stag -> bool := fun _ => false.

(** * Transactions *)

Record txin := mkIn { prev_txid : N; prev_vout : N; in_seq : N }.
Record txout := mkOut { out_value : N; out_spk : N }.
Record tx := mkTx {
  tx_version : N;        (* the four version bytes read as u32; Version::TWO = 2 *)
  tx_locktime : N;       (* consensus u32 *)
  tx_ins : list txin;
  tx_outs : list txout
}.

(** [l[i]] for a machine index *)
Fixpoint nthN {A} (l : list A) (i : N) : option A :=
  match l with
  | [] => None
  | x :: r => if i =? 0 then Some x else nthN r (i - 1)
  end.
Definition lenN {A} (l : list A) : N := N.of_nat (length l).

(** * The wallet, as the validator sees it (trait Wallet, implemented by Node) *)

Inductive spend_ans := CanSpend | CannotSpend | WalletError.
Record wallet := mkWallet {
  can_spend : N -> N -> spend_ans;      (* path -> script -> Ok(true) | Ok(false) | Err *)
  allowlisted : N -> N -> bool          (* script -> path -> allowlist_contains *)
}.

(** * rust-bitcoin: absolute lock times *)

Definition LOCK_TIME_THRESHOLD : N := 500000000.
Definition TIME_MIN : N := 500000000.           (* absolute::Time::MIN *)
Definition MAX_CHAIN_LAG : N := 2.

(** [LockTime::from_consensus(lt).is_satisfied_by(Height(height), Time(time))]:
    a value below the threshold is a block height and is compared with [height];
    anything else is a timestamp and is compared with [time] *)
Definition is_satisfied_by (lt height time : N) : bool :=
  if lt <? LOCK_TIME_THRESHOLD then lt <=? height else lt <=? time.

(** [Height::from_consensus(cstate.current_height + MAX_CHAIN_LAG).expect(..)]: plain u32 [+],
    then a panic unless the sum is a block height *)
Definition lag_height (prof : profile) (h : N) : trap N :=
  match add_p32 prof h MAX_CHAIN_LAG with
  | Trap => Trap
  | Val x => if x <? LOCK_TIME_THRESHOLD then Val x else Trap
  end.

(** * Script descriptors (what the two recognisers of tx/tx.rs extract) *)

Inductive rscript :=
| RS_offered (anch : bool)                       (* offered-HTLC script, with/without the `1 CSV DROP` suffix *)
| RS_received (anch : bool) (neg : bool) (cltv : N)   (* received-HTLC script; the number pushed in front of OP_CLTV *)
| RS_other.

Definition parse_offered (rs : rscript) (anchors : bool) : bool :=
  match rs with RS_offered a => Bool.eqb a anchors | _ => false end.

(** [expect_number] reads a script number of at most four bytes: |n| <= 2^31 - 1 *)
Definition SCRIPTNUM_MAX : N := 2147483647.
Definition parse_received (rs : rscript) (anchors : bool) : option (bool * N) :=
  match rs with
  | RS_received a neg c =>
      if Bool.eqb a anchors && (c <=? SCRIPTNUM_MAX) then Some (neg, c) else None
  | _ => None
  end.

Definition NON_ANCHOR_SEQS : list N := [0; 4294967293; 4294967295].
Definition ANCHOR_SEQS : list N := [1].
Definition memN (x : N) (l : list N) : bool := existsb (N.eqb x) l.

(** * simple_validator.rs: sweeps *)

(** which input's sequence the three sweep validators look at: the code as found reads
    [tx.input[0]] whatever input is being signed; the repaired code reads [tx.input[input]] *)
Inductive seqsel := SignedInput | FirstInput.

Section SweepValidator.
  Variable sel : seqsel.
  Variable prof : profile.
  Variable warn : stag -> bool.
  Variable w : wallet.

  Definition checked_input (t : tx) (input : N) : option txin :=
    nthN (tx_ins t) (match sel with SignedInput => input | FirstInput => 0 end).
  (** [tx.input[0]] panics on an empty list; the repaired code refuses a bad index *)
  Definition no_such_input : sres :=
    match sel with SignedInput => SErr S_other | FirstInput => SPanic end.

  (** the destination loop of validate_sweep *)
  Fixpoint outputs_loop (path : N) (outs : list txout) : sres :=
    match outs with
    | [] => SOk
    | o :: r =>
        match can_spend w path (out_spk o) with
        | WalletError => SErr S_scriptpubkey
        | CanSpend => outputs_loop path r
        | CannotSpend =>
            if allowlisted w (out_spk o) path then outputs_loop path r
            else sthen (sperr warn S_destination) (outputs_loop path r)
        end
    end.

  Definition validate_sweep (t : tx) (path : N) : sres :=
    if negb (tx_version t =? 2) then SErr S_version else outputs_loop path (tx_outs t).

  (** [if !tx.lock_time.is_satisfied_by(Height(h + 2), Time::MIN) { err }] *)
  Definition locktime_check (lt h : N) : sres :=
    match lag_height prof h with
    | Trap => SPanic
    | Val x => if is_satisfied_by lt x TIME_MIN then SOk else SErr S_locktime
    end.

  Definition sequence_check (t : tx) (input : N) (ok : N -> bool) : sres :=
    match checked_input t input with
    | None => no_such_input
    | Some i => if ok (in_seq i) then SOk else SErr S_sequence
    end.

  Definition validate_delayed_sweep (cp_delay h : N) (t : tx) (input path : N) : sres :=
    sthen (validate_sweep t path)
   (sthen (locktime_check (tx_locktime t) h)
          (sequence_check t input (fun s => s =? cp_delay))).

  Definition validate_counterparty_htlc_sweep (anchors : bool) (h : N) (t : tx) (rs : rscript)
      (input path : N) : sres :=
    sthen (validate_sweep t path)
   (sthen
      match parse_received rs anchors with
      | Some (neg, cltv) =>
          (* cltv_expiry < 0 || cltv_expiry > u32::MAX *)
          if (neg && (0 <? cltv)) || (U32MAX <? cltv) then SErr S_other
          else if cltv <? tx_locktime t then SErr S_locktime else SOk
      | None =>
          if parse_offered rs anchors then locktime_check (tx_locktime t) h
          else SErr S_other
      end
      (sequence_check t input (fun s => memN s (if anchors then ANCHOR_SEQS else NON_ANCHOR_SEQS)))).

  Definition validate_justice_sweep (h : N) (t : tx) (input path : N) : sres :=
    sthen (validate_sweep t path)
   (sthen (locktime_check (tx_locktime t) h)
          (sequence_check t input (fun s => memN s NON_ANCHOR_SEQS))).

  (** * channel.rs: the three sweep signing calls *)

  Definition input_index_check (t : tx) (input : N) : sres :=
    if lenN (tx_ins t) <=? input then SErr C_input_index else SOk.

  (** Channel::get_per_commitment_point *)
  Definition commit_point_check (commit_num next_holder : N) : sres :=
    if next_holder + 1 <? commit_num then SErr C_commit_point else SOk.

  Definition sign_delayed_sweep (s : setup) (h : N) (t : tx) (input commit_num next_holder path : N)
      : sres :=
    sthen (input_index_check t input)
   (sthen (commit_point_check commit_num next_holder)
          (validate_delayed_sweep (cp_delay s) h t input path)).

  Definition sign_counterparty_htlc_sweep (s : setup) (h : N) (t : tx) (rs : rscript)
      (input path : N) : sres :=
    sthen (input_index_check t input)
          (validate_counterparty_htlc_sweep (is_anchors (commitment_type s)) h t rs input path).

  Definition sign_justice_sweep (h : N) (t : tx) (input path : N) : sres :=
    sthen (input_index_check t input) (validate_justice_sweep h t input path).
End SweepValidator.

(** * BIP143: what a P2WSH signature hash commits to *)

Inductive shtype := SH_All | SH_SingleACP.
Definition shtype_byte (ty : shtype) : N := match ty with SH_All => 1 | SH_SingleACP => 131 end.

(** version, all prevouts, all sequences (both empty under ANYONECANPAY), the outpoint of the
    signed input, the script code, the amount spent, the signed input's sequence, the outputs
    (all under ALL; under SINGLE the one at the input's index, none if there is none), the
    locktime, the sighash type *)
Definition covered : Type :=
  N * list (N * N) * list N * (N * N) * N * N * N * list (N * N) * N * N.

Definition outpoint_of (i : txin) : N * N := (prev_txid i, prev_vout i).
Definition out_pair (o : txout) : N * N := (out_value o, out_spk o).

(** [SighashCache::new(tx).p2wsh_signature_hash(i, script, amount, ty)] is an error exactly when
    the input index is out of range *)
Definition covered_fields (ty : shtype) (t : tx) (i : N) (script amount : N) : option covered :=
  match nthN (tx_ins t) i with
  | None => None
  | Some inp =>
      Some
        match ty with
        | SH_All =>
            (tx_version t, map outpoint_of (tx_ins t), map in_seq (tx_ins t), outpoint_of inp,
             script, amount, in_seq inp, map out_pair (tx_outs t), tx_locktime t, shtype_byte ty)
        | SH_SingleACP =>
            (tx_version t, [], [], outpoint_of inp, script, amount, in_seq inp,
             match nthN (tx_outs t) i with Some o => [out_pair o] | None => [] end,
             tx_locktime t, shtype_byte ty)
        end
  end.

(** * LDK: build_htlc_transaction *)

(** [channel_type_features.supports_anchors_zero_fee_htlc_tx()] for ChannelSetup::features():
    set for AnchorsZeroFeeHtlc only (Anchors sets the non-zero-fee bit, which LDK's transaction
    builders ignore) *)
Definition ldk_anchors (c : ctype) : bool := is_zero_fee_htlc c.
Definition HTLC_TIMEOUT_ANCHOR_WEIGHT : N := 666.
Definition HTLC_SUCCESS_ANCHOR_WEIGHT : N := 706.
Definition htlc_weight (anchors offered : bool) : N :=
  if offered then (if anchors then HTLC_TIMEOUT_ANCHOR_WEIGHT else HTLC_TIMEOUT_WEIGHT)
  else (if anchors then HTLC_SUCCESS_ANCHOR_WEIGHT else HTLC_SUCCESS_WEIGHT).

Section Htlc.
  (** script_pubkey of the revokeable output: p2wsh (revocation key, delay, delayed key) *)
  Variable revokeable_spk : N -> N -> N -> N.
  (** the signature hash of the covered fields, and equality on hashes *)
  Variable H : Type.
  Variable sighash : covered -> H.
  Variable H_eqb : H -> H -> bool.

  Definition sighash_of (ty : shtype) (t : tx) (i script amount : N) : option H :=
    option_map sighash (covered_fields ty t i script amount).

  (** [Amount - Amount] panics on underflow *)
  Definition build_htlc_transaction (c : ctype) (txid vout feerate delay : N) (offered : bool)
      (amount_msat cltv rev delayed : N) : trap tx :=
    let a := ldk_anchors c in
    let value_sat := amount_msat / 1000 in
    let outv :=
      if a then Val value_sat     (* zero-fee and not non-zero-fee *)
      else
        let fee := feerate * htlc_weight a offered / 1000 in
        if fee <=? value_sat then Val (value_sat - fee) else Trap in
    match outv with
    | Trap => Trap
    | Val v =>
        Val (mkTx 2 (if offered then cltv else 0)
                  [mkIn txid vout (if a then 1 else 0)]
                  [mkOut v (revokeable_spk rev delay delayed)])
    end.

  Variable prof : profile.
  Variable warn : stag -> bool.
  Variable pol : policy.

  (** which recogniser accepts the redeemscript: offered is tried first *)
  Definition htlc_kind (rs : rscript) (anchors : bool) : option bool :=
    if parse_offered rs anchors then Some true
    else match parse_received rs anchors with Some _ => Some false | None => None end.

  (** decode_and_validate_htlc_tx: answers (feerate, offered, cltv_expiry) *)
  Definition decode_and_validate_htlc_tx (is_cp : bool) (s : setup) (rev delayed : N) (t : tx)
      (rs_id : N) (rs : rscript) (amount : N) : sres * (N * bool * N) :=
    let c := commitment_type s in
    let to_self_delay := if is_cp then holder_delay s else cp_delay s in
    let ty := if is_anchors c then SH_SingleACP else SH_All in
    let none := (0, false, 0) in
    match sighash_of ty t 0 rs_id amount with
    | None => (SErr H_sighash, none)
    | Some original =>
        match htlc_kind rs (is_anchors c) with
        | None => (SErr H_scripts, none)
        | Some offered =>
            let cltv := if offered then tx_locktime t else 0 in
            match tx_ins t, tx_outs t with
            | i0 :: _, o0 :: _ =>
                match sub_checked amount (out_value o0) with
                | None => (SErr H_fee_underflow, none)
                | Some total_fee =>
                    let feerate :=
                      if is_zero_fee_htlc c then 0
                      else estimate_feerate_per_kw total_fee (htlc_weight (ldk_anchors c) offered) in
                    match mul_p prof amount 1000 with
                    | Trap => (SPanic, none)
                    | Val amount_msat =>
                        match build_htlc_transaction c (prev_txid i0) (prev_vout i0) feerate
                                to_self_delay offered amount_msat cltv rev delayed with
                        | Trap => (SPanic, none)
                        | Val recomposed =>
                            match sighash_of ty recomposed 0 rs_id amount with
                            | None => (SPanic, none)       (* unwrap; it has one input *)
                            | Some h =>
                                if H_eqb h original then (SOk, (feerate, offered, cltv))
                                else (SErr H_mismatch, none)
                            end
                        end
                    end
                end
            | _, _ => (SPanic, none)      (* tx.input[0] / tx.output[0] *)
            end
        end
    end.

  Definition validate_htlc_tx (s : setup) (feerate : N) (offered : bool) (cltv : N) : sres :=
    sthen (if offered && (cltv =? 0) then sperr warn H_locktime else SOk)
   (sthen (if negb (is_zero_fee_htlc (commitment_type s)) && (feerate <? min_feerate pol)
           then sperr warn H_fee_range else SOk)
          (if max_feerate pol <? feerate then sperr warn H_fee_range else SOk)).

  (** Channel::sign_htlc_tx *)
  Definition sign_htlc_tx (is_cp : bool) (s : setup) (rev delayed : N) (t : tx) (rs_id : N)
      (rs : rscript) (amount : N) : sres :=
    match decode_and_validate_htlc_tx is_cp s rev delayed t rs_id rs amount with
    | (SOk, (feerate, offered, cltv)) => validate_htlc_tx s feerate offered cltv
    | (bad, _) => bad
    end.

  (** sign_holder_htlc_tx: the supplied point, or the one of the commitment number *)
  Definition sign_holder_htlc_tx (s : setup) (point_given : bool) (commit_num next_holder : N)
      (rev delayed : N) (t : tx) (rs_id : N) (rs : rscript) (amount : N) : sres :=
    sthen (if point_given then SOk
           else if next_holder + 1 <? commit_num then SErr C_commit_point else SOk)
          (sign_htlc_tx false s rev delayed t rs_id rs amount).

  Definition sign_counterparty_htlc_tx (s : setup) (rev delayed : N) (t : tx) (rs_id : N)
      (rs : rscript) (amount : N) : sres :=
    sign_htlc_tx true s rev delayed t rs_id rs amount.

  (** * BOLT-3: the second-level HTLC transaction of an HTLC output *)

  (** HTLC-timeout (offered) / HTLC-success (received) spending [txid:vout], for an HTLC of
      [amount] sat expiring at [cltv], at fee rate [r], paying to the revokeable script with
      the broadcaster's [delay], the revocation key and the delayed key *)
  Definition bolt3_htlc_fee (c : ctype) (offered : bool) (r : N) : N :=
    if is_zero_fee_htlc c then 0 else r * htlc_weight (is_anchors c) offered / 1000.
  Definition canon_htlc_tx (c : ctype) (txid vout : N) (offered : bool) (cltv amount r delay rev
      delayed : N) : tx :=
    mkTx 2 (if offered then cltv else 0)
         [mkIn txid vout (if is_anchors c then 1 else 0)]
         [mkOut (amount - bolt3_htlc_fee c offered r) (revokeable_spk rev delay delayed)].
End Htlc.

(** * The property, stated mathematically *)

Definition owned (w : wallet) (path : N) (o : txout) : Prop :=
  can_spend w path (out_spk o) = CanSpend \/ allowlisted w (out_spk o) path = true.
Definition AllOutputsOwned (w : wallet) (path : N) (t : tx) : Prop :=
  Forall (owned w path) (tx_outs t).

(** the lock time does not hold the transaction back beyond the current height plus the
    allowed lag: a height lock at most [h + 2], or the timestamp that every block's median time
    past satisfies *)
Definition LocktimeBound (h lt : N) : Prop :=
  (lt < LOCK_TIME_THRESHOLD /\ lt <= h + MAX_CHAIN_LAG) \/ lt = TIME_MIN.

(** the same through rust-bitcoin's predicate: satisfied at height [h + 2] whatever the time *)
Definition LocktimeFinal (h lt : N) : Prop :=
  forall time, TIME_MIN <= time -> is_satisfied_by lt (h + MAX_CHAIN_LAG) time = true.

Definition signed_seq (t : tx) (input : N) : option N := option_map in_seq (nthN (tx_ins t) input).

Definition no_relative_lock (s : N) : Prop := s = 0 \/ s = 4294967293 \/ s = 4294967295.

Definition CpHtlcLocktimeBound (anchors : bool) (h : N) (rs : rscript) (lt : N) : Prop :=
  (exists neg c, parse_received rs anchors = Some (neg, c) /\ (neg = false \/ c = 0) /\ lt <= c) \/
  (parse_received rs anchors = None /\ parse_offered rs anchors = true /\ LocktimeBound h lt).

Definition CpHtlcSequenceBound (anchors : bool) (s : N) : Prop :=
  if anchors then s = 1 else no_relative_lock s.

(** in a release build [amount_sat * 1000] wraps; an HTLC above 2^64/1000 sat (8.7 times the
    money supply) is outside the theorem; debug builds panic there *)
Definition amount_fits (prof : profile) (amount : N) : Prop :=
  prof = Debug \/ amount * 1000 <= U64MAX.
