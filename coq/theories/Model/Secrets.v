(** The compact store for the counterparty's revoked per-commitment secrets, and the BOLT-3
    secret derivation it relies on.  Literal model of

      vls-core/src/policy/validator.rs  CounterpartyCommitmentSecrets
        { old_secrets: Vec<([u8; 32], u64)> }   -- grows by push, at most 49 entries
        new / place_secret / get_min_seen_secret / derive_secret / provide_secret / get_secret

    and of LDK's  lightning::ln::chan_utils::build_commitment_secret(seed, idx)  (the same loop
    with bits = 48), which is what InMemorySigner::release_commitment_secret and
    get_per_commitment_point evaluate on the holder side.

    Definitions only (proofs: Proofs/SecretsProofs.v).  The store is generic in the secret type
    [S], the hash [H], the bit flip [flip] and the equality test [eqS]; the executable instance
    over byte strings and the Gallina SHA-256 is at the end ([bstore], [bprovide], [bget],
    [build_secret]).  Used by C18 (tree / compact storage) and C03. *)
From VLS Require Export Base.U64 Base.Sha256.

Definition TWO48 : N := 281474976710656.          (* 1 << 48 *)

Section Store.
  Variable S : Type.
  Variable H : S -> S.                (* Sha256::hash *)
  Variable flip : nat -> S -> S.      (* res[bitpos / 8] ^= 1 << (bitpos & 7) *)
  Variable eqS : S -> S -> bool.      (* == on [u8; 32] *)

  (** one loop iteration of derive_secret / build_commitment_secret at [bitpos] *)
  Definition dstep (bitpos : nat) (idx : N) (res : S) : S :=
    if N.testbit idx (N.of_nat bitpos) then H (flip bitpos res) else res.

  (** derive_secret(secret, bits, idx): bitpos runs from bits-1 down to 0 *)
  Fixpoint derive_secret (secret : S) (bits : nat) (idx : N) {struct bits} : S :=
    match bits with
    | O => secret
    | Datatypes.S b => derive_secret (dstep b idx secret) b idx
    end.

  (** build_commitment_secret(commitment_seed, idx) *)
  Definition build_commitment_secret (seed : S) (idx : N) : S := derive_secret seed 48 idx.

  (** place_secret(idx): position of the lowest set bit among bits 0..47, else 48 *)
  Fixpoint place_from (n i : nat) (idx : N) : nat :=
    match n with
    | O => i
    | Datatypes.S m => if N.testbit idx (N.of_nat i) then i else place_from m (Datatypes.S i) idx
    end.
  Definition place_secret (idx : N) : nat := place_from 48 0 idx.

  Definition store := list (S * N).
  Definition new_store : store := [].

  (** get_min_seen_secret *)
  Definition min_seen (st : store) : N :=
    fold_left (fun m (e : S * N) => if snd e <? m then snd e else m) st TWO48.

  (** idx & !((1 << i) - 1)   (u64; idx < 2^64) *)
  Definition clear_low (i : nat) (idx : N) : N := N.shiftl (N.shiftr idx (N.of_nat i)) (N.of_nat i).

  (** the loop  for i in 0..pos { derive_secret(secret, pos, old_idx) != old_secret => Err } *)
  Definition consistent (secret : S) (pos : nat) (st : store) : bool :=
    forallb (fun e : S * N => eqS (derive_secret secret pos (snd e)) (fst e)) (firstn pos st).

  Fixpoint upd {A} (n : nat) (v : A) (l : list A) : list A :=
    match l, n with
    | [], _ => []
    | _ :: r, O => v :: r
    | a :: r, Datatypes.S m => a :: upd m v r
    end.
  (** old_secrets[pos] = v  if pos < len, else push *)
  Definition put (pos : nat) (v : S * N) (st : store) : store :=
    if Nat.ltb pos (length st) then upd pos v st else st ++ [v].

  (** provide_secret(idx, secret): new store and [true] for Ok(()), [false] for Err(()) *)
  Definition provide_secret (st : store) (idx : N) (secret : S) : store * bool :=
    let pos := place_secret idx in
    if Nat.ltb (length st) pos then (st, false)
    else if negb (consistent secret pos st) then (st, false)
    else if min_seen st <=? idx then (st, true)
    else (put pos (secret, idx) st, true).

  (** get_secret(idx): first slot i whose index equals idx with its low i bits cleared;
      otherwise None -- guarded in the code by  assert!(idx < get_min_seen_secret()) *)
  Inductive got := Found (s : S) | NotFound | Panics.
  Fixpoint get_from (i : nat) (l : store) (idx : N) : option S :=
    match l with
    | [] => None
    | e :: r => if N.eqb (clear_low i idx) (snd e) then Some (derive_secret (fst e) i idx)
                else get_from (Datatypes.S i) r idx
    end.
  Definition get_secret (st : store) (idx : N) : got :=
    match get_from 0 st idx with
    | Some s => Found s
    | None => if idx <? min_seen st then NotFound else Panics
    end.

  (** feeding a list of (idx, secret) pairs, remembering every answer *)
  Fixpoint provide_trace (st : store) (ops : list (N * S)) : store * list bool :=
    match ops with
    | [] => (st, [])
    | (idx, s) :: r =>
        let '(st1, ok) := provide_secret st idx s in
        let '(st2, oks) := provide_trace st1 r in (st2, ok :: oks)
    end.

  (** the holder side releasing its own secrets in protocol order (commitment numbers
      0, 1, 2, … are indices 2^48-1, 2^48-2, …) into a counterparty's store *)
  Definition idx_of_commit (n : nat) : N := TWO48 - 1 - N.of_nat n.
  Definition feed (seed : S) (acc : store * bool) (n : nat) : store * bool :=
    let '(st, ok) := acc in
    let '(st1, r) := provide_secret st (idx_of_commit n) (build_commitment_secret seed (idx_of_commit n)) in
    (st1, ok && r).
  Definition feed_first (seed : S) (count : nat) : store * bool :=
    fold_left (feed seed) (seq 0 count) (new_store, true).
End Store.

Arguments Found {S} s.
Arguments NotFound {S}.
Arguments Panics {S}.
Arguments upd {A} n v l.

(** * The executable instance: 32-byte strings and SHA-256 *)

(** res[bitpos / 8] ^= 1 << (bitpos & 7) *)
Definition flip_bit (bitpos : nat) (s : bytes) : bytes :=
  match nth_error s (Nat.div bitpos 8) with
  | Some v => upd (Nat.div bitpos 8) (N.lxor v (N.shiftl 1 (N.of_nat (Nat.modulo bitpos 8)))) s
  | None => s
  end.

Definition bstore := store bytes.
Definition build_secret (seed : bytes) (idx : N) : bytes :=
  build_commitment_secret bytes sha256 flip_bit seed idx.
Definition bderive (secret : bytes) (bits : nat) (idx : N) : bytes :=
  derive_secret bytes sha256 flip_bit secret bits idx.
Definition bprovide (st : bstore) (idx : N) (secret : bytes) : bstore * bool :=
  provide_secret bytes sha256 flip_bit bytes_eqb st idx secret.
Definition bget (st : bstore) (idx : N) : got bytes :=
  get_secret bytes sha256 flip_bit st idx.
Definition bmin_seen (st : bstore) : N := min_seen bytes st.
