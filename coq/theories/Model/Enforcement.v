(** Model of the per-channel enforcement state machine:
    vls-core/src/policy/validator.rs (EnforcementState and the set_next_* guards),
    vls-core/src/policy/simple_validator.rs (validate_holder_commitment_tx,
    validate_counterparty_commitment_tx, validate_counterparty_revocation: the parts that read
    the state), vls-core/src/channel.rs (the request methods, in code order, with the point at
    which each one persists) and the handler composites of vls-protocol-signer/src/handler.rs.

    Contents of commitments, points and secrets are identities ([N]); the content / payment
    policy verdict, signature validity and the secret-store chain check enter as per-request
    oracle booleans supplied by the harness from the real validators.  Definitions only. *)
From VLS Require Export Base.U64.

Definition content := N.   (* identity of a (CommitmentInfo2, signatures) value *)
Definition point := N.     (* identity of a counterparty per-commitment point *)

(** policy tags that the state machine raises through [policy_err!] (filterable) *)
Inductive tag :=
| TRevokeNewSigned      (* policy-revoke-new-commitment-signed *)
| TRevokeNotClosed      (* policy-revoke-not-closed *)
| TRetrySame            (* policy-commitment-retry-same *)
| THolderNotRevoked     (* policy-commitment-holder-not-revoked *)
| TSpendsActive         (* policy-commitment-spends-active-utxo *)
| TOther                (* policy-other *)
| TPrevRevoked.         (* policy-commitment-previous-revoked *)

Definition INITIAL_COMMITMENT_NUMBER : N := 281474976710655.   (* 2^48 - 1 *)

Record estate := mkE {
  next_h : N;                  (* next_holder_commit_num *)
  cur_h : option content;      (* current_holder_commit_info (+ signatures) *)
  nxt_h : option content;      (* next_holder_commit_info *)
  closed : bool;               (* channel_closed *)
  next_c : N;                  (* next_counterparty_commit_num *)
  next_r : N;                  (* next_counterparty_revoke_num *)
  cur_pt : option point;       (* current_counterparty_point *)
  prev_pt : option point;      (* previous_counterparty_point *)
  cur_c : option content;      (* current_counterparty_commit_info *)
  prev_c : option content;     (* previous_counterparty_commit_info *)
  secrets : list (N * N)       (* counterparty secrets accepted so far: (revoked number, secret id) *)
}.

Definition fresh_estate : estate :=
  mkE 0 None None false 0 0 None None None None [].

(** a ready channel: memory image and persisted image *)
Record chan := mkC { mem : estate; disk : estate }.

Inductive slot := Stub | Ready (c : chan).

Inductive status := Ok | Refused | Abort.

(** what a request returns, as far as the properties speak about it *)
Record outp := mkO {
  st : status;
  o_point : option N;                       (* holder per-commitment point number returned *)
  o_secret : option N;                      (* holder commitment number whose secret was disclosed *)
  o_hsig : option (N * content);            (* holder commitment signed for broadcast *)
  o_cpsig : option (N * point * content)    (* counterparty commitment signed *)
}.

Definition refused : outp := mkO Refused None None None None.
Definition aborted : outp := mkO Abort None None None None.
Definition ok0 : outp := mkO Ok None None None None.
Definition ok_point (n : N) : outp := mkO Ok (Some n) None None None.
Definition ok_ps (n : N) (s : option N) : outp := mkO Ok (Some n) s None None.

(** what a validation request carries as counterparty signatures: all of them verify on the
    rebuilt transactions; one of them (commitment or HTLC) does not; or the commitment signature
    verifies and there are fewer HTLC signatures than HTLCs, all that are there verifying --
    check_holder_tx_signatures indexes the list by HTLC number and the request dies there *)
Inductive sigq := SGood | SBad | SShort.
Definition sig_of_bool (b : bool) : sigq := if b then SGood else SBad.
Coercion sig_of_bool : bool >-> sigq.

Inductive op :=
(* holder side *)
| ValidateHolder (n : N) (c : content) (sig_ok : sigq) (pol_ok : bool)
| Revoke (n : N) (pay_ok : bool)   (* [pay_ok]: verdict of the node-wide payment check at revocation *)
| Activate
| GetPoint (n : N)
| GetSecret (n : N)                 (* ChannelBase::get_per_commitment_secret *)
| GetSecretOrNone (n : N)
| SignHolder (n : N)                (* sign_holder_commitment_tx_phase2 *)
| SignRecovery
| SignRedundant (n : N) (c : content) (pol_ok : bool)
| MutualClose (ok : bool)           (* sign_mutual_close_tx{,_phase2}: [ok] = its validation verdict *)
(* counterparty side *)
| SignCp (n : N) (pt : point) (c : content) (pol_ok : bool)
| ValidateRevocation (r : N) (pt_of_secret : point) (secret : N) (chains : bool)
(* handler composites *)
| HValidateOld (n : N) (c : content) (sig_ok : sigq) (pol_ok pay_ok : bool)   (* protocol < REVOKE: validate; revoke n *)
| HValidateNew (n : N) (c : content) (sig_ok : sigq) (pol_ok : bool)   (* protocol >= REVOKE *)
| HGetPointOld (n : N)              (* protocol < NO_SECRET: point n and secret n-2 *)
| HRevoke (n : N) (pay_ok : bool)   (* RevokeCommitmentTx: revoke (n+1), reply needs a secret *)
(* life cycle *)
| Setup
| Restart
| SetupRefused.                      (* a setup_channel / SetupChannel that the policy refuses, on whatever the slot is *)

Section Step.
Variable warn : tag -> bool.      (* PolicyFilter: does this tag only warn? *)
Variable prof : profile.

(** [policy_err!]: refuse unless the tag is downgraded *)
Definition perr (t : tag) : bool := negb (warn t).

(** u64 [+] / [-] on a request-supplied number: traps in a debug build, wraps in release *)
Definition tbind {A B} (x : trap A) (d : B) (f : A -> B) : B :=
  match x with Val a => f a | Trap => d end.

(** which holder commitment number a released secret belongs to: LDK's
    build_commitment_secret reads only the low 48 bits of the index *)
Definition secret_number (idx : N) : N :=
  INITIAL_COMMITMENT_NUMBER - idx mod 281474976710656.

(** get_per_commitment_point: [commitment_number > next + 1] refuses *)
Definition point_ok (e : estate) (n : N) : bool := n <=? next_h e + 1.

(** get_per_commitment_secret: [None] = refused (filterable), [Some Trap] = arithmetic abort,
    [Some (Val k)] = the secret of holder commitment number [k] is returned *)
Definition secret_res (e : estate) (n : N) : option (trap N) :=
  (* the bound is computed with a saturating add: an out-of-range number cannot wrap around it *)
  if (next_h e <? sat_add n 2) && perr TRevokeNewSigned then None
  else match sub_p prof INITIAL_COMMITMENT_NUMBER n with
       | Val idx => Some (Val (secret_number idx))
       | Trap => Some Trap
       end.

(** release_commitment_secret n: point n+1 and, for n >= 1, secret n-1 *)
Definition release (e : estate) (n : N) : outp :=
  tbind (add_p prof n 1) aborted (fun n1 =>
  if negb (point_ok e n1) then refused
  else if 1 <=? n then
    match secret_res e (n - 1) with
    | None => refused
    | Some Trap => aborted
    | Some (Val k) => ok_ps n1 (Some k)
    end
  else ok_ps n1 None).

(** SimpleValidator::validate_holder_commitment_tx, the state-dependent part after the
    content policy ([pol_ok]); [None] = abort (expect on a missing current info, overflow) *)
Definition validate_holder_state (e : estate) (n : N) (c : content) : option bool :=
  match add_p prof n 1, add_p prof n 2 with
  | Val n1, Val n2 =>
      let retry :=
        if n1 =? next_h e then
          match cur_h e with
          | None => None
          | Some c0 => Some ((c0 =? c) || negb (perr TRetrySame))
          end
        else Some true in
      match retry with
      | None => None
      | Some r =>
          Some (r
                && negb ((n2 <=? next_h e) && perr THolderNotRevoked)
                && negb ((n =? next_h e) && closed e && perr TSpendsActive))
      end
  | _, _ => None
  end.

Definition set_nxt_h (e : estate) (v : option content) : estate :=
  mkE (next_h e) (cur_h e) v (closed e) (next_c e) (next_r e) (cur_pt e) (prev_pt e)
      (cur_c e) (prev_c e) (secrets e).
Definition advance_h (e : estate) (c : content) : estate :=
  mkE (next_h e + 1) (Some c) None (closed e) (next_c e) (next_r e) (cur_pt e) (prev_pt e)
      (cur_c e) (prev_c e) (secrets e).
Definition set_closed (e : estate) : estate :=
  mkE (next_h e) (cur_h e) (nxt_h e) true (next_c e) (next_r e) (cur_pt e) (prev_pt e)
      (cur_c e) (prev_c e) (secrets e).

Definition persist (e : estate) : chan := mkC e e.
Definition keep (ch : chan) (e : estate) : chan := mkC e (disk ch).

(** validate_holder_commitment_tx{,_phase2} *)
Definition do_validate (ch : chan) (n : N) (c : content) (sig_ok : sigq) (pol_ok : bool) : chan * outp :=
  let e := mem ch in
  if negb (point_ok e n) then (ch, refused)
  else if negb pol_ok then (ch, refused)
  else match validate_holder_state e n c with
       | None => (ch, aborted)
       | Some false => (ch, refused)
       | Some true =>
           match sig_ok with
           | SBad => (ch, refused)
           | SShort => (ch, aborted)
           | SGood =>
               if n =? next_h e then (persist (set_nxt_h e (Some c)), ok0)
               else (ch, ok0)       (* nothing changed: nothing is written *)
           end
       end.

(** revoke_previous_holder_commitment *)
Definition do_revoke (ch : chan) (n : N) (pay_ok : bool) : chan * outp :=
  let e := mem ch in
  if negb (n =? next_h e) then (ch, release e n)
  else if closed e && perr TRevokeNotClosed then (ch, refused)
  else match nxt_h e with
       | None =>
           if perr TRevokeNewSigned then (ch, refused)
           else if point_ok e n then (ch, ok_ps n None) else (ch, refused)
       | Some c =>
           if negb pay_ok then (ch, refused)
           else
           let e' := advance_h e c in
           match release e' n with
           | mkO Ok p s _ _ => (persist e', mkO Ok p s None None)
           | o => (keep ch e', o)     (* unreachable: proved in EnforcementProofs *)
           end
       end.

Definition do_activate (ch : chan) : chan * outp :=
  let e := mem ch in
  if negb (next_h e =? 0) then (ch, refused)
  else match nxt_h e with
       | None => (ch, refused)
       | Some c => (persist (advance_h e c), ok_point 1)
       end.

Definition do_get_point (ch : chan) (n : N) : chan * outp :=
  (ch, if point_ok (mem ch) n then ok_point n else refused).

Definition do_get_secret (ch : chan) (n : N) : chan * outp :=
  (ch, match secret_res (mem ch) n with
       | None => refused
       | Some Trap => aborted
       | Some (Val k) => mkO Ok None (Some k) None None
       end).

(** get_per_commitment_secret_or_none: the bound is not filterable here *)
Definition do_get_secret_or_none (ch : chan) (n : N) : chan * outp :=
  (ch, if next_h (mem ch) <? sat_add n 2 then ok0
       else match sub_p prof INITIAL_COMMITMENT_NUMBER n with
            | Val idx => mkO Ok None (Some (secret_number idx)) None None
            | Trap => aborted
            end).

Definition do_sign_holder (ch : chan) (n : N) : chan * outp :=
  let e := mem ch in
  tbind (add_p prof n 1) (ch, aborted) (fun n1 =>
  if negb (n1 =? next_h e) && perr TOther then (ch, refused)
  else match cur_h e with
       | None => (ch, aborted)
       | Some c =>
           if negb (point_ok e n) then (ch, refused)
           else (persist (set_closed e), mkO Ok None None (Some (n, c)) None)
       end).

Definition do_sign_recovery (ch : chan) : chan * outp :=
  let e := mem ch in
  match cur_h e with
  | None => (ch, refused)
  | Some c =>
      match sub_p prof (next_h e) 1 with
      | Trap => (ch, aborted)
      | Val n =>
          if negb (point_ok e n) then (ch, refused)
          else (persist (set_closed e), mkO Ok None None (Some (n, c)) None)
      end
  end.

Definition do_sign_redundant (ch : chan) (n : N) (c : content) (pol_ok : bool) : chan * outp :=
  let e := mem ch in
  if negb (point_ok e n) then (ch, refused)
  else if negb pol_ok then (ch, refused)
  else match validate_holder_state e n c with
       | None => (ch, aborted)
       | Some false => (ch, refused)
       | Some true => (persist (set_closed e), mkO Ok None None (Some (n, c)) None)
       end.

Definition do_mutual_close (ch : chan) (ok : bool) : chan * outp :=
  if ok then (persist (set_closed (mem ch)), ok0) else (ch, refused).

(** ** counterparty side *)

(** get_previous_counterparty_point / _commit_info; [n1], [n2] are [n+1], [n+2] as computed by
    the machine *)
Definition prev_point_for (e : estate) (n1 n2 : N) : option point :=
  if n1 =? next_c e then cur_pt e
  else if n2 =? next_c e then prev_pt e else None.
Definition prev_info_for (e : estate) (n1 n2 : N) : option content :=
  if n1 =? next_c e then cur_c e
  else if n2 =? next_c e then prev_c e else None.

Definition opt_eqb (a : option N) (b : N) : bool :=
  match a with Some x => x =? b | None => false end.

(** SimpleValidator::validate_counterparty_commitment_tx after the content policy *)
Definition validate_cp_state (e : estate) (n n1 n2 : N) (pt : point) (c : content) : bool :=
  negb ((next_r e + 1 <? n) && perr TPrevRevoked)
  && (if n1 =? next_c e then
        (opt_eqb (cur_pt e) pt || negb (perr TRetrySame))
        && (opt_eqb (prev_info_for e n1 n2) c || negb (perr TRetrySame))
      else true).

(** Validator::set_next_counterparty_commit_num guards *)
Definition cp_commit_guard (e : estate) (num : N) : bool :=
  negb ((num =? 0) && perr TOther)
  && negb ((num <? next_r e + (if num =? 1 then 1 else 2)) && perr TPrevRevoked)
  && negb (negb (num =? next_c e) && negb (num =? next_c e + 1) && perr TPrevRevoked).

(** EnforcementState::set_next_counterparty_commit_num ([None] = the assert num > 0) *)
Definition set_cp_commit (e : estate) (num : N) (pt : point) (c : content) : option estate :=
  if num =? 0 then None else
  let cur := next_c e in
  let '(ppt, pc, cc0) :=
    if num =? cur + 1 then (cur_pt e, cur_c e, None)
    else if (cur + 1 <? num) || (num <? cur) then (None, None, cur_c e)
    else (prev_pt e, prev_c e, cur_c e) in
  let '(cpt, cc) :=
    if cur + 1 <=? num then (Some pt, Some c) else (cur_pt e, cc0) in
  Some (mkE (next_h e) (cur_h e) (nxt_h e) (closed e) num (next_r e) cpt ppt cc pc (secrets e)).

Definition do_sign_cp (ch : chan) (n : N) (pt : point) (c : content) (pol_ok : bool)
  : chan * outp :=
  let e := mem ch in
  if negb pol_ok then (ch, refused)
  else if (next_r e + 1 <? n) && perr TPrevRevoked then (ch, refused)
  else
  tbind (add_p prof n 1) (ch, aborted) (fun n1 =>
  (* [n + 2] is only evaluated on the retry path, inside get_previous_counterparty_commit_info *)
  let n2 := match add_p prof n 2 with Val v => v | Trap => 0 end in
  if negb (validate_cp_state e n n1 n2 pt c) then (ch, refused)
  else if negb (cp_commit_guard e n1) then (ch, refused)
  else match set_cp_commit e n1 pt c with
       | None => (ch, aborted)
       | Some e' => (persist e', mkO Ok None None None (Some (n, pt, c)))
       end).

(** Validator::set_next_counterparty_revoke_num guards *)
Definition cp_revoke_guard (e : estate) (num : N) : bool :=
  negb ((num =? 0) && perr TOther)
  && negb ((num + 2 <? next_c e) && perr TPrevRevoked)
  && negb ((next_c e <? num + 1) && perr TPrevRevoked)
  && negb (negb (num =? next_r e) && negb (num =? next_r e + 1) && perr TPrevRevoked).

Definition set_cp_revoke (e : estate) (num : N) (secs : list (N * N)) : option estate :=
  if num =? 0 then None else
  Some (mkE (next_h e) (cur_h e) (nxt_h e) (closed e) (next_c e) num (cur_pt e) (prev_pt e)
            (cur_c e) (if next_c e <=? num + 1 then None else prev_c e) secs).

(** validate_counterparty_revocation.  All guards are evaluated before the secret is stored
    (the repaired order); the pre-repair code stored the secret first, see [do_revocation_old]. *)
Definition revocation_checks (e : estate) (r r1 r2 : N) (pt_of_secret : point) : bool :=
  negb (negb (r =? next_r e) && negb (r1 =? next_r e) && perr TPrevRevoked)
  && (opt_eqb (prev_point_for e r1 r2) pt_of_secret || negb (perr TPrevRevoked)).

Definition do_revocation (ch : chan) (r : N) (pt_of_secret : point) (secret : N) (chains : bool)
  : chan * outp :=
  let e := mem ch in
  tbind (add_p prof r 1) (ch, aborted) (fun r1 =>
  (* [r + 2] is evaluated only when [r + 1 <> next_c] *)
  match (if r1 =? next_c e then Val 0 else add_p prof r 2) with
  | Trap =>
      if negb (r =? next_r e) && negb (r1 =? next_r e) && perr TPrevRevoked
      then (ch, refused) else (ch, aborted)
  | Val r2 =>
  if negb (revocation_checks e r r1 r2 pt_of_secret) then (ch, refused)
  else
  tbind (sub_p prof INITIAL_COMMITMENT_NUMBER r) (ch, aborted) (fun _ =>
  if negb (cp_revoke_guard e r1) then (ch, refused)
  else if negb chains && perr TPrevRevoked then (ch, refused)
  else
    let secs := if chains then secrets e ++ [(r, secret)] else secrets e in
    match set_cp_revoke e r1 secs with
    | None => (ch, aborted)
    | Some e' => (persist e', ok0)
    end)
  end).

(** ** one request against a slot *)

Definition on_ready (s : slot) (f : chan -> chan * outp) : slot * outp :=
  match s with
  | Stub => (Stub, refused)
  | Ready ch => let '(ch', o) := f ch in (Ready ch', o)
  end.

(** run [g] after [f] succeeded, keeping the last reply (handler composites) *)
Definition and_then (f g : chan -> chan * outp) (ch : chan) : chan * outp :=
  let '(ch1, o1) := f ch in
  match st o1 with
  | Ok => g ch1
  | _ => (ch1, o1)
  end.

Definition step0 (s : slot) (o : op) : slot * outp :=
  match o with
  | ValidateHolder n c sg pl => on_ready s (fun ch => do_validate ch n c sg pl)
  | Revoke n py => on_ready s (fun ch => do_revoke ch n py)
  | Activate => on_ready s do_activate
  | GetPoint n =>
      match s with
      | Stub => (Stub, if (n =? 0) || (n =? 1) then ok_point n else refused)
      | Ready ch => let '(ch', o) := do_get_point ch n in (Ready ch', o)
      end
  | GetSecret n => on_ready s (fun ch => do_get_secret ch n)
  | GetSecretOrNone n =>
      match s with
      | Stub => (Stub, ok0)
      | Ready ch => let '(ch', o) := do_get_secret_or_none ch n in (Ready ch', o)
      end
  | SignHolder n => on_ready s (fun ch => do_sign_holder ch n)
  | SignRecovery => on_ready s do_sign_recovery
  | SignRedundant n c pl => on_ready s (fun ch => do_sign_redundant ch n c pl)
  | MutualClose ok => on_ready s (fun ch => do_mutual_close ch ok)
  | SignCp n pt c pl => on_ready s (fun ch => do_sign_cp ch n pt c pl)
  | ValidateRevocation r p sec chn => on_ready s (fun ch => do_revocation ch r p sec chn)
  | HValidateOld n c sg pl py =>
      on_ready s (and_then (fun ch => do_validate ch n c sg pl) (fun ch => do_revoke ch n py))
  | HValidateNew n c sg pl =>
      on_ready s (and_then (fun ch => do_validate ch n c sg pl)
                           (fun ch => if 1 <=? n
                                      then tbind (add_p prof n 1) (ch, aborted) (fun n1 => do_get_point ch n1)
                                      else do_activate ch))
  | HGetPointOld n =>
      match s with
      | Stub =>
          (Stub, if (n =? 0) || (n =? 1) then ok_point n else refused)
      | Ready ch =>
          if negb (point_ok (mem ch) n) then (s, refused)
          else if 2 <=? n then
            match secret_res (mem ch) (n - 2) with
            | None => (s, refused)
            | Some Trap => (s, aborted)
            | Some (Val k) => (s, ok_ps n (Some k))
            end
          else (s, ok_point n)
      end
  | HRevoke n py =>
      on_ready s (fun ch =>
        (* the handler computes n + 1 with a checked add: out of range is refused *)
        tbind (match add_checked n 1 with Some v => Val v | None => Trap end) (ch, refused) (fun n1 =>
        let '(ch', o) := do_revoke ch n1 py in
        match st o, o_secret o with
        | Ok, None => (ch', refused)      (* "no old secret": replied as an error *)
        | _, _ => (ch', o)
        end))
  | Setup =>
      match s with
      | Stub => (Ready (persist fresh_estate), ok0)
      | Ready _ => (s, refused)
      end
  | Restart =>
      match s with
      | Stub => (Stub, ok0)
      | Ready ch => (Ready (mkC (disk ch) (disk ch)), ok0)
      end
  | SetupRefused => (s, refused)
  end.

(** a panic ends the signer process; the next request is served by a signer restarted from the
    store, so an aborting request leaves the persisted image as the state *)
Definition crash (s : slot) : slot :=
  match s with
  | Stub => Stub
  | Ready ch => Ready (mkC (disk ch) (disk ch))
  end.

Definition step (s : slot) (o : op) : slot * outp :=
  let '(s', r) := step0 s o in
  match st r with
  | Abort => (crash s', r)
  | _ => (s', r)
  end.

End Step.

(** ** histories with ghost ledgers (what the properties speak about) *)

Record ghost := mkG {
  validated : list (N * content);        (* holder commitments accepted with signatures that verify *)
  disclosed : list N;                    (* holder commitment numbers whose secret left the signer *)
  hsigned : list (N * content);          (* holder commitments signed for broadcast *)
  cpsigned : list (N * point * content); (* counterparty commitments signed *)
  cprevoked : list (N * point)           (* accepted counterparty revocations: number, point of the secret *)
}.
Definition ghost0 : ghost := mkG [] [] [] [] [].

Definition opt_cons {A} (o : option A) (l : list A) : list A :=
  match o with Some a => a :: l | None => l end.

(** which (number, content) a request validates with good signatures when it is accepted;
    for the composites the validation half may succeed although the reply is an error, so the
    ghost is driven by the validation verdict, not by the final status *)
Definition validates (warn : tag -> bool) (prof : profile) (s : slot) (o : op) : option (N * content) :=
  match s, o with
  | Ready ch, ValidateHolder n c sg pl
  | Ready ch, HValidateOld n c sg pl _
  | Ready ch, HValidateNew n c sg pl =>
      match st (snd (do_validate warn prof ch n c sg pl)) with
      | Ok => Some (n, c)
      | _ => None
      end
  | _, _ => None
  end.

Definition gstep (warn : tag -> bool) (prof : profile) (sg : slot * ghost) (o : op)
  : (slot * ghost) * outp :=
  let '(s, g) := sg in
  let '(s', r) := step warn prof s o in
  let g' := mkG (opt_cons (validates warn prof s o) (validated g))
                (opt_cons (o_secret r) (disclosed g))
                (opt_cons (o_hsig r) (hsigned g))
                (opt_cons (o_cpsig r) (cpsigned g))
                (match o, st r with
                 | ValidateRevocation rn p _ _, Ok => (rn, p) :: cprevoked g
                 | _, _ => cprevoked g
                 end) in
  ((s', g'), r).

Fixpoint grun (warn : tag -> bool) (prof : profile) (sg : slot * ghost) (ops : list op)
  : slot * ghost :=
  match ops with
  | [] => sg
  | o :: r => grun warn prof (fst (gstep warn prof sg o)) r
  end.

Definition strict : tag -> bool := fun _ => false.   (* the default PolicyFilter: nothing downgraded *)

(** ** the pre-repair behaviours, kept for the [_refuted] examples *)

(** revoke without the policy-revoke-not-closed check and without the payment re-validation *)
Definition do_revoke_old (warn : tag -> bool) (prof : profile) (ch : chan) (n : N) : chan * outp :=
  let e := mem ch in
  if negb (n =? next_h e) then (ch, release warn prof e n)
  else match nxt_h e with
       | None => (ch, refused)
       | Some c =>
           let e' := advance_h e c in
           match release warn prof e' n with
           | mkO Ok p s _ _ => (persist e', mkO Ok p s None None)
           | o => (keep ch e', o)
           end
       end.

(** get_per_commitment_secret with the wrapping guard [commitment_number + 2 > next] of the
    pre-repair code in a release build *)
Definition secret_res_old_release (e : estate) (n : N) : option N :=
  if next_h e <? add_wrap n 2 then None
  else Some (secret_number (sub_wrap INITIAL_COMMITMENT_NUMBER n)).

(** validate_counterparty_revocation as it was before the repair: the secret is stored before
    the counter guards can refuse *)
Definition do_revocation_old (warn : tag -> bool) (ch : chan) (r : N) (pt_of_secret : point)
  (secret : N) (chains : bool) : chan * outp :=
  let e := mem ch in
  if negb (revocation_checks warn e r (r + 1) (r + 2) pt_of_secret) then (ch, refused)
  else if negb chains then (ch, refused)
  else
    let e1 := mkE (next_h e) (cur_h e) (nxt_h e) (closed e) (next_c e) (next_r e) (cur_pt e)
                  (prev_pt e) (cur_c e) (prev_c e) (secrets e ++ [(r, secret)]) in
    if negb (cp_revoke_guard warn e1 (r + 1)) then (keep ch e1, refused)
    else match set_cp_revoke e1 (r + 1) (secrets e1) with
         | None => (keep ch e1, aborted)
         | Some e' => (persist e', ok0)
         end.
