(** Model of the byte strings that are authenticated for externally stored state.

    vls-core/src/persist/mod.rs
      compute_shared_hmac(secret, nonce, kvs) =
        HMAC-SHA256(key = secret, msg = secret ‖ nonce ‖ Σ_i (key_i ‖ be64 version_i ‖ value_i))
      ExternalPersistHelper::client_hmac  : nonce = [0x01]
      ExternalPersistHelper::server_hmac  : nonce = [0x02]
      ExternalPersistHelper::check_hmac   : nonce = last_nonce (32 bytes, set by new_nonce,
                                            all-zero before the first call); Vec == [u8;32]
    lightning-storage-server/lib/src/util.rs (built without the "crypt" feature, as
    vls-frontend / vlsd / vls-proxy do: default-features = false)
      compute_hmac(secret, key, version, value) =
        HMAC-SHA256(key = secret, msg = key ‖ be64 version ‖ value)
      prepare_value_for_put   : value := value ‖ tag
      process_value_from_get  : Err if shorter than 32; split off the last 32 bytes,
                                recompute, compare
      compute_shared_hmac     : the same bytes as the vls-core function

    Nothing is length-delimited.  [mac] (HMAC-SHA256) is a parameter; everything else is
    executable.  Definitions only. *)
From Coq Require Export ZArith.
From VLS Require Export Base.Eqb.
Open Scope N_scope.

Definition bytes : Type := list N.

(** [n] bytes, big endian, of [v mod 256^n]  ([u64::to_be_bytes]; an [i64] version of the
    storage server is modelled by its two's-complement bit pattern, which is what
    [version as i64] / [version as u64] preserve) *)
Fixpoint be_bytes (n : nat) (v : N) : bytes :=
  match n with
  | O => []
  | S k => be_bytes k (v / 256) ++ [v mod 256]
  end.
Definition be64 (v : N) : bytes := be_bytes 8 v.

(** a key-version-value record; keys are the UTF-8 bytes of the Rust [String] *)
Definition record : Type := bytes * N * bytes.
Definition rkey (r : record) : bytes := fst (fst r).
Definition rver (r : record) : N := snd (fst r).
Definition rval (r : record) : bytes := snd r.

(** add_to_hmac: key ‖ be64 version ‖ value *)
Definition ser_value (key : bytes) (ver : N) (val : bytes) : bytes := key ++ be64 ver ++ val.
Definition ser_record (r : record) : bytes := ser_value (rkey r) (rver r) (rval r).
Fixpoint ser_records (rs : list record) : bytes :=
  match rs with
  | [] => []
  | r :: t => ser_record r ++ ser_records t
  end.
(** the message of compute_shared_hmac (the secret is also the HMAC key) *)
Definition ser_shared (secret nonce : bytes) (rs : list record) : bytes :=
  secret ++ nonce ++ ser_records rs.

Definition wf_record (r : record) : Prop := rver r < two64.
Definition wf_records (rs : list record) : Prop := Forall wf_record rs.

(** an input of the shared HMAC: the nonce and the record list *)
Definition input : Type := bytes * list record.
Definition wf_input (a : input) : Prop := wf_records (snd a).
Definition ser_input (secret : bytes) (a : input) : bytes := ser_shared secret (fst a) (snd a).

(** ** Where two inputs are framed differently

    Reading both serialisations from the left, the fields end at
    |nonce|, then for each record |key|, 8, |value|.  [in_diff a b] is the first field whose
    end differs between [a] and [b]; [None] when all fields of [a] and [b] have the same
    extents (the value of the last record needs no comparison: it ends where the string
    ends).  These are the three collision classes of KNOWN_FINDINGS.json. *)
Inductive cls := NonceKey | KeyVersion | MergeSplit.

Fixpoint rec_diff (rs rs' : list record) : option cls :=
  match rs, rs' with
  | [], [] => None
  | [], _ :: _ => Some MergeSplit
  | _ :: _, [] => Some MergeSplit
  | r :: t, r' :: t' =>
      if negb (length (rkey r) =? length (rkey r'))%nat then Some KeyVersion
      else match t, t' with
           | [], [] => None
           | _, _ => if negb (length (rval r) =? length (rval r'))%nat then Some MergeSplit
                     else rec_diff t t'
           end
  end.

Definition in_diff (a b : input) : option cls :=
  if negb (length (fst a) =? length (fst b))%nat then Some NonceKey
  else rec_diff (snd a) (snd b).

(** the class recorded in KNOWN_FINDINGS.json: the two inputs are framed differently *)
Definition Known (a b : input) : Prop := in_diff a b <> None.

(** lengths of the key and the value: two lists with the same shapes are framed alike *)
Definition shape (r : record) : nat * nat := (length (rkey r), length (rval r)).

(** ** Modifications the property quantifies over *)
Definition flip_bit (bit : N) (b : N) : N := N.lxor b (2 ^ bit).
Fixpoint flip_at (i : nat) (bit : N) (l : bytes) : bytes :=
  match l, i with
  | [], _ => []
  | b :: t, O => flip_bit bit b :: t
  | b :: t, S j => b :: flip_at j bit t
  end.

(** an i64 as the u64 with the same bits (i64::to_be_bytes; `version as u64` / `as i64`) *)
Definition wire_version (v : Z) : N := Z.to_N (v mod 18446744073709551616).
Definition is_i64 (v : Z) : Prop := (- 9223372036854775808 <= v < 9223372036854775808)%Z.

Section WithMac.
  (** [mac key msg]: HMAC-SHA256 *)
  Variable mac : bytes -> bytes -> bytes.

  Definition shared_tag (secret nonce : bytes) (rs : list record) : bytes :=
    mac secret (ser_shared secret nonce rs).
  Definition input_tag (secret : bytes) (a : input) : bytes := shared_tag secret (fst a) (snd a).
  Definition value_tag (secret key : bytes) (ver : N) (val : bytes) : bytes :=
    mac secret (ser_value key ver val).

  (** ExternalPersistHelper *)
  Record helper := mkhelper { shared_secret : bytes; last_nonce : bytes }.
  Definition helper_new (secret : bytes) : helper := mkhelper secret (repeat 0 32).
  Definition new_nonce (h : helper) (n : bytes) : helper := mkhelper (shared_secret h) n.
  Definition client_hmac (secret : bytes) (rs : list record) : bytes := shared_tag secret [1] rs.
  Definition server_hmac (secret : bytes) (rs : list record) : bytes := shared_tag secret [2] rs.
  Definition check_hmac (secret nonce : bytes) (rs : list record) (received : bytes) : bool :=
    beq received (shared_tag secret nonce rs).
  Definition helper_check (h : helper) (rs : list record) (received : bytes) : bool :=
    check_hmac (shared_secret h) (last_nonce h) rs received.

  (** vls-util ExternalPersistWithHelper::init_state — the start-up read of vlsd in LSS mode, whose
      result goes into put_batch_unlogged: new_nonce; get("", nonce); the reply (records, tag) is
      accepted iff [check_hmac] verifies the tag for exactly the returned list under that nonce —
      for every list, the empty one included (assert!(success)); only then do the records enter
      the local state.  PrivClient::get applies the same rule to the reply tag before it opens the
      values. *)
  Definition init_state (secret nonce : bytes) (reply_rs : list record) (reply_tag : bytes)
    : option (list record) :=
    if check_hmac secret nonce reply_rs reply_tag then Some reply_rs else None.

  (** lightning-storage-server util *)
  Definition prepare_value_for_put (secret key : bytes) (ver : N) (val : bytes) : bytes :=
    val ++ value_tag secret key ver val.
  Definition split_tag (stored : bytes) : option (bytes * bytes) :=
    if (length stored <? 32)%nat then None
    else Some (firstn (length stored - 32) stored, skipn (length stored - 32) stored).
  Definition process_value_from_get (secret key : bytes) (ver : N) (stored : bytes) : option bytes :=
    match split_tag stored with
    | None => None
    | Some (v, t) => if beq t (value_tag secret key ver v) then Some v else None
    end.
  (** lightning-storage-server client driver: remove_and_check_hmacs, shared by PrivClient::get
      (after the reply tag) and by the conflict branch of PrivClient::put.  The version on the wire
      is an i64; it enters the per-record MAC as the 8 bytes of its two's complement
      ([wire_version]).  EVERY record that comes back — whatever the sign of its version, whatever
      its length — is opened with process_value_from_get; the first one that fails makes the whole
      call fail (ClientError::InvalidHmac(key, version)); nothing is handed back unverified. *)
  Definition wrecord : Type := bytes * Z * bytes.        (* key, i64 version, value on the wire *)
  Fixpoint remove_and_check_hmacs (hmac_secret : bytes) (kvs : list wrecord) : option (list wrecord) :=
    match kvs with
    | [] => Some []
    | (k, v, st) :: t =>
        match process_value_from_get hmac_secret k (wire_version v) st with
        | None => None
        | Some y =>
            match remove_and_check_hmacs hmac_secret t with
            | None => None
            | Some r => Some ((k, v, y) :: r)
            end
        end
    end.
End WithMac.


(** ** Reads over time: the nonces one client sends

    The client side of a read picks the nonce: PrivClient::get (OsRng, 32 bytes),
    ExternalPersistHelper::new_nonce (the entropy source's 32 bytes; vls-util init_state, which
    vlsd's signer calls, and vls-frontend's lss client pass it on unchanged).  A nonce is
    _fresh_ when it was not used before in this history.  [nonces_fresh ns] — [ns] in the order
    the requests were sent — says that every nonce is 32 bytes long and differs from all
    earlier ones.  It is the premise of the replay theorems AND it is evaluated by the driver
    on the nonces the harness observes on the wire (case [CNonces]), so it is checked on the
    implementation, not assumed. *)
Fixpoint nonces_fresh_from (used ns : list bytes) : bool :=
  match ns with
  | [] => true
  | n :: t => (length n =? 32)%nat && negb (existsb (beq n) used) && nonces_fresh_from (n :: used) t
  end.
Definition nonces_fresh (ns : list bytes) : bool := nonces_fresh_from [] ns.

(** ** Witnesses of the three collision classes (used by Props/C17.v and replayed on the
    real functions by the harness; "a" = 97, "b" = 98, "k" = 107, "K" = 75) *)
Definition two56 : N := 72057594037927936.

(** key/version boundary: ("ab", 0, v)  vs  ("a", 0x62·2^56, 0x00 ‖ v) *)
Definition wit_kv_a : record := ([97; 98], 0, [5; 6; 7]).
Definition wit_kv_b : record := ([97], 98 * two56, [0; 5; 6; 7]).

(** record merge/split: two records vs one record whose value swallows the second *)
Definition wit_ms_a : list record := [([97], 1, [120]); ([98], 2, [121])].
Definition wit_ms_b : list record := [([97], 1, [120] ++ [98] ++ be64 2 ++ [121])].

(** nonce/key boundary: nonce [1], key "Kk"  vs  nonce [1; "K"], key "k" *)
Definition wit_nk_a : input := ([1], [([75; 107], 7, [9])]).
Definition wit_nk_b : input := ([1; 75], [([107], 7, [9])]).

(** the same class across the two uses of the tag: the client tag of a put (nonce [1]) of a
    record whose key starts with 31 bytes K31 is a valid answer to a read whose 32-byte nonce
    is 0x01 ‖ K31 *)
Definition wit_k31 : bytes := repeat 75 31.
Definition wit_put_rs : list record := [(wit_k31 ++ [107], 3, [9; 9])].
Definition wit_get_nonce : bytes := 1 :: wit_k31.
Definition wit_get_rs : list record := [([107], 3, [9; 9])].
