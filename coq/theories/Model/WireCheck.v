(** C19 — executable comparison of the (generated) wire model with the Rust implementation.
    The harness domain [wire] prints, for every generated value, the Coq term of the message
    and what the real code did; the functions below recompute it in the model. *)
From Coq Require Export String.
From Coq Require Import List NArith Bool.
From VLS Require Export Base.Codec Base.Eqb Model.Wire Gen.WireGen.
Import ListNotations.
Open Scope N_scope.

(** Evaluation instance of the blobs: a blob is represented by its own serialisation (the
    harness prints real rust-bitcoin / txoo encodings).  It is only a device for comparing
    byte layouts: the parsers accept any window (the PSBT one checks the magic, which is what
    makes a mis-dispatched payload fail like the real parser), and the proof decoder takes
    everything up to the end (a TxoProof only occurs as the last field).  The PSBT carries
    its view next to its bytes. *)
Definition psbt_magic : bytes := [112; 115; 98; 116; 255].
Definition B0 : blob_ops := {|
  TxT := bytes; tx_ser := fun b => b; tx_parse := fun w => Some w;
  PsbtT := bytes * psbt; psbt_view := snd; psbt_ser := fst;
  psbt_parse := fun w => if bytes_eqb (firstn 5 w) psbt_magic
                         then Some (w, {| p_tx := []; p_txins := []; p_inputs := [] |}) else None;
  ProofT := bytes; proof_ser := fun b => b; proof_dec := fun bs => Some (bs, []);
|}.

Definition msg0 := msg B0.
Definition as_vec0 : msg0 -> bytes := as_vec B0.
Definition from_vec0 (bs : bytes) : option (decoded msg0) := from_vec MAX_MESSAGE_SIZE (table B0) bs.

(** what msgs::from_vec did with the bytes of [m]:
    0 = Ok, same variant, re-encodes to the same bytes; 1 = Err;
    3 = Ok but another variant / other bytes; 4 = Unknown *)
Definition model_outcome (m : msg0) (bs : bytes) : N :=
  match from_vec0 bs with
  | None => 1
  | Some (Unknown _) => 4
  | Some (Known m') =>
      if (msg_index B0 m' =? msg_index B0 m) && bytes_eqb (as_vec0 m') bs then 0 else 3
  end.

(** (message, as_vec bytes observed, outcome observed); outcome 2 = as_vec panicked (then no
    bytes): the model must then say the value is not encodable ([ty_msg] false); a value that
    round-trips must be [wf_msg]; a value that is merely too large must still be [ty_msg] *)
Definition wire_case := (msg0 * bytes * N)%type.
Definition check_wire (c : wire_case) : bool :=
  let '(m, bs, out) := c in
  if out =? 2 then negb (ty_msg B0 m)
  else bytes_eqb (as_vec0 m) bs
       && (model_outcome m bs =? out)
       && (if out =? 0 then wf_msg B0 m && ty_msg B0 m else true)
       && (if MAX_MESSAGE_SIZE <? lenN bs then ty_msg B0 m else true).

(** a byte string that is not (necessarily) an encoding: (bytes, kind, index, re-encoded)
    kind 0 = Ok (index = position of the variant in the message list), 1 = Err,
    4 = Unknown (index = the type id) *)
Definition mal_case := (bytes * N * N * bytes)%type.
Definition check_mal (c : mal_case) : bool :=
  let '(bs, kind, idx, re) := c in
  match from_vec0 bs with
  | None => kind =? 1
  | Some (Unknown ty) => (kind =? 4) && (ty =? idx)
  | Some (Known m') => (kind =? 0) && (msg_index B0 m' =? idx) && bytes_eqb (as_vec0 m') re
  end.

(** framed streams: (messages, the bytes msgs::write produced for them back to back, outcome:
    0 = msgs::read / read_message / from_reader returned them one by one, equal, nothing left) *)
Definition write0 (m : msg0) : bytes := frame (as_vec0 m).
Definition read0 (bs : bytes) := read MAX_MESSAGE_SIZE (table B0) bs.
Fixpoint same_all (ms : list msg0) (ds : list (decoded msg0)) : bool :=
  match ms, ds with
  | [], [] => true
  | m :: ms', Known m' :: ds' =>
      (msg_index B0 m' =? msg_index B0 m) && bytes_eqb (as_vec0 m') (as_vec0 m) && same_all ms' ds'
  | _, _ => false
  end.
Definition model_stream (ms : list msg0) (bs : bytes) : N :=
  match read_stream MAX_MESSAGE_SIZE (table B0) (length ms) bs with
  | Some (ds, []) => if same_all ms ds then 0 else 1
  | _ => 1
  end.
Definition stream_case := (list msg0 * bytes * N)%type.
Definition check_stream (c : stream_case) : bool :=
  let '(ms, bs, out) := c in
  bytes_eqb (concat (map write0 ms)) bs && (model_stream ms bs =? out).

(** one msgs::read on a byte stream that is not (necessarily) a frame:
    (bytes, kind, index, re-encoded, bytes left on the stream afterwards) *)
Definition fmal_case := (bytes * N * N * bytes * N)%type.
Definition check_fmal (c : fmal_case) : bool :=
  let '(bs, kind, idx, re, remaining) := c in
  match read0 bs with
  | None => kind =? 1
  | Some (Unknown ty, r) => (kind =? 4) && (ty =? idx) && (lenN r =? remaining)
  | Some (Known m', r) => (kind =? 0) && (msg_index B0 m' =? idx) && bytes_eqb (as_vec0 m') re && (lenN r =? remaining)
  end.

(** StreamedPSBT: (view of the PSBT that was encoded, what the decoder produced: per-input
    witness_utxo after decoding, whether a non_witness_utxo was retained anywhere, flags) *)
#[global] Instance Eqb_txout : Eqb txout := txout_eqb.
Definition psbt_case := (psbt * option (list (option txout) * bool * list bool))%type.
Definition check_psbt (c : psbt_case) : bool :=
  let '(p, obs) := c in
  match streamed_post p, obs with
  | None, None => negb (streamable p)
  | Some (p', fl), Some (wus, kept, fl') =>
      streamable p && beq (map i_wu (p_inputs p')) wus && beq fl fl' && negb kept
      && forallb (fun i => match i_nwu i with None => true | Some _ => false end) (p_inputs p')
  | _, _ => false
  end.

(** Script::is_witness_program and Script::is_p2sh: (script, is_witness_program, is_p2sh) *)
Definition wp_case := (bytes * bool * bool)%type.
Definition check_wp (c : wp_case) : bool :=
  let '(s, w, h) := c in Bool.eqb (is_witness_program s) w && Bool.eqb (is_p2sh s) h.
