(** Executable comparison of the tracker model with observations of the implementation
    (evaluated by [vm_compute] in generated case files). *)
From VLS Require Export Base.Eqb Model.Tracker.

(** result codes of the harness: 0 Ok, 1..6 the tracker::Error variants in declaration
    order, 7 a panic *)
Definition code_of (r : result) : N :=
  match r with
  | Ok => 0
  | Err InvalidChain => 1
  | Err OrphanBlock => 2
  | Err InvalidBlock => 3
  | Err BlockDecodeError => 4
  | Err ReorgTooDeep => 5
  | Err InvalidProof => 6
  | Abort => 7
  end.

(** the persisted image as the harness reads it from ChainTrackerEntry: height, tip (hash,
    filter header), remembered (hash, filter header) pairs, listeners (key, txid watches,
    watches, seen, monitor state) *)
Definition slot_obs : Type := N * list N * list N * list N * N.
Definition view_obs : Type := N * (N * N) * list (N * N) * list slot_obs.
Definition obs : Type := N * view_obs.

Definition hview (h : headers) : N * N := (hid (fst h), snd h).
Definition slot_view (sl : slot) : slot_obs := (skey sl, stxw sl, swatch sl, sseen sl, smon sl).
Definition view_of (s : tstate) : view_obs :=
  (height s, hview (tip s), map hview (hdrs s), map slot_view (slots s)).

Definition tracker_case : Type := cfg * tstate * list req * list obs.

Fixpoint trace (v : variant) (c : cfg) (s : tstate) (rs : list req) : list obs :=
  match rs with
  | [] => []
  | r :: t =>
      let '(s1, res) := step v c s r in
      match res with
      | Abort => [(code_of res, view_of s)]       (* the harness stops at a panic *)
      | _ => (code_of res, view_of s1) :: trace v c s1 t
      end
  end.

Definition tracker_model (c : tracker_case) : list obs :=
  let '(cf, s0, rs, _) := c in trace fixed cf s0 rs.
Definition check_tracker (c : tracker_case) : bool := beq (tracker_model c) (snd c).

(** the same histories against the model of the code before the repairs (used to explain a
    disagreement: which of the two known defects the implementation still shows) *)
Definition tracker_model_v (pe cr : bool) (c : tracker_case) : list obs :=
  let '(cf, s0, rs, _) := c in trace (mkvar pe cr) cf s0 rs.
Definition check_tracker_v (pe cr : bool) (c : tracker_case) : bool :=
  beq (tracker_model_v pe cr c) (snd c).

(** index of the first step on which model and implementation differ, with both observations *)
Fixpoint first_diff (a b : list obs) (i : N) : option (N * option obs * option obs) :=
  match a, b with
  | [], [] => None
  | x :: a', y :: b' => if beq x y then first_diff a' b' (i + 1) else Some (i, Some x, Some y)
  | x :: _, [] => Some (i, Some x, None)
  | [], y :: _ => Some (i, None, Some y)
  end.
Definition explain (pe cr : bool) (c : tracker_case) := first_diff (tracker_model_v pe cr c) (snd c) 0.

(** the same requests through vls-protocol-signer's RootHandler: AddBlock answers an
    OrphanBlock with a SignerError reply, every other refusal of the tracker (and every
    refusal of RemoveBlock) is a panic of the signer; the harness stops there *)
Fixpoint trace_h (v : variant) (c : cfg) (s : tstate) (rs : list req) : list obs :=
  match rs with
  | [] => []
  | r :: t =>
      let '(s1, res) := step v c s r in
      match r, res with
      | _, Ok => (0, view_of s1) :: trace_h v c s1 t
      | Add _ _, Err OrphanBlock => (2, view_of s1) :: trace_h v c s1 t
      | _, _ => [(7, view_of s)]
      end
  end.
Definition check_handler (c : tracker_case) : bool :=
  let '(cf, s0, rs, o) := c in beq (trace_h fixed cf s0 rs) o.
Definition explain_h (c : tracker_case) :=
  let '(cf, s0, rs, o) := c in first_diff (trace_h fixed cf s0 rs) o 0.
