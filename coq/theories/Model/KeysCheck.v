(** Executable comparison of the key-derivation model and of the compact secret store with
    observations of the implementation (evaluated by [vm_compute] in generated case files).

    HKDF and SHA-256 are the Gallina functions of Base/Sha256.v.  BIP32 is symbolic: an
    extended key is its path of hardened child numbers from the master, and the private key
    of a path comes from the oracle table of the case (computed by rust-bitcoin in the
    harness; only the LDK style reads it, for m/3'/index').  The LND path is not evaluated. *)
From Coq Require Import String.
From VLS Require Export Base.Eqb Model.Keys.

Definition sxpriv : Type := list N.
Definition oracle : Type := list (list N * bytes).
Fixpoint olookup (p : list N) (o : oracle) : bytes :=
  match o with
  | [] => []
  | (q, v) :: r => if list_eqb N.eqb q p then v else olookup p r
  end.

Definition x_master (_ : N) (_ : bytes) : sxpriv := [].
Definition x_child (x : sxpriv) (i : N) : sxpriv := x ++ [i].
Definition x_lnd (_ : N) (_ : sxpriv) (_ _ : N) : bytes := [].

Definition x_keys_of (o : oracle) (st : style) (net : N) (seed id : bytes) : option chkeys :=
  keys_of hkdf_sha256 sha256 sxpriv x_master x_child (fun x => olookup x o) x_lnd st net seed id.
Definition x_run (o : oracle) (seed : bytes) (st : style) (net : N) (ops : list op) : node :=
  run hkdf_sha256 sha256 sxpriv x_master x_child (fun x => olookup x o) x_lnd seed st net ops.
Definition x_keys_id (st : style) (seed id : bytes) : bytes :=
  keys_id hkdf_sha256 st (channels_seed hkdf_sha256 seed) id.

(** secret of commitment number n (any n < 2^48) *)
Definition secret_at (cseed : bytes) (n : N) : bytes := build_secret cseed (TWO48 - 1 - n).

Lemma commit_secret_is_secret_at k n : commit_secret sha256 k n = secret_at (k_cseed k) (N.of_nat n).
Proof. reflexivity. Qed.

#[global] Instance Eqb_style : Eqb style :=
  fun a b => match a, b with Native, Native | Ldk, Ldk | Lnd, Lnd => true | _, _ => false end.

(** * keys: ((style, net, seed, id), oracle, observed [funding; revocation; htlc; payment;
      delayed; commitment_seed], observed keys_id, [(commitment number, released secret)]) *)
Definition keys_case : Type :=
  (style * N * bytes * bytes) * oracle * list bytes * bytes * list (N * bytes).

Definition keys_model (c : keys_case) : option (list bytes * bytes * list (N * bytes)) :=
  let '((st, net, seed, id), o, _, _, secs) := c in
  match x_keys_of o st net seed id with
  | Some k => Some ([k_funding k; k_revocation k; k_htlc k; k_payment k; k_delayed k; k_cseed k],
                    x_keys_id st seed id,
                    map (fun ns : N * bytes => (fst ns, secret_at (k_cseed k) (fst ns))) secs)
  | None => None
  end.

Definition check_keys (c : keys_case) : bool :=
  let '(_, _, obs, kid, secs) := c in beq (keys_model c) (Some (obs, kid, secs)).

(** * store: (provided [(idx, secret)], per step [(ok, min_seen after)], final old_secrets
      [(secret, idx)], queries [(idx, kind, secret)] with kind 0 = Some, 1 = None, 2 = panic) *)
Definition store_case : Type :=
  list (N * bytes) * list (bool * N) * list (bytes * N) * list (N * N * bytes).

Fixpoint store_trace (st : bstore) (ops : list (N * bytes)) : bstore * list (bool * N) :=
  match ops with
  | [] => (st, [])
  | (idx, s) :: r =>
      let '(st1, ok) := bprovide st idx s in
      let '(st2, t) := store_trace st1 r in (st2, (ok, bmin_seen st1) :: t)
  end.

Definition got_obs (g : got bytes) : N * bytes :=
  match g with Found s => (0, s) | NotFound => (1, []) | Panics => (2, []) end.

Definition store_model (c : store_case) : list (bool * N) * list (bytes * N) * list (N * N * bytes) :=
  let '(ops, _, _, qs) := c in
  let '(st, t) := store_trace [] ops in
  (t, st, map (fun q : N * N * bytes => let i := fst (fst q) in
                                      let '(kd, s) := got_obs (bget st i) in (i, kd, s)) qs).

Definition check_store (c : store_case) : bool :=
  let '(_, t, fin, qs) := c in beq (store_model c) (t, fin, qs).

(** * future: ((style, net, seed, id), oracle, [(commitment number, suggested secret, answer of the
      CheckFutureSecret route)]); the model derives the channel's commitment seed from (seed, id)
      and answers [suggested = secret_at seed n] *)
Definition future_case : Type := (style * N * bytes * bytes) * oracle * list (N * bytes * bool).

Definition x_check_future (cseed : bytes) (n : N) (s : bytes) : bool := bytes_eqb s (secret_at cseed n).

Lemma check_future_secret_is_x k n s :
  check_future_secret sha256 k n s = x_check_future (k_cseed k) (N.of_nat n) s.
Proof. reflexivity. Qed.

Definition future_model (c : future_case) : option (list (N * bytes * bool)) :=
  let '((st, net, seed, id), o, qs) := c in
  match x_keys_of o st net seed id with
  | Some k => Some (map (fun q : N * bytes * bool =>
                           (fst (fst q), snd (fst q), x_check_future (k_cseed k) (fst (fst q)) (snd (fst q)))) qs)
  | None => None
  end.

Definition check_future (c : future_case) : bool :=
  let '(_, _, qs) := c in beq (future_model c) (Some qs).

(** * ids: (peer id, dbid, the id bytes the signer uses for that channel: the slot's id0 and the
      store key); the model's encoder must produce exactly those bytes *)
Definition id_case : Type := bytes * N * bytes.
Definition check_id (c : id_case) : bool :=
  let '(peer, dbid, real) := c in beq (chan_id_of peer dbid) real.
