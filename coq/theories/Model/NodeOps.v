(** Model of the node-level requests and of what each of them writes to the store
    (vls-core/src/node.rs: new_channel, setup_channel, forget_channel, get_heartbeat /
    prune_channels, add/remove/set_allowlist, add_keysend, with_channel; restore_node), in
    code order, with a memory image and the persisted entries side by side.  Used for C10 / C11
    at node level; the per-channel enforcement state is Model/Enforcement.v.  Definitions only. *)
From VLS Require Export Base.U64.

Inductive skind := SNone | SStub | SReady | SForgot.   (* SForgot = ready, forget flag seen *)

(** what the properties list at node level, for channel ids 1..n and a small address universe *)
Record nview := mkNV {
  slots : N -> skind;
  hwm : N;                       (* dbid_high_water_mark *)
  allow : N -> bool;             (* allowlist membership *)
  ninv : N;                      (* number of approved invoices *)
  iss : N -> option N            (* issued invoices: payment hash -> amount (NodeState::issued_invoices) *)
}.

(** the persisted entries: node entry (hwm, invoices), allowlist entry, channel entries (stub /
    ready), tracker entry (holds the channel monitors with their forget flags) *)
Record ndisk := mkND {
  d_hwm : N;
  d_ninv : N;
  d_allow : N -> bool;
  d_chan : N -> skind;           (* SNone / SStub / SReady only *)
  d_forgot : N -> bool;          (* monitor state inside the tracker entry *)
  d_iss : N -> option N          (* the issued invoices inside the node entry, as of its last write *)
}.

Record nnode := mkNN { nmem : nview; ndsk : ndisk }.

Definition updk {A} (f : N -> A) (k : N) (v : A) : N -> A := fun x => if x =? k then v else f x.

(** what a restart reads back *)
Definition nrestore (d : ndisk) : nview :=
  mkNV (fun c => match d_chan d c with
                 | SReady => if d_forgot d c then SForgot else SReady
                 | k => k
                 end)
       (d_hwm d) (d_allow d) (d_ninv d) (d_iss d).

Inductive nop :=
| NewChannel (d : N)
| SetupChannel (d : N)
| ForgetChannel (d : N)
| Heartbeat
| AddAllow (k : N) (parses : bool)      (* [parses]: every entry of the request parses *)
| RemoveAllow (k : N) (parses : bool)
| SetAllow (k : N) (parses : bool)        (* replace the list by [address k]; k = 3: by the empty list *)
| AddInvoice
| IssueInvoice (h a : N)                (* sign_bolt11_invoice for payment hash [h] (1..5), [a] msat *)
| ChannelRequest (d : N)                (* a channel request that the channel refuses, or a setup_channel that policy refuses *)
| NRestart.

Definition set_slot (s : nnode) (d : N) (k : skind) (dk : skind) : nnode :=
  mkNN (mkNV (updk (slots (nmem s)) d k) (hwm (nmem s)) (allow (nmem s)) (ninv (nmem s)) (iss (nmem s)))
       (mkND (d_hwm (ndsk s)) (d_ninv (ndsk s)) (d_allow (ndsk s)) (updk (d_chan (ndsk s)) d dk)
             (d_forgot (ndsk s)) (d_iss (ndsk s))).

Definition bump_hwm (s : nnode) (d : N) : nnode :=
  if hwm (nmem s) <? d then
    (* the node entry is written: it carries the issued invoices as they are in memory now *)
    mkNN (mkNV (slots (nmem s)) d (allow (nmem s)) (ninv (nmem s)) (iss (nmem s)))
         (mkND d (d_ninv (ndsk s)) (d_allow (ndsk s)) (d_chan (ndsk s)) (d_forgot (ndsk s)) (iss (nmem s)))
  else s.

Definition set_allow (s : nnode) (f : N -> bool) : nnode :=
  mkNN (mkNV (slots (nmem s)) (hwm (nmem s)) f (ninv (nmem s)) (iss (nmem s)))
       (mkND (d_hwm (ndsk s)) (d_ninv (ndsk s)) f (d_chan (ndsk s)) (d_forgot (ndsk s)) (d_iss (ndsk s))).

Definition MAX_INV : N := 4.

(** the payment hashes of the issued invoices of this domain *)
Definition ISS_HASHES : list N := [1; 2; 3; 4; 5].
Definition iss_count (f : N -> option N) : N :=
  N.of_nat (length (filter (fun h => match f h with Some _ => true | None => false end) ISS_HASHES)).

Definition nstep (s : nnode) (o : nop) : nnode * bool :=
  match o with
  | NewChannel d =>
      if d <=? hwm (nmem s) then (s, false)
      else match slots (nmem s) d with
           | SNone => (set_slot s d SStub SStub, true)
           | _ => (s, true)                      (* the existing slot is returned *)
           end
  | SetupChannel d =>
      match slots (nmem s) d with
      | SStub => (set_slot s d SReady SReady, true)
      | SReady | SForgot => (s, true)    (* the same setup again: the existing channel is returned *)
      | SNone => (s, false)
      end
  | ForgetChannel d =>
      match slots (nmem s) d with
      | SNone => (s, true)
      | SStub => (bump_hwm (set_slot s d SNone SNone) d, true)
      | SReady | SForgot =>
          (* flag in the monitor; channel entry written; tracker entry written (the repair) *)
          let s1 := set_slot s d SForgot SReady in
          let s2 := mkNN (nmem s1)
                         (mkND (d_hwm (ndsk s1)) (d_ninv (ndsk s1)) (d_allow (ndsk s1)) (d_chan (ndsk s1))
                               (updk (d_forgot (ndsk s1)) d true) (d_iss (ndsk s1))) in
          (bump_hwm s2 d, true)
      end
  | Heartbeat => (s, true)     (* nothing is buried deep enough in this domain: nothing is pruned *)
  | AddAllow k p => if p then (set_allow s (updk (allow (nmem s)) k true), true) else (s, false)
  | RemoveAllow k p => if p then (set_allow s (updk (allow (nmem s)) k false), true) else (s, false)
  | SetAllow k p => if p then (set_allow s (fun x => x =? k), true) else (s, false)
  | AddInvoice =>
      (* Node::add_keysend with a new hash: refused, before anything is counted, when the
         approvals table is full (policy.max_invoices, set to [MAX_INV] by the harness) *)
      if MAX_INV <=? ninv (nmem s) then (s, false) else
      (mkNN (mkNV (slots (nmem s)) (hwm (nmem s)) (allow (nmem s)) (ninv (nmem s) + 1) (iss (nmem s)))
            (mkND (d_hwm (ndsk s)) (ninv (nmem s) + 1) (d_allow (ndsk s)) (d_chan (ndsk s)) (d_forgot (ndsk s))
                  (iss (nmem s))),
       true)
  | IssueInvoice h a =>
      (* Node::sign_bolt11_invoice: refused when the table of issued invoices is full; the same
         invoice again is signed again and nothing moves; another invoice for a hash that has one
         is refused and nothing moves; an invoice that names no amount is signed and not tracked.
         Nothing is written: the node entry takes the table along with its next write. *)
      if MAX_INV <=? iss_count (iss (nmem s)) then (s, false)
      else match iss (nmem s) h with
           | Some a' => (s, a' =? a)
           | None =>
               if 0 <? a
               then (mkNN (mkNV (slots (nmem s)) (hwm (nmem s)) (allow (nmem s)) (ninv (nmem s))
                                (updk (iss (nmem s)) h (Some a)))
                          (ndsk s), true)
               else (s, true)
           end
  | ChannelRequest _ => (s, false)
  | NRestart => (mkNN (nrestore (ndsk s)) (ndsk s), true)
  end.

Definition ninit : nnode :=
  mkNN (mkNV (fun _ => SNone) 0 (fun _ => false) 0 (fun _ => None))
       (mkND 0 0 (fun _ => false) (fun _ => SNone) (fun _ => false) (fun _ => None)).

Fixpoint nrun (s : nnode) (ops : list nop) : nnode :=
  match ops with [] => s | o :: r => nrun (fst (nstep s o)) r end.

(** forget_channel as it was before the repair: the tracker entry is not written *)
Definition forget_old (s : nnode) (d : N) : nnode :=
  match slots (nmem s) d with
  | SReady | SForgot => bump_hwm (set_slot s d SForgot SReady) d
  | _ => s
  end.

(** add_allowlist as it was before the repair, for a request [good k; unparsable]: the good
    entry is applied in memory, then the request fails and nothing is written *)
Definition add_allow_old_partial (s : nnode) (k : N) : nnode * bool :=
  (mkNN (mkNV (slots (nmem s)) (hwm (nmem s)) (updk (allow (nmem s)) k true) (ninv (nmem s)) (iss (nmem s))) (ndsk s), false).
