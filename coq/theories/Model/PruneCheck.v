(** Executable comparison of the pruning model with observations of a real Node
    (evaluated by [vm_compute] in generated case files). *)
From VLS Require Export Base.Eqb Model.Prune.

(** what the harness reads from a ready channel's monitor: height, funding_double_spent_height,
    mutual_closing_height, unilateral_closing_height, closing_swept_height, our_output_swept_height *)
Definition mon_obs : Type := (N * option N * option N * option N * option N * option N)%type.
Definition obs_mon (m : mon) : mon_obs :=
  let s := m_state m in
  (height s, dsh s, mutual_h s, unilateral_h s, closing_swept_h s, our_swept_h s).

(** a slot: Stub (created) | Ready (has a permanent id, forget_seen, is_done, monitor) *)
Inductive slot_obs :=
| OStub (created : N)
| OReady (alias forgot done : bool) (mo : mon_obs).
#[global] Instance Eqb_slot_obs : Eqb slot_obs := fun a b =>
  match a, b with
  | OStub x, OStub y => beq x y
  | OReady a1 f1 d1 m1, OReady a2 f2 d2 m2 => beq a1 a2 && beq f1 f2 && beq d1 d2 && beq m1 m2
  | _, _ => false
  end.
Definition obs_slot (sl : slot) : slot_obs :=
  match sl with
  | Stub c => OStub c
  | Ready _ a m fg _ _ => OReady a fg (is_done (m_state m) fg) (obs_mon m)
  end.

(** 0 = Ok, otherwise the code of the returned Status (FailedPrecondition = 9,
    InvalidArgument = 3); error strings are not compared *)
Definition outcome_code (o : outcome) : N :=
  match o with
  | Done => 0
  | Refused EReuse => 9
  | Refused EFull => 9
  | Refused ENoChannel => 3
  | Refused EDifferentSetup => 3
  | Refused ENoBlock => 100
  end.

(** after an operation: Ok / kind of Err; the channels in memory (sorted by id); the
    channel entries in the store, with the forget flag that the stored tracker entry holds
    for a ready one; the high-water mark in memory and in the store; the tracker height *)
Definition nobs : Type := (N * list (chanid * slot_obs) * list (chanid * option bool) * N * N * N)%type.
Definition stored_flag (sl : slot) : option bool :=
  match sl with Ready _ _ _ _ fd _ => Some fd | Stub _ => None end.
Definition obs_node (o : outcome) (s : node) : nobs :=
  (outcome_code o, map (fun p => (fst p, obs_slot (snd p))) (chans s),
   map (fun p => (fst p, stored_flag (snd p))) (chans s), hwm s, hwm s, theight s).

(** an operation of a case: one request, or a run of [n] empty blocks connected one after
    the other and observed once, after the last *)
Inductive cop := One (o : nop) | Burst (n : nat).
Definition expand (cs : list cop) : list nop :=
  flat_map (fun c => match c with One o => [o] | Burst n => repeat (AddBlock []) n end) cs.

Fixpoint burst (p : params) (s : node) (n : nat) : res (node * outcome) :=
  match n with
  | O => Ok (s, Done)
  | S k => '(s', _) <- step p s (AddBlock []) ;; burst p s' k
  end.

(** [None] = the call panicked; nothing is compared after a panic *)
Fixpoint ntrace (p : params) (s : node) (ops : list cop) : list (option nobs) :=
  match ops with
  | [] => []
  | c :: r => match (match c with One o => step p s o | Burst n => burst p s n end) with
              | Ok (s', out) => Some (obs_node out s') :: ntrace p s' r
              | Abort => [None]
              end
  end.

(** constants read from the source under test; parameters; initial tracker height; the
    operations; whether the generator claims the block history admissible; observations *)
Definition pcase : Type :=
  ((N * N * N) * params * N * list cop * bool * list (option nobs))%type.

Definition case_model (c : pcase) : list (option nobs) :=
  let '(_, p, h, ops, _, _) := c in ntrace p (init_node h) ops.

Definition check_case (c : pcase) : bool :=
  let '(consts, p, h, ops, claimed, seen) := c in
  beq consts model_consts
  && beq (case_model c) seen
  && (if claimed then hist_admissible p (init_node h) (expand ops) else true).

(** the same against the model of the code before the repair of forget_channel (used to tell
    which tree is under test when a disagreement is reported) *)
Definition check_case_old (c : pcase) : bool :=
  let '(consts, p, h, ops, claimed, seen) := c in
  beq (ntrace (mkparams (regtest p) (max_channels p) false) (init_node h) ops) seen.
