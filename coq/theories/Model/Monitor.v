(** Model of vls-core/src/monitor.rs (monitor::State, StateChange, the push listener that
    derives the changes of a block, apply_forward_change / apply_backward_change,
    on_add_block_end / on_remove_block_end, the swept-height bookkeeping, is_done) and of
    the watch bookkeeping in vls-core/src/chain/tracker.rs (notify_listeners_add /
    notify_listeners_remove on one ListenSlot).  Definitions only.

    Abstraction: a transaction is its txid, its inputs (outpoints), its number of outputs
    and the answer of the classification oracle for "this transaction spends the funding
    outpoint: is it a commitment transaction (our output index, spendable HTLC output
    indexes) or a mutual close" (decode_commitment_number / decode_commitment_tx /
    get_spendable_htlc_indices are not modelled).  [Abort] is a Rust panic ([unwrap] on
    [None], [expect], [assert!], u32 overflow in a debug build).

    The push listener threads a clone of the whole State and applies every detected change
    to it; it only ever reads [funding_outpoint] and [closing_outpoints] from that clone
    (the [core] below), so the model threads the core.  The same [core_fwd] is used by
    [apply_forward]. *)
From VLS Require Export Base.U64.

Definition outpoint : Type := (N * N)%type.     (* txid, vout *)
Definition op_eqb (a b : outpoint) : bool := (fst a =? fst b) && (snd a =? snd b).
Definition mem_op (o : outpoint) (l : list outpoint) : bool := existsb (op_eqb o) l.

Inductive res (A : Type) := Ok (a : A) | Abort.
Arguments Ok {A} a.
Arguments Abort {A}.
Definition bind {A B} (x : res A) (f : A -> res B) : res B :=
  match x with Ok a => f a | Abort => Abort end.
Notation "x <- e ;; f" := (bind e (fun x => f)) (at level 61, e at next level, right associativity).
Notation "' p <- e ;; f" := (bind e (fun p => f))
  (at level 61, p pattern, e at next level, right associativity).

(** classification oracle, consulted only for a transaction that spends the funding outpoint *)
Inductive close_kind :=
| NotCommitment                                         (* decode_commitment_number = None: mutual close *)
| Commitment (our : option N) (htlcs : list N)          (* our output index, spendable HTLC indexes *)
| CommitmentNoInfo.                                     (* get_spendable_htlc_indices fails: [expect] panics *)

Record tx := mktx { tx_id : N; tx_ins : list outpoint; tx_nout : N; tx_close : close_kind }.
Definition block : Type := list tx.

(** what add_funding_outpoint / add_funding_inputs registered before the first block *)
Record cfg := mkcfg { ftxid : N; fvout : N; finputs : list outpoint }.
Definition fund (g : cfg) : outpoint := (ftxid g, fvout g).

(** ClosingOutpoints; htlc_outputs and htlc_spents are zipped *)
Record closing := mkclosing {
  c_txid : N;
  c_our : option (N * bool);
  c_htlcs : list (N * bool);
  c_second : list (outpoint * bool)
}.

Definition core : Type := (option outpoint * option closing)%type.

Inductive change :=
| FundingConfirmed (o : outpoint)
| FundingInputSpent (o : outpoint)
| UnilateralClose (txid : N) (fo : outpoint) (our : option N) (htlcs : list N)
| MutualClose (txid : N) (fo : outpoint)
| OurOutputSpent (vout : N)
| HTLCOutputSpent (vout : N) (slo : outpoint)
| SecondLevelSpent (o : outpoint).

Definition includes_our (c : closing) (o : outpoint) : bool :=
  (c_txid c =? fst o) && match c_our c with Some (i, _) => i =? snd o | None => false end.
Definition includes_htlc (c : closing) (o : outpoint) : bool :=
  (c_txid c =? fst o) && existsb (fun p => fst p =? snd o) (c_htlcs c).
Definition includes_second (c : closing) (o : outpoint) : bool :=
  existsb (fun p => op_eqb (fst p) o) (c_second c).

(** update the first element satisfying [p]; [None] when there is none (position().unwrap()) *)
Fixpoint set_first {A} (p : A -> bool) (f : A -> A) (l : list A) : option (list A) :=
  match l with
  | [] => None
  | x :: r => if p x then Some (f x :: r)
              else match set_first p f r with Some r' => Some (x :: r') | None => None end
  end.

Definition set_our (c : closing) (vout : N) (b : bool) : res closing :=
  match c_our c with
  | Some (i, _) => if i =? vout then Ok (mkclosing (c_txid c) (Some (i, b)) (c_htlcs c) (c_second c))
                   else Abort
  | None => Abort
  end.
Definition set_htlc (c : closing) (vout : N) (b : bool) : res closing :=
  match set_first (fun p => fst p =? vout) (fun p => (fst p, b)) (c_htlcs c) with
  | Some h => Ok (mkclosing (c_txid c) (c_our c) h (c_second c))
  | None => Abort
  end.
Definition set_second (c : closing) (o : outpoint) (b : bool) : res closing :=
  match set_first (fun p => op_eqb (fst p) o) (fun p => (fst p, b)) (c_second c) with
  | Some l => Ok (mkclosing (c_txid c) (c_our c) (c_htlcs c) l)
  | None => Abort
  end.
Definition push_second (c : closing) (o : outpoint) : closing :=
  mkclosing (c_txid c) (c_our c) (c_htlcs c) (c_second c ++ [(o, false)]).
Definition drop_second (c : closing) (o : outpoint) : closing :=
  mkclosing (c_txid c) (c_our c) (c_htlcs c)
            (filter (fun p => negb (op_eqb (fst p) o)) (c_second c)).
Definition new_closing (txid : N) (our : option N) (htlcs : list N) : closing :=
  mkclosing txid (option_map (fun i => (i, false)) our) (map (fun i => (i, false)) htlcs) [].

Definition with_closing (k : core) (f : closing -> res closing) : res core :=
  match snd k with
  | Some c => c' <- f c ;; Ok (fst k, Some c')
  | None => Abort
  end.

(** the effect of a change on (funding_outpoint, closing_outpoints), forward *)
Definition core_fwd (k : core) (c : change) : res core :=
  match c with
  | FundingConfirmed o => Ok (Some o, snd k)
  | FundingInputSpent _ => Ok k
  | UnilateralClose txid _ our htlcs => Ok (fst k, Some (new_closing txid our htlcs))
  | MutualClose _ _ => Ok k
  | OurOutputSpent v => with_closing k (fun cl => set_our cl v true)
  | HTLCOutputSpent v slo => with_closing k (fun cl => cl' <- set_htlc cl v true ;; Ok (push_second cl' slo))
  | SecondLevelSpent o => with_closing k (fun cl => set_second cl o true)
  end.

(** ... and backward *)
Definition core_bwd (k : core) (c : change) : res core :=
  match c with
  | FundingConfirmed _ => Ok (None, snd k)
  | FundingInputSpent _ => Ok k
  | UnilateralClose _ _ _ _ => Ok (fst k, None)
  | MutualClose _ _ => Ok k
  | OurOutputSpent v => with_closing k (fun cl => set_our cl v false)
  | HTLCOutputSpent v slo => with_closing k (fun cl => cl' <- set_htlc cl v false ;; Ok (drop_second cl' slo))
  | SecondLevelSpent o => with_closing k (fun cl => set_second cl o false)
  end.

(** * The push listener: changes of one block, derived over a copy of the core *)

Record dstate := mkd { d_core : core; d_changes : list change }.
Definition add_change (d : dstate) (c : change) : res dstate :=
  k <- core_fwd (d_core d) c ;; Ok (mkd k (d_changes d ++ [c])).

(** per-transaction scratch: input_num, closing_tx (its single input), spent_htlc_outputs *)
Record txscratch := mksc { sc_n : N; sc_closing : option outpoint; sc_htlcs : list (N * N) }.

Definition on_input (g : cfg) (ds : dstate * txscratch) (i : outpoint) : res (dstate * txscratch) :=
  let '(d, sc) := ds in
  d1 <- (if mem_op i (finputs g) then add_change d (FundingInputSpent i) else Ok d) ;;
  let cp := match fst (d_core d1) with
            | Some f => if op_eqb i f then Some i else sc_closing sc
            | None => sc_closing sc
            end in
  '(d2, sh) <- match snd (d_core d1) with
               | Some cl =>
                   if includes_our cl i then d' <- add_change d1 (OurOutputSpent (snd i)) ;; Ok (d', sc_htlcs sc)
                   else if includes_htlc cl i then Ok (d1, sc_htlcs sc ++ [(snd i, sc_n sc)])
                   else if includes_second cl i then d' <- add_change d1 (SecondLevelSpent i) ;; Ok (d', sc_htlcs sc)
                   else Ok (d1, sc_htlcs sc)
               | None => Ok (d1, sc_htlcs sc)
               end ;;
  match cp with
  | Some _ => if sc_n sc =? 0 then Ok (d2, mksc (sc_n sc + 1) cp sh) else Abort
  | None => Ok (d2, mksc (sc_n sc + 1) cp sh)
  end.

Fixpoint on_inputs (g : cfg) (ds : dstate * txscratch) (ins : list outpoint) : res (dstate * txscratch) :=
  match ins with
  | [] => Ok ds
  | i :: r => ds' <- on_input g ds i ;; on_inputs g ds' r
  end.

Definition MAX_COMMITMENT_OUTPUTS : N := 600.

Fixpoint add_changes (d : dstate) (cs : list change) : res dstate :=
  match cs with
  | [] => Ok d
  | c :: r => d' <- add_change d c ;; add_changes d' r
  end.

Definition on_tx_end (g : cfg) (d : dstate) (sc : txscratch) (t : tx) : res dstate :=
  d1 <- (if tx_id t =? ftxid g
         then if fvout g <? tx_nout t then add_change d (FundingConfirmed (tx_id t, fvout g)) else Abort
         else Ok d) ;;
  d2 <- match sc_closing sc with
        | Some prev =>
            match tx_close t with
            | Commitment our htlcs => add_change d1 (UnilateralClose (tx_id t) prev our htlcs)
            | NotCommitment => add_change d1 (MutualClose (tx_id t) prev)
            | CommitmentNoInfo => Abort
            end
        | None => Ok d1
        end ;;
  add_changes d2 (map (fun p => HTLCOutputSpent (fst p) (tx_id t, snd p)) (sc_htlcs sc)).

Definition dec_tx (g : cfg) (d : dstate) (t : tx) : res dstate :=
  '(d1, sc) <- on_inputs g (d, mksc 0 None []) (tx_ins t) ;;
  (* on_transaction_output: assert!(output_num < MAX_COMMITMENT_OUTPUTS) for every output of a closing tx *)
  match sc_closing sc with
  | Some _ => if MAX_COMMITMENT_OUTPUTS <? tx_nout t then Abort else on_tx_end g d1 sc t
  | None => on_tx_end g d1 sc t
  end.

Fixpoint dec_txs (g : cfg) (d : dstate) (b : block) : res dstate :=
  match b with
  | [] => Ok d
  | t :: r => d' <- dec_tx g d t ;; dec_txs g d' r
  end.

Definition decode_block (g : cfg) (k : core) (b : block) : res (list change) :=
  d <- dec_txs g (mkd k []) b ;; Ok (d_changes d).

(** * monitor::State *)

Record state := mkstate {
  height : N;
  funding_height : option N;
  fo : option outpoint;                    (* funding_outpoint *)
  dsh : option N;                          (* funding_double_spent_height *)
  mutual_h : option N;
  unilateral_h : option N;
  clo : option closing;                    (* closing_outpoints *)
  closing_swept_h : option N;
  our_swept_h : option N;
  saw_block : bool
}.

Definition core_of (s : state) : core := (fo s, clo s).
Definition set_core (s : state) (k : core) : state :=
  mkstate (height s) (funding_height s) (fst k) (dsh s) (mutual_h s) (unilateral_h s) (snd k)
          (closing_swept_h s) (our_swept_h s) (saw_block s).
Definition set_fh (s : state) (x : option N) : state :=
  mkstate (height s) x (fo s) (dsh s) (mutual_h s) (unilateral_h s) (clo s)
          (closing_swept_h s) (our_swept_h s) (saw_block s).
Definition set_dsh (s : state) (x : option N) : state :=
  mkstate (height s) (funding_height s) (fo s) x (mutual_h s) (unilateral_h s) (clo s)
          (closing_swept_h s) (our_swept_h s) (saw_block s).
Definition set_mh (s : state) (x : option N) : state :=
  mkstate (height s) (funding_height s) (fo s) (dsh s) x (unilateral_h s) (clo s)
          (closing_swept_h s) (our_swept_h s) (saw_block s).
Definition set_uh (s : state) (x : option N) : state :=
  mkstate (height s) (funding_height s) (fo s) (dsh s) (mutual_h s) x (clo s)
          (closing_swept_h s) (our_swept_h s) (saw_block s).
Definition set_csh (s : state) (x : option N) : state :=
  mkstate (height s) (funding_height s) (fo s) (dsh s) (mutual_h s) (unilateral_h s) (clo s)
          x (our_swept_h s) (saw_block s).
Definition set_osh (s : state) (x : option N) : state :=
  mkstate (height s) (funding_height s) (fo s) (dsh s) (mutual_h s) (unilateral_h s) (clo s)
          (closing_swept_h s) x (saw_block s).
Definition set_height (s : state) (h : N) : state :=
  mkstate h (funding_height s) (fo s) (dsh s) (mutual_h s) (unilateral_h s) (clo s)
          (closing_swept_h s) (our_swept_h s) (saw_block s).
Definition set_saw (s : state) (b : bool) : state :=
  mkstate (height s) (funding_height s) (fo s) (dsh s) (mutual_h s) (unilateral_h s) (clo s)
          (closing_swept_h s) (our_swept_h s) b.

Definition init_state (h0 : N) : state :=
  mkstate h0 None None None None None None None None false.

Definition opt_eqb (a : option N) (b : N) : bool :=
  match a with Some x => x =? b | None => false end.

Definition ctxid_of (k : core) : N := match snd k with Some c => c_txid c | None => 0 end.

(** outpoints the change asks the tracker to start / stop watching (forward direction) *)
Definition change_adds (k : core) (c : change) : list outpoint :=
  match c with
  | FundingConfirmed o => [o]
  | UnilateralClose txid _ our htlcs =>
      (match our with Some i => [(txid, i)] | None => [] end) ++ map (fun i => (txid, i)) htlcs
  | HTLCOutputSpent _ slo => [slo]
  | _ => []
  end.
Definition change_removes (k : core) (c : change) : list outpoint :=
  match c with
  | FundingConfirmed _ => []
  | FundingInputSpent o => [o]
  | UnilateralClose _ f _ _ => [f]
  | MutualClose _ f => [f]
  | OurOutputSpent v => [(ctxid_of k, v)]
  | HTLCOutputSpent v _ => [(ctxid_of k, v)]
  | SecondLevelSpent o => [o]
  end.

(** apply_forward_change: (state, adds, removes) *)
Definition apply_forward (s : state) (c : change) : res (state * list outpoint * list outpoint) :=
  k <- core_fwd (core_of s) c ;;
  let s1 := set_core s k in
  let s2 := match c with
            | FundingConfirmed _ => set_dsh (set_fh s1 (Some (height s))) None
            | FundingInputSpent _ =>
                set_dsh s1 (match dsh s with Some x => Some x | None => Some (height s) end)
            | UnilateralClose _ _ _ _ => set_uh s1 (Some (height s))
            | MutualClose _ _ => set_mh s1 (Some (height s))
            | _ => s1
            end in
  Ok (s2, change_adds k c, change_removes k c).

(** The two repairs of apply_backward / on_remove_block_end, switchable so that the
    behaviour of the code before each repair stays expressible:
    [rev_order]: undo the changes of a block last-to-first (before: first-to-last);
    [same_deltas]: HTLCOutputSpent / SecondLevelHTLCOutputSpent report the same (adds,
    removes) as in the forward direction, which is what the tracker expects (before: the
    two lists were exchanged for these two changes). *)
Record fixes := mkfx { rev_order : bool; same_deltas : bool }.
Definition repaired : fixes := mkfx true true.
Definition unrepaired : fixes := mkfx false false.

Definition apply_backward (fx : fixes) (s : state) (c : change)
  : res (state * list outpoint * list outpoint) :=
  let k0 := core_of s in
  match c with
  | FundingConfirmed o =>
      if opt_eqb (funding_height s) (height s)
      then Ok (set_fh (set_core s (None, clo s)) None, [o], [])
      else Abort
  | FundingInputSpent o =>
      Ok (set_dsh s (if opt_eqb (dsh s) (height s) then None else dsh s), [], [o])
  | UnilateralClose txid f our htlcs =>
      if opt_eqb (unilateral_h s) (height s)
      then Ok (set_uh (set_core s (fo s, None)) None, change_adds k0 c, [f])
      else Abort
  | MutualClose _ f => Ok (set_mh s None, [], [f])
  | OurOutputSpent v =>
      k <- core_bwd k0 c ;; Ok (set_core s k, [], [(ctxid_of k0, v)])
  | HTLCOutputSpent v slo =>
      k <- core_bwd k0 c ;;
      if same_deltas fx then Ok (set_core s k, [slo], [(ctxid_of k0, v)])
      else Ok (set_core s k, [(ctxid_of k0, v)], [slo])
  | SecondLevelSpent o =>
      k <- core_bwd k0 c ;;
      if same_deltas fx then Ok (set_core s k, [], [o]) else Ok (set_core s k, [o], [])
  end.

Fixpoint apply_all (f : state -> change -> res (state * list outpoint * list outpoint))
         (s : state) (cs : list change) : res (state * list outpoint * list outpoint) :=
  match cs with
  | [] => Ok (s, [], [])
  | c :: r =>
      '(s1, a1, r1) <- f s c ;;
      '(s2, a2, r2) <- apply_all f s1 r ;;
      Ok (s2, a1 ++ a2, r1 ++ r2)
  end.

Definition all_spent (c : closing) : bool :=
  match c_our c with Some (_, b) => b | None => true end
  && forallb snd (c_htlcs c) && forallb snd (c_second c).
Definition is_closing_swept (s : state) : bool :=
  match clo s with Some c => all_spent c | None => false end.
Definition is_our_swept (s : state) : bool :=
  match clo s with
  | Some c => match c_our c with Some (_, b) => b | None => true end
  | None => false
  end.

(** on_add_block (push_transactions + on_add_block_end) *)
Definition add_block (g : cfg) (s : state) (b : block) : res (state * list outpoint * list outpoint) :=
  chs <- decode_block g (core_of s) b ;;
  if U32MAX <=? height s then Abort else
  let s1 := set_height (set_saw s true) (height s + 1) in
  let wasc := is_closing_swept s1 in
  let waso := is_our_swept s1 in
  '(s2, adds, rems) <- apply_all apply_forward s1 chs ;;
  let s3 := if negb wasc && is_closing_swept s2 then set_csh s2 (Some (height s2)) else s2 in
  let s4 := if negb waso && is_our_swept s3 then set_osh s3 (Some (height s3)) else s3 in
  Ok (s4, adds, rems).

(** on_remove_block (push_transactions over the *current* state + on_remove_block_end) *)
Definition remove_block (fx : fixes) (g : cfg) (s : state) (b : block)
  : res (state * list outpoint * list outpoint) :=
  chs <- decode_block g (core_of s) b ;;
  let s0 := set_saw s true in
  let wasc := is_closing_swept s0 in
  let waso := is_our_swept s0 in
  '(s2, adds, rems) <- apply_all (apply_backward fx) s0 (if rev_order fx then rev chs else chs) ;;
  let s3 := if wasc && negb (is_closing_swept s2) then set_csh s2 None else s2 in
  let s4 := if waso && negb (is_our_swept s3) then set_osh s3 None else s3 in
  if height s4 =? 0 then Abort else Ok (set_height s4 (height s4 - 1), adds, rems).

(** a streamed block whose block start was never seen (monitor created in the middle of a
    stream): every push event is ignored and the block end returns nothing *)
Definition streamed_partial (s : state) : res (state * list outpoint * list outpoint) :=
  if saw_block s then Abort else Ok (s, [], []).

(** * Views *)
Definition depth_of (s : state) (oh : option N) : N :=
  match oh with Some h => (height s + 1) - h | None => 0 end.
Definition funding_depth (s : state) : N := depth_of s (funding_height s).
Definition double_spent_depth (s : state) : N := depth_of s (dsh s).
Definition closing_depth (s : state) : N :=
  depth_of s (match unilateral_h s with Some h => Some h | None => mutual_h s end).
(** ChainMonitorBase::as_chain_state, the view handed to the validators: current_height,
    funding_depth, funding_double_spent_depth, closing_depth (mutual close first, then
    unilateral) *)
Definition chain_state (s : state) : N * N * N * N :=
  (height s, depth_of s (funding_height s), depth_of s (dsh s),
   depth_of s (match mutual_h s with Some h => Some h | None => unilateral_h s end)).
Definition MIN_DEPTH : N := 100.
Definition deep (s : state) (forgot : bool) (oh : option N) : bool :=
  (MIN_DEPTH <=? depth_of s oh) && forgot.
Definition is_done (s : state) (forgot : bool) : bool :=
  deep s forgot (dsh s) || deep s forgot (mutual_h s) || deep s forgot (closing_swept_h s).

(** * The tracker's ListenSlot: ordered sets of outpoints *)
Definition ocmp (a b : outpoint) : comparison :=
  match fst a ?= fst b with Eq => snd a ?= snd b | c => c end.
Fixpoint oinsert (x : outpoint) (l : list outpoint) : list outpoint :=
  match l with
  | [] => [x]
  | y :: r => match ocmp x y with
              | Lt => x :: l
              | Eq => l
              | Gt => y :: oinsert x r
              end
  end.
Definition oremove (x : outpoint) (l : list outpoint) : list outpoint :=
  filter (fun y => negb (op_eqb x y)) l.
Definition ounion (w : list outpoint) (xs : list outpoint) : list outpoint :=
  fold_left (fun acc x => oinsert x acc) xs w.
Definition odiff (w : list outpoint) (xs : list outpoint) : list outpoint :=
  fold_left (fun acc x => oremove x acc) xs w.

Record mon := mkmon { m_state : state; m_watches : list outpoint; m_seen : list outpoint }.

Definition init_mon (g : cfg) (h0 : N) : mon :=
  mkmon (init_state h0) (ounion [] (finputs g)) [].

(** notify_listeners_add *)
Definition madd (g : cfg) (m : mon) (b : block) : res mon :=
  '(s, adds, rems) <- add_block g (m_state m) b ;;
  Ok (mkmon s (odiff (ounion (m_watches m) adds) rems) (ounion (m_seen m) rems)).

(** notify_listeners_remove *)
Definition mremove (fx : fixes) (g : cfg) (m : mon) (b : block) : res mon :=
  '(s, adds, rems) <- remove_block fx g (m_state m) b ;;
  Ok (mkmon s (odiff (ounion (m_watches m) rems) adds) (odiff (m_seen m) rems)).

(** * Histories *)
Inductive op := Add (b : block) | Remove (b : block).

Definition mstep (fx : fixes) (g : cfg) (m : mon) (o : op) : res mon :=
  match o with Add b => madd g m b | Remove b => mremove fx g m b end.
Fixpoint run (fx : fixes) (g : cfg) (m : mon) (ops : list op) : res mon :=
  match ops with
  | [] => Ok m
  | o :: r => m' <- mstep fx g m o ;; run fx g m' r
  end.
Definition run_adds (g : cfg) (m : mon) (chain : list block) : res mon :=
  run repaired g m (map Add chain).

(** the surviving chain, tip first; [Remove] pops the tip *)
Fixpoint survivors (tf : list block) (ops : list op) : list block :=
  match ops with
  | [] => tf
  | Add b :: r => survivors (b :: tf) r
  | Remove _ :: r => survivors (tl tf) r
  end.
Definition best_chain (ops : list op) : list block := rev (survivors [] ops).

(** the sync flag is not part of a channel's view of the chain *)
Definition norm (m : mon) : mon := mkmon (set_saw (m_state m) true) (m_watches m) (m_seen m).
Definition rnorm (r : res mon) : res mon := match r with Ok m => Ok (norm m) | Abort => Abort end.

(** * Consistent chains: no outpoint is spent twice, a transaction id occurs once, and an
    input never refers to the transaction itself or to one that comes later; the
    transaction with the funding txid spends the registered funding inputs *)
Definition mem_N (x : N) (l : list N) : bool := existsb (N.eqb x) l.
Fixpoint nodup_op (l : list outpoint) : bool :=
  match l with [] => true | x :: r => negb (mem_op x r) && nodup_op r end.

Definition tx_ok (g : cfg) (S : list outpoint) (T : list N) (t : tx) : bool :=
  nodup_op (tx_ins t)
  && forallb (fun i => negb (mem_op i S)) (tx_ins t)
  && negb (mem_N (tx_id t) T)
  && forallb (fun i => negb (fst i =? tx_id t)) (tx_ins t)
  && negb (mem_N (tx_id t) (map fst S))
  && (if tx_id t =? ftxid g then forallb (fun i => mem_op i (tx_ins t)) (finputs g) else true).

Fixpoint txs_ok (g : cfg) (S : list outpoint) (T : list N) (l : list tx) : bool :=
  match l with
  | [] => true
  | t :: r => tx_ok g S T t && txs_ok g (tx_ins t ++ S) (tx_id t :: T) r
  end.
Definition consistent (g : cfg) (chain : list block) : bool := txs_ok g [] [] (concat chain).

(** transactions on which the listener's own assertions hold: a spend of the funding
    outpoint has one input, at most 600 outputs and a classification; the funding
    transaction has the funding output *)
Definition tx_wf (g : cfg) (t : tx) : bool :=
  (if mem_op (fund g) (tx_ins t)
   then (length (tx_ins t) =? 1)%nat && (tx_nout t <=? MAX_COMMITMENT_OUTPUTS)
        && match tx_close t with CommitmentNoInfo => false | _ => true end
   else true)
  && (if tx_id t =? ftxid g then fvout g <? tx_nout t else true).
Definition chain_wf (g : cfg) (chain : list block) : bool := forallb (tx_wf g) (concat chain).

(** a history is admissible when every Remove names the current tip and every chain that
    occurs on the way is consistent and well-formed *)
Fixpoint hist_ok (g : cfg) (tf : list block) (ops : list op) : Prop :=
  match ops with
  | [] => True
  | Add b :: r => consistent g (rev (b :: tf)) = true /\ chain_wf g [b] = true /\ hist_ok g (b :: tf) r
  | Remove b :: r => match tf with
                     | t :: tl => t = b /\ hist_ok g tl r
                     | [] => False
                     end
  end.
Fixpoint count_adds (ops : list op) : N :=
  match ops with [] => 0 | Add _ :: r => 1 + count_adds r | Remove _ :: r => count_adds r end.

(** * Restarts.  What survives a restart of the signer is what ChainTrackerEntry keeps for
    the listener: the monitor State and its ListenSlot (watches, seen).  The tracker's own
    window of remembered headers is not part of this model (it decides which disconnections
    the tracker accepts: C13); the harness checks on the implementation that a restart is
    transparent for the histories of this model. *)
Definition entry : Type := (state * list outpoint * list outpoint)%type.
Definition persist (m : mon) : entry := (m_state m, m_watches m, m_seen m).
Definition restore (e : entry) : mon := let '(s, w, sn) := e in mkmon s w sn.

Inductive rop := Deliver (o : op) | Restart.
Fixpoint run_r (fx : fixes) (g : cfg) (m : mon) (rops : list rop) : res mon :=
  match rops with
  | [] => Ok m
  | Deliver o :: r => m' <- mstep fx g m o ;; run_r fx g m' r
  | Restart :: r => run_r fx g (restore (persist m)) r
  end.
Fixpoint deliveries (rops : list rop) : list op :=
  match rops with
  | [] => []
  | Deliver o :: r => o :: deliveries r
  | Restart :: r => deliveries r
  end.

(** * The tracker's window of remembered headers (ChainTracker::headers): on a connection
    the deque is truncated to MAX_REORG_SIZE - 1 and the old tip pushed in front, so it holds
    up to MAX_REORG_SIZE headers; a disconnection needs one remembered header
    (Error::ReorgTooDeep otherwise, unless allow_deep_reorgs) and pops it; a restart keeps
    the deque.  [w_len] and [w_peak] are ghosts: blocks connected since the tracker was
    created, and the highest such count ever reached. *)
Definition MAX_REORG_SIZE : N := 100.
Inductive wop := WAdd | WRemove | WRestart.
Record wst := mkw { w_rem : N; w_len : N; w_peak : N }.
Definition winit : wst := mkw 0 0 0.
(** the next state and whether the tracker accepted *)
Definition wnext (s : wst) (o : wop) : wst * bool :=
  match o with
  | WAdd => (mkw (N.min MAX_REORG_SIZE (w_rem s + 1)) (w_len s + 1) (N.max (w_peak s) (w_len s + 1)), true)
  | WRemove => if w_rem s =? 0 then (s, false) else (mkw (w_rem s - 1) (w_len s - 1) (w_peak s), true)
  | WRestart => (s, true)
  end.
(** the remembered-header count after every delivery; [None] = refused *)
Fixpoint win_trace (s : wst) (ops : list wop) : list (option N) :=
  match ops with
  | [] => []
  | o :: r => let '(s', ok) := wnext s o in
              (if ok then Some (w_rem s') else None) :: win_trace s' r
  end.
Fixpoint wrun (s : wst) (ops : list wop) : wst :=
  match ops with [] => s | o :: r => wrun (fst (wnext s o)) r end.
