(** Executable comparison of Model/Sweep.v with observations of the real validators and of the
    real Channel signing calls (evaluated by [vm_compute] in generated case files). *)
From VLS Require Export Base.Eqb Model.Sweep.

(** observation classes printed by the harness: 0 accepted, 1 panic, 100 + class refused.
    [transaction_format_err!] drops its tag, so the four format tags are one class. *)
Definition stag_code (t : stag) : N :=
  match t with
  | S_version | S_locktime | S_sequence | S_other => 0
  | S_scriptpubkey => 1 | S_destination => 2
  | H_sighash => 3 | H_scripts => 4 | H_fee_underflow => 5 | H_mismatch => 6
  | H_locktime => 7 | H_fee_range => 8
  | C_input_index => 9 | C_commit_point => 10
  end.
Definition sres_code (r : sres) : N :=
  match r with SOk => 0 | SPanic => 1 | SErr t => 100 + stag_code t end.

(** through a Channel call the validation error becomes a Status: only invalid-argument (109)
    and "refused" (150) remain distinguishable *)
Definition at_level (level : N) (c : N) : N :=
  if level =? 0 then c
  else if c <? 100 then c else if c =? 109 then 109 else 150.

Fixpoint lookupN {B} (k : N) (l : list (N * B)) : option B :=
  match l with
  | [] => None
  | (k', v) :: r => if k =? k' then Some v else lookupN k r
  end.

(** the wallet's answers under the one supplied path, per script identity:
    0 spendable, 1 allowlisted, 2 neither, 3 wallet error, 4 spendable and allowlisted *)
Definition wallet_of (tbl : list (N * N)) : wallet :=
  mkWallet
    (fun _ s => match lookupN s tbl with
                | Some 0 | Some 4 => CanSpend
                | Some 3 => WalletError
                | _ => CannotSpend
                end)
    (fun s _ => match lookupN s tbl with Some 1 | Some 4 => true | _ => false end).

(** ((profile, filter rules, level (0 validator, 1 channel), kind (0 delayed, 1 counterparty
      HTLC, 2 justice)),
     (setup, height, tx, input, redeemscript, wallet table, (commitment number, next holder
      commitment number)), observed) *)
Definition sweep_case : Type :=
  (profile * list rule * N * N) *
  (setup * N * tx * N * rscript * list (N * N) * (N * N)) * N.

Definition sweep_model_with (sel : seqsel) (c : sweep_case) : N :=
  let '((prof, rules, level, kind), (s, h, t, input, rs, tbl, (cn, nh)), _) := c in
  let warn := swarn_of rules in
  let w := wallet_of tbl in
  let r :=
    if level =? 0 then
      if kind =? 0 then validate_delayed_sweep sel prof warn w (cp_delay s) h t input 0
      else if kind =? 1 then
        validate_counterparty_htlc_sweep sel prof warn w (is_anchors (commitment_type s)) h t rs input 0
      else validate_justice_sweep sel prof warn w h t input 0
    else
      if kind =? 0 then sign_delayed_sweep sel prof warn w s h t input cn nh 0
      else if kind =? 1 then sign_counterparty_htlc_sweep sel prof warn w s h t rs input 0
      else sign_justice_sweep sel prof warn w h t input 0 in
  at_level level (sres_code r).

Definition sweep_model : sweep_case -> N := sweep_model_with SignedInput.
Definition sweep_model_old : sweep_case -> N := sweep_model_with FirstInput.
Definition check_sweep (c : sweep_case) : bool := sweep_model c =? snd c.
Definition check_sweep_old (c : sweep_case) : bool := sweep_model_old c =? snd c.

(** second-level HTLC transactions.  The signature hash is instantiated with the identity on
    the covered fields (injective), the revokeable script_pubkey with the table computed by the
    harness for the keys and delays of the case.
    ((profile, filter rules, policy, level, side (0 holder, 1 counterparty)),
     (setup, (revocation key, delayed key), script table, tx, redeemscript identity,
      redeemscript, HTLC amount, (point supplied, commitment number, next holder commitment
      number)), observed) *)
Definition htlc_case : Type :=
  (profile * list rule * policy * N * N) *
  (setup * (N * N) * list (N * N * N * N) * tx * N * rscript * N * (bool * N * N)) * N.

Fixpoint spk_lookup (tbl : list (N * N * N * N)) (r d k : N) : N :=
  match tbl with
  | [] => 0
  | (r', d', k', id) :: rest =>
      if (r =? r') && (d =? d') && (k =? k') then id else spk_lookup rest r d k
  end.

Definition cov_eqb (a b : covered) : bool := beq a b.

Definition htlc_model (c : htlc_case) : N :=
  let '((prof, rules, pol, level, side), (s, (rev, delayed), tbl, t, rs_id, rs, amount,
        (given, cn, nh)), _) := c in
  let warn := swarn_of rules in
  let spk := spk_lookup tbl in
  let r :=
    if level =? 0 then
      sign_htlc_tx spk covered (fun x => x) cov_eqb prof warn pol (side =? 1) s rev delayed t rs_id rs amount
    else if side =? 0 then
      sign_holder_htlc_tx spk covered (fun x => x) cov_eqb prof warn pol s given cn nh rev delayed t rs_id rs amount
    else
      sign_counterparty_htlc_tx spk covered (fun x => x) cov_eqb prof warn pol s rev delayed t rs_id rs amount in
  at_level level (sres_code r).

Definition check_htlc (c : htlc_case) : bool := htlc_model c =? snd c.

(** * Handler level (vls-protocol-signer/src/handler.rs)

    The glue between a wire request and the Channel call, written out: which input index is
    passed (0 for the per-channel messages, the message's [input] for the SignAny* ones), the
    amount ([psbt.inputs[input].witness_utxo.value], in satoshi, a panic when the PSBT input or
    its witness_utxo is missing), the wallet path ([extract_psbt_output_paths(psbt)[0]]:
    [unimplemented!] on any output with two key origins, an index panic inside the channel
    closure when the PSBT has no outputs), the channel look-up by peer id and dbid.  Every error
    of the handler is one class (150). *)

(** witness_utxo value of each PSBT input (None: absent) *)
Definition psbt_ins : Type := list (option N).

Definition glue_amount (p : psbt_ins) (input : N) : option N :=
  match nthN p input with Some (Some a) => Some a | _ => None end.

Definition collapse (c : N) : N := if c <? 100 then c else 150.

(** ((PSBT inputs, number of key origins of each PSBT output, SignAny* variant, channel found),
     the request as a [sweep_case] whose [input] is the wire field) *)
Definition hsweep_case : Type := (psbt_ins * list N * bool * bool) * sweep_case.

Definition hsweep_model_with (sel : seqsel) (c : hsweep_case) : N :=
  let '((p, origins, any, found), ((prof, rules, _, kind), (s, h, t, input, rs, tbl, cnnh), obs)) := c in
  let input' := if any then input else 0 in
  match glue_amount p input' with
  | None => 1
  | Some _ =>
      if existsb (fun n => 1 <? n) origins then 1
      else if negb found then 150
      else if lenN origins =? 0 then 1
      else collapse (sweep_model_with sel ((prof, rules, 1, kind), (s, h, t, input', rs, tbl, cnnh), obs))
  end.
Definition hsweep_obs (c : hsweep_case) : N := snd (snd c).
Definition check_hsweep (c : hsweep_case) : bool := hsweep_model_with SignedInput c =? hsweep_obs c.
Definition check_hsweep_old (c : hsweep_case) : bool := hsweep_model_with FirstInput c =? hsweep_obs c.

(** second-level HTLC transactions.
    ((PSBT inputs, whether each PSBT output carries a witness_script, message (0 SignLocalHtlcTx,
      1 SignAnyLocalHtlcTx, 2 SignRemoteHtlcTx), wire input, channel found),
     the request as an [htlc_case]; its amount slot is ignored, the glue supplies it) *)
Definition hhtlc_case : Type := (psbt_ins * list bool * N * N * bool) * htlc_case.

Definition hhtlc_model (c : hhtlc_case) : N :=
  let '((p, wits, msg, input, found),
        ((prof, rules, pol, _, _), (s, keys, tbl, t, rs_id, rs, _, (_, cn, nh)), obs)) := c in
  let out0_wit := match wits with true :: _ => true | _ => false end in
  if msg =? 2 then
    (* SignRemoteHtlcTx: four assert_eq!, then the amount of PSBT input 0 and the witscript of output 0 *)
    if negb ((lenN wits =? 1) && (lenN p =? 1) && (lenN (tx_outs t) =? 1) && (lenN (tx_ins t) =? 1)) then 1
    else match glue_amount p 0 with
         | None => 1
         | Some a =>
             if negb out0_wit then 1
             else if negb found then 150
             else collapse (htlc_model ((prof, rules, pol, 1, 1),
                                        (s, keys, tbl, t, rs_id, rs, a, (false, cn, nh)), obs))
         end
  else
    let input' := if msg =? 1 then input else 0 in
    match glue_amount p input' with
    | None => 1
    | Some a =>
        if negb out0_wit then 1
        else if negb found then 150
        else collapse (htlc_model ((prof, rules, pol, 1, 0),
                                   (s, keys, tbl, t, rs_id, rs, a, (false, cn, nh)), obs))
    end.
Definition check_hhtlc (c : hhtlc_case) : bool := hhtlc_model c =? snd (snd c).
