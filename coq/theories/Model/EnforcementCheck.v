(** Executable comparison of Model/Enforcement.v with observations of the real channel
    (harness/src/bin/chan.rs). *)
From VLS Require Export Base.Eqb Model.Enforcement.

Inductive warnsel := WNone | WRetrySame | WPrevRevoked.
Definition warn_of (w : warnsel) : tag -> bool :=
  fun t => match w, t with
           | WRetrySame, TRetrySame => true
           | WPrevRevoked, TPrevRevoked => true
           | _, _ => false
           end.

Definition eobs : Type :=
  (N * option N * option N * bool) * (N * N * option N * option N * option N * option N) * N.

Definition min_seen (l : list (N * N)) : N :=
  fold_left (fun m p => N.min m (INITIAL_COMMITMENT_NUMBER - fst p)) l 281474976710656.

Definition eobs_of (e : estate) : eobs :=
  ((next_h e, cur_h e, nxt_h e, closed e),
   (next_c e, next_r e, cur_pt e, prev_pt e, cur_c e, prev_c e),
   min_seen (secrets e)).

Definition slot_obs (s : slot) : option (eobs * eobs) :=
  match s with
  | Stub => None
  | Ready ch => Some (eobs_of (mem ch), eobs_of (disk ch))
  end.

Definition status_code (s : status) : N :=
  match s with Ok => 0 | Refused => 1 | Abort => 2 end.
Definition outp_tuple (o : outp) :=
  (status_code (st o), o_point o, o_secret o, o_hsig o, o_cpsig o).
#[global] Instance Eqb_outp : Eqb outp := fun a b => beq (outp_tuple a) (outp_tuple b).

Definition chan_case : Type :=
  (warnsel * profile) * list op * list (outp * option (eobs * eobs)).

Fixpoint chan_trace (w : tag -> bool) (p : profile) (s : slot) (ops : list op)
  : list (outp * option (eobs * eobs)) :=
  match ops with
  | [] => []
  | o :: r =>
      let '(s', out) := step w p s o in
      match st out with
      | Abort => [(out, None)]      (* the process is gone: the observed history ends here *)
      | _ => (out, slot_obs s') :: chan_trace w p s' r
      end
  end.

Definition chan_model (c : chan_case) : list (outp * option (eobs * eobs)) :=
  let '((w, p), ops, _) := c in chan_trace (warn_of w) p Stub ops.

Definition check_chan (c : chan_case) : bool := beq (chan_model c) (snd c).

(** index of the first step on which model and observation differ (for reports) *)
Fixpoint first_diff {A} `{Eqb A} (i : N) (x y : list A) : option N :=
  match x, y with
  | [], [] => None
  | a :: x', b :: y' => if beq a b then first_diff (i + 1) x' y' else Some i
  | _, _ => Some i
  end.
Definition chan_first_diff (c : chan_case) : option N := first_diff 0 (chan_model c) (snd c).
