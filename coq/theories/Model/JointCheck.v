(** Executable comparison of Model/Joint.v with the real node (harness/src/bin/pay.rs, joint
    emission): after every request the reply, the payment ledger and the enforcement state of
    every channel (memory and persisted image). *)
From VLS Require Export Base.Eqb Model.Joint.
From VLS Require Model.EnforcementCheck Model.PaymentsCheck.
Module EC := EnforcementCheck.
Module PC := PaymentsCheck.

(** the payment content constructor, for the case terms written by the harness *)
Definition mkCt := P.mkCt.

Definition jobs : Type :=
  outp * list (option N * (bool * bool) * list (N * N)) * list (option (EC.eobs * EC.eobs)).

Definition joint_case : Type := (profile * nat * N * N * list N) * list jop * list jobs.

Fixpoint jtrace (prof : profile) (nch : nat) (mf mp : N) (hashes : list N) (s : jnode)
  (ops : list jop) : list jobs :=
  match ops with
  | [] => []
  | o :: r =>
      let '(s', out) := jstep strict prof nch mf mp s o in
      match st out with
      | Abort => [(out, [], [])]     (* the process is gone: the observed history ends here *)
      | _ => (out, PC.observe nch hashes (jp s'),
              map (fun ch => EC.slot_obs (fst (jc s' ch))) (P.chan_ids nch))
             :: jtrace prof nch mf mp hashes s' r
      end
  end.

Definition joint_model (c : joint_case) : list jobs :=
  let '((prof, nch, mf, mp, hashes), ops, _) := c in
  jtrace prof nch mf mp hashes (jinit strict prof) ops.

#[global] Instance Eqb_outp_j : Eqb outp := EC.Eqb_outp.

Definition check_joint (c : joint_case) : bool := beq (joint_model c) (snd c).

Definition joint_first_diff (c : joint_case) : option N := EC.first_diff 0 (joint_model c) (snd c).
