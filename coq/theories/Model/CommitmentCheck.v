(** Executable side of the C04 correspondence (evaluated by [vm_compute] in generated files).

    Pass A ([model_out]): the bytes of the model's canonical commitment transaction, funding
    redeemscript, witness scripts and HTLC transactions for a generated (setup, keys, content);
    the harness feeds exactly these bytes to the implementation's raw entry point and verifies
    every returned signature against their BIP143 digests.

    Pass B ([check_case]): for every mutation the harness applied to the model's (tx, witness
    scripts), the model's [decode] answer and [sign_phase1] verdict must equal what
    [decode_commitment_tx] and [sign_counterparty_commitment_tx] answered. *)
From Coq Require Import List NArith ZArith Bool.
From VLS Require Import Base.Codec Base.Ripemd160 Model.Commitment.
From VLS Require Base.Sha256 Base.Eqb.
Import ListNotations.
Open Scope N_scope.

Definition sha : bytes -> bytes := Sha256.sha256.
Definition rip : bytes -> bytes := ripemd160.

(** [PublicKey::from_slice] as a table computed by the harness with libsecp256k1: every data
    push of every witness script of the case that parses as a point, with its compressed form *)
Definition oracle_parse (tbl : list (bytes * bytes)) (d : bytes) : option bytes :=
  match find (fun p => bytes_eqb (fst p) d) tbl with Some p => Some (snd p) | None => None end.

(** ** pass A *)
Definition gen_case : Type := setup * ckeys * content.

Definition frame_sec (l : list bytes) : list N := lenN l :: flat_map (fun b => lenN b :: b) l.

Definition model_out (g : gen_case) : list N :=
  let '(s, k, c) := g in
  let t := canon_tx sha rip s k c in
  let hts := htlc_txs sha rip s k c in
  flat_map frame_sec
    [ [ser_tx t]; [canon_funding_script s]; canon_ws sha rip s k c;
      match hts with Some l => map (fun x => ser_tx (fst (fst x))) l | None => [] end;
      [[if hts then 1 else 0]] ].

(** digests computed entirely inside Coq (Gallina SHA-256), for a per-run sample that
    cross-checks rust-bitcoin's sighash implementation used by the harness *)
Definition model_digests (g : gen_case) : list N :=
  let '(s, k, c) := g in
  let t := canon_tx sha rip s k c in
  flat_map frame_sec
    [ [txid_of sha t]; [commit_sighash sha s t];
      match htlc_txs sha rip s k c with
      | Some l => map (htlc_sighash sha s) l
      | None => []
      end ].

(** ** pass B: mutations of (tx, witness scripts) *)
Inductive mutation :=
| MVersion (v : N) | MLock (v : N) | MSeq (v : N) | MVout (v : N) | MTxidByte (j : nat) (b : N)
| MScriptSig (b : bytes) | MWitness (w : list bytes) | MDupIn | MDropIn
| MValue (k : nat) (v : N) | MSpk (k : nat) (b : bytes) | MSpkByte (k j : nat) (b : N)
| MWs (k : nat) (b : bytes) | MWsByte (k j : nat) (b : N)
| MDropOut (k : nat) | MDupOut (k : nat) | MSwapOut (i j : nat) | MSwapWs (i j : nat)
| MDropWs (k : nat) | MAddWs (b : bytes) | MAddOut (v : N) (spk ws : bytes).

Fixpoint set_nth {A} (k : nat) (f : A -> A) (l : list A) : list A :=
  match l, k with
  | [], _ => []
  | x :: r, O => f x :: r
  | x :: r, S k' => x :: set_nth k' f r
  end.
Fixpoint drop_nth {A} (k : nat) (l : list A) : list A :=
  match l, k with
  | [], _ => []
  | _ :: r, O => r
  | x :: r, S k' => x :: drop_nth k' r
  end.
Fixpoint dup_nth {A} (k : nat) (l : list A) : list A :=
  match l, k with
  | [], _ => []
  | x :: r, O => x :: x :: r
  | x :: r, S k' => x :: dup_nth k' r
  end.
Definition swap_nth {A} (i j : nat) (l : list A) : list A :=
  match nth_error l i, nth_error l j with
  | Some a, Some b => set_nth i (fun _ => b) (set_nth j (fun _ => a) l)
  | _, _ => l
  end.

Definition on_in0 (f : txin -> txin) (t : tx) : tx :=
  mkTx (t_version t) (set_nth 0 f (t_ins t)) (t_outs t) (t_lock t).
Definition on_outs (f : list txout -> list txout) (t : tx) : tx :=
  mkTx (t_version t) (t_ins t) (f (t_outs t)) (t_lock t).

Definition apply_mut (m : mutation) (p : tx * list bytes) : tx * list bytes :=
  let '(t, ws) := p in
  match m with
  | MVersion v => (mkTx v (t_ins t) (t_outs t) (t_lock t), ws)
  | MLock v => (mkTx (t_version t) (t_ins t) (t_outs t) v, ws)
  | MSeq v => (on_in0 (fun i => mkIn (i_txid i) (i_vout i) (i_script i) v (i_wit i)) t, ws)
  | MVout v => (on_in0 (fun i => mkIn (i_txid i) v (i_script i) (i_seq i) (i_wit i)) t, ws)
  | MTxidByte j b =>
      (on_in0 (fun i => mkIn (set_nth j (fun _ => b) (i_txid i)) (i_vout i) (i_script i) (i_seq i)
                             (i_wit i)) t, ws)
  | MScriptSig b => (on_in0 (fun i => mkIn (i_txid i) (i_vout i) b (i_seq i) (i_wit i)) t, ws)
  | MWitness w => (on_in0 (fun i => mkIn (i_txid i) (i_vout i) (i_script i) (i_seq i) w) t, ws)
  | MDupIn => (mkTx (t_version t) (dup_nth 0 (t_ins t)) (t_outs t) (t_lock t), ws)
  | MDropIn => (mkTx (t_version t) (drop_nth 0 (t_ins t)) (t_outs t) (t_lock t), ws)
  | MValue k v => (on_outs (set_nth k (fun o => mkOut v (o_spk o))) t, ws)
  | MSpk k b => (on_outs (set_nth k (fun o => mkOut (o_value o) b)) t, ws)
  | MSpkByte k j b =>
      (on_outs (set_nth k (fun o => mkOut (o_value o) (set_nth j (fun _ => b) (o_spk o)))) t, ws)
  | MWs k b => (t, set_nth k (fun _ => b) ws)
  | MWsByte k j b => (t, set_nth k (set_nth j (fun _ => b)) ws)
  | MDropOut k => (on_outs (drop_nth k) t, drop_nth k ws)
  | MDupOut k => (on_outs (dup_nth k) t, dup_nth k ws)
  | MSwapOut i j => (on_outs (swap_nth i j) t, swap_nth i j ws)
  | MSwapWs i j => (t, swap_nth i j ws)
  | MDropWs k => (t, drop_nth k ws)
  | MAddWs b => (t, ws ++ [b])
  | MAddOut v spk w => (on_outs (fun l => l ++ [mkOut v spk]) t, ws ++ [w])
  end.

(** observation of [CommitmentInfo] after [decode_commitment_tx] *)
Definition info_obs : Type :=
  (bool * N * N) * (bool * N * N * N) * list (N * bytes * N) * list (N * bytes * N).
Definition obs_of_info (i : info) : info_obs :=
  ((has_cs i, cs_value i, cs_anchors i), (has_b i, b_value i, b_delay i, b_anchors i),
   i_offered i, i_received i).

Import Eqb.
#[global] Instance Eqb_bytes : Eqb bytes := bytes_eqb.

(** one mutant: the mutations (applied left to right), whether the lengths allowed the harness
    to call [decode_commitment_tx] and what it answered, and whether phase 1 signed *)
Definition mutant : Type := list mutation * option info_obs * bool.

Record ccase := mkCase {
  cc_setup : setup;
  cc_keys : ckeys;
  cc_content : content;
  cc_value_ok : bool;
  cc_accept : bool;                      (* did the semantic entry point sign this content *)
  cc_oracle : list (bytes * bytes);
  cc_mutants : list mutant;
}.

Definition model_mutant (cc : ccase) (ms : list mutation) : option info_obs * bool :=
  let s := cc_setup cc in
  let k := cc_keys cc in
  let c := cc_content cc in
  let pk := oracle_parse (cc_oracle cc) in
  let '(t, ws) := fold_left (fun p m => apply_mut m p) ms (canon_tx sha rip s k c, canon_ws sha rip s k c) in
  let d := if Nat.eqb (length (t_outs t)) (length ws)
           then option_map obs_of_info (decode sha pk s t ws) else None in
  let r := sign_phase1 sha rip pk s k bytes bytes (fun _ d => d) [] (cc_value_ok cc)
                       (fun _ => cc_accept cc) t ws (c_num c) (c_feerate c) (c_offered c) (c_received c) in
  (d, match r with Ok _ => true | Refused => false end).

Definition check_mutant (cc : ccase) (m : mutant) : bool :=
  let '(ms, d, ok) := m in
  let '(d', ok') := model_mutant cc ms in
  beq d d' && Bool.eqb ok ok'.

Definition check_case (cc : ccase) : bool := forallb (check_mutant cc) (cc_mutants cc).

(** index of the first mutant on which model and implementation differ (for the replay) *)
Definition first_bad (cc : ccase) : list N :=
  failures (check_mutant cc) (cc_mutants cc).
