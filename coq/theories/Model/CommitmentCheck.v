(** Executable side of the C04 correspondence (evaluated by [vm_compute] in generated files).

    Pass A ([model_out]): the bytes of the model's canonical commitment transaction, funding
    redeemscript, witness scripts and HTLC transactions for a generated (setup, keys, content);
    the harness feeds exactly these bytes to the implementation's raw entry point and verifies
    every returned signature against their BIP143 digests.

    Pass B ([check_case]): for every mutation the harness applied to the model's (tx, witness
    scripts), the model's [decode] answer and [sign_phase1] verdict must equal what
    [decode_commitment_tx] and [sign_counterparty_commitment_tx] answered. *)
From Coq Require Import List NArith ZArith Bool.
From VLS Require Import Base.Codec Base.Ripemd160 Model.Commitment.
From VLS Require Base.Sha256 Base.Sha256Fast Base.Eqb.
Import ListNotations.
Open Scope N_scope.

(** [Sha256Fast.sha256] is [Sha256.sha256] on primitive integers (validated against it and
    against the FIPS vectors in Base/Sha256Fast.v) *)
Definition sha : bytes -> bytes := Sha256Fast.sha256.
Definition rip : bytes -> bytes := ripemd160.

(** [PublicKey::from_slice] as a table computed by the harness with libsecp256k1: every data
    push of every witness script of the case that parses as a point, with its compressed form *)
Definition oracle_parse (tbl : list (bytes * bytes)) (d : bytes) : option bytes :=
  match find (fun p => bytes_eqb (fst p) d) tbl with Some p => Some (snd p) | None => None end.
(** entries whose encoding is already the compressed one are listed once *)
Definition oracle_of (same : list bytes) (other : list (bytes * bytes)) : list (bytes * bytes) :=
  map (fun x => (x, x)) same ++ other.

(** ** pass A *)
Definition gen_case : Type := setup * ckeys * content.

Definition frame_sec (l : list bytes) : list N := lenN l :: flat_map (fun b => lenN b :: b) l.

Definition model_out (g : gen_case) : list N :=
  let '(s, k, c) := g in
  let t := bolt3_tx sha rip s k c in
  let hts := bolt3_htlc_txs sha rip s k c in
  flat_map frame_sec
    [ [ser_tx t]; [canon_funding_script s]; bolt3_ws sha rip s k c;
      match hts with Some l => map (fun x => ser_tx (fst (fst x))) l | None => [] end;
      [[if hts then 1 else 0]] ].

(** digests computed entirely inside Coq (Gallina SHA-256), for a per-run sample that
    cross-checks rust-bitcoin's sighash implementation used by the harness *)
Definition model_digests (g : gen_case) : list N :=
  let '(s, k, c) := g in
  let t := bolt3_tx sha rip s k c in
  flat_map frame_sec
    [ [txid_of sha t]; [commit_sighash sha s t];
      match bolt3_htlc_txs sha rip s k c with
      | Some l => map (htlc_sighash sha s) l
      | None => []
      end ].

Fixpoint set_nth {A} (k : nat) (f : A -> A) (l : list A) : list A :=
  match l, k with
  | [], _ => []
  | x :: r, O => f x :: r
  | x :: r, S k' => x :: set_nth k' f r
  end.
Fixpoint drop_nth {A} (k : nat) (l : list A) : list A :=
  match l, k with
  | [], _ => []
  | _ :: r, O => r
  | x :: r, S k' => x :: drop_nth k' r
  end.
Fixpoint dup_nth {A} (k : nat) (l : list A) : list A :=
  match l, k with
  | [], _ => []
  | x :: r, O => x :: x :: r
  | x :: r, S k' => x :: dup_nth k' r
  end.
Definition swap_nth {A} (i j : nat) (l : list A) : list A :=
  match nth_error l i, nth_error l j with
  | Some a, Some b => set_nth i (fun _ => b) (set_nth j (fun _ => a) l)
  | _, _ => l
  end.

(** ** pass B: mutations of (tx, witness scripts) *)
Inductive mutation :=
| MVersion (v : N) | MLock (v : N) | MSeq (v : N) | MVout (v : N) | MTxidByte (j : nat) (b : N)
| MScriptSig (b : bytes) | MWitness (w : list bytes) | MDupIn | MDropIn
| MValue (k : nat) (v : N) | MSpk (k : nat) (b : bytes) | MSpkByte (k j : nat) (b : N)
| MWs (k : nat) (b : bytes) | MWsByte (k j : nat) (b : N)
| MDropOut (k : nat) | MDupOut (k : nat) | MSwapOut (i j : nat) | MSwapWs (i j : nat)
| MDropWs (k : nat) | MAddWs (b : bytes) | MAddOut (v : N) (spk ws : bytes)
| MSpkFix (k : nat)               (* script_pubkey k := p2wsh (witness script k) *)
| MWsTrunc (k : nat) | MWsPush (k : nat) (b : N) | MWsInsert (k j : nat) (b : N)
(* the semantic arguments of the raw entry point (the transaction stays as it is) *)
| ANum (n : N) | AFeerate (f : N) | ADropHtlc (offered : bool) (k : nat) | ADupHtlc (offered : bool) (k : nat)
| ASwapLists | ACltv (offered : bool) (k : nat) (v : N) | AValue (offered : bool) (k : nat) (v : N).

(** commitment number, fee rate, offered and received HTLCs as passed to phase 1 *)
Definition call_args : Type := N * N * list htlc * list htlc.
Definition on_htlcs (offered : bool) (f : list htlc -> list htlc) (a : call_args) : call_args :=
  let '(n, fr, off, rec) := a in if offered then (n, fr, f off, rec) else (n, fr, off, f rec).
Definition apply_arg (m : mutation) (a : call_args) : call_args :=
  let '(n, fr, off, rec) := a in
  match m with
  | ANum n' => (n', fr, off, rec)
  | AFeerate f => (n, f, off, rec)
  | ADropHtlc o k => on_htlcs o (drop_nth k) a
  | ADupHtlc o k => on_htlcs o (dup_nth k) a
  | ASwapLists => (n, fr, rec, off)
  | ACltv o k v => on_htlcs o (set_nth k (fun h => mkHtlc (h_value h) (h_hash h) v)) a
  | AValue o k v => on_htlcs o (set_nth k (fun h => mkHtlc v (h_hash h) (h_cltv h))) a
  | _ => a
  end.

Definition on_in0 (f : txin -> txin) (t : tx) : tx :=
  mkTx (t_version t) (set_nth 0 f (t_ins t)) (t_outs t) (t_lock t).
Definition on_outs (f : list txout -> list txout) (t : tx) : tx :=
  mkTx (t_version t) (t_ins t) (f (t_outs t)) (t_lock t).

Definition apply_mut (m : mutation) (p : tx * list bytes) : tx * list bytes :=
  let '(t, ws) := p in
  match m with
  | MVersion v => (mkTx v (t_ins t) (t_outs t) (t_lock t), ws)
  | MLock v => (mkTx (t_version t) (t_ins t) (t_outs t) v, ws)
  | MSeq v => (on_in0 (fun i => mkIn (i_txid i) (i_vout i) (i_script i) v (i_wit i)) t, ws)
  | MVout v => (on_in0 (fun i => mkIn (i_txid i) v (i_script i) (i_seq i) (i_wit i)) t, ws)
  | MTxidByte j b =>
      (on_in0 (fun i => mkIn (set_nth j (fun _ => b) (i_txid i)) (i_vout i) (i_script i) (i_seq i)
                             (i_wit i)) t, ws)
  | MScriptSig b => (on_in0 (fun i => mkIn (i_txid i) (i_vout i) b (i_seq i) (i_wit i)) t, ws)
  | MWitness w => (on_in0 (fun i => mkIn (i_txid i) (i_vout i) (i_script i) (i_seq i) w) t, ws)
  | MDupIn => (mkTx (t_version t) (dup_nth 0 (t_ins t)) (t_outs t) (t_lock t), ws)
  | MDropIn => (mkTx (t_version t) (drop_nth 0 (t_ins t)) (t_outs t) (t_lock t), ws)
  | MValue k v => (on_outs (set_nth k (fun o => mkOut v (o_spk o))) t, ws)
  | MSpk k b => (on_outs (set_nth k (fun o => mkOut (o_value o) b)) t, ws)
  | MSpkByte k j b =>
      (on_outs (set_nth k (fun o => mkOut (o_value o) (set_nth j (fun _ => b) (o_spk o)))) t, ws)
  | MWs k b => (t, set_nth k (fun _ => b) ws)
  | MWsByte k j b => (t, set_nth k (set_nth j (fun _ => b)) ws)
  | MDropOut k => (on_outs (drop_nth k) t, drop_nth k ws)
  | MDupOut k => (on_outs (dup_nth k) t, dup_nth k ws)
  | MSwapOut i j => (on_outs (swap_nth i j) t, swap_nth i j ws)
  | MSwapWs i j => (t, swap_nth i j ws)
  | MDropWs k => (t, drop_nth k ws)
  | MAddWs b => (t, ws ++ [b])
  | MAddOut v spk w => (on_outs (fun l => l ++ [mkOut v spk]) t, ws ++ [w])
  | MSpkFix k =>
      match nth_error ws k with
      | Some w => (on_outs (set_nth k (fun o => mkOut (o_value o) (p2wsh sha w))) t, ws)
      | None => (t, ws)
      end
  | MWsTrunc k => (t, set_nth k (fun w => removelast w) ws)
  | MWsPush k b => (t, set_nth k (fun w => w ++ [b]) ws)
  | MWsInsert k j b => (t, set_nth k (fun w => firstn j w ++ b :: skipn j w) ws)
  | _ => (t, ws)
  end.

(** observation of [CommitmentInfo] after [decode_commitment_tx] *)
Definition info_obs : Type :=
  (bool * N * N) * (bool * N * N * N) * list (N * bytes * N) * list (N * bytes * N).
Definition obs_of_info (i : info) : info_obs :=
  ((has_cs i, cs_value i, cs_anchors i), (has_b i, b_value i, b_delay i, b_anchors i),
   i_offered i, i_received i).

Import Eqb.
#[global] Instance Eqb_bytes : Eqb bytes := bytes_eqb.

(** one mutant: the mutations (applied left to right); what [decode_commitment_tx] answered, as
    an index into the case's table of distinct observations ([None]: refused, or the lengths
    differ, in which case the harness does not call it); the
    validator's verdict on the content read from the mutant (the model's [accept] at that
    content; [false] when nothing decoded); whether phase 1 signed *)
Definition mutant : Type := list mutation * option nat * bool * bool.

Record ccase := mkCase {
  cc_setup : setup;
  cc_keys : ckeys;
  cc_content : content;
  cc_value_ok : bool;
  cc_oracle : list (bytes * bytes);
  cc_obs : list info_obs;
  cc_mutants : list mutant;
}.

(** SHA-256 with a table of digests computed once per case (by [sha] itself, inside
    the same evaluation): the canonical witness scripts and keys are hashed again for every
    mutant otherwise *)
Definition sha_memo (tbl : list (bytes * bytes)) (x : bytes) : bytes :=
  match find (fun p => bytes_eqb (fst p) x) tbl with
  | Some p => snd p
  | None => sha x
  end.
Definition memo_table (l : list bytes) : list (bytes * bytes) :=
  map (fun x => (x, sha x)) l.
Definition rip_memo (tbl : list (bytes * bytes)) (x : bytes) : bytes :=
  match find (fun p => bytes_eqb (fst p) x) tbl with
  | Some p => snd p
  | None => ripemd160 x
  end.

Definition model_mutant (cc : ccase) (sh rp : bytes -> bytes) (base : tx * list bytes)
  (ms : list mutation) (acc : bool) : option info_obs * bool :=
  let s := cc_setup cc in
  let k := cc_keys cc in
  let c := cc_content cc in
  let pk := oracle_parse (cc_oracle cc) in
  let '(t, ws) := fold_left (fun p m => apply_mut m p) ms base in
  let '(num, fr, off, rec) :=
    fold_left (fun a m => apply_arg m a) ms (c_num c, c_feerate c, c_offered c, c_received c) in
  let d := if Nat.eqb (length (t_outs t)) (length ws)
           then option_map obs_of_info (decode sh pk s t ws) else None in
  let r := sign_phase1 sh rp pk s k bytes bytes (fun _ d => d) [] (cc_value_ok cc)
                       (fun _ => acc) t ws num fr off rec in
  (d, match r with Ok _ => true | Refused => false end).

Definition check_mutant (cc : ccase) (sh rp : bytes -> bytes) (base : tx * list bytes) (m : mutant)
  : bool :=
  let '(ms, di, acc, ok) := m in
  let d := match di with Some i => nth_error (cc_obs cc) i | None => None end in
  let '(d', ok') := model_mutant cc sh rp base ms acc in
  beq d d' && Bool.eqb ok ok'.

Definition case_env (cc : ccase) : (bytes -> bytes) * (bytes -> bytes) * (tx * list bytes) :=
  let s := cc_setup cc in
  let k := cc_keys cc in
  let c := cc_content cc in
  let ws := bolt3_ws sha rip s k c in
  let tbl := memo_table (ws ++ [k_revocation k; s_holder_payment s]) in
  let sh := sha_memo tbl in
  let rtbl := map (fun x => (x, ripemd160 x))
                  (sh (k_revocation k) :: sh (s_holder_payment s)
                   :: map h_hash (c_offered c ++ c_received c)) in
  (sh, rip_memo rtbl, (bolt3_tx sh rip s k c, ws)).

(** indices of the mutants on which model and implementation differ *)
Definition bad_mutants (cc : ccase) : list N :=
  let '(sh, rp, base) := case_env cc in
  failures (check_mutant cc sh rp base) (cc_mutants cc).

Definition check_case (cc : ccase) : bool :=
  match bad_mutants cc with [] => true | _ => false end.

(** ** pass C: the raw HTLC-transaction entry point.  One request: the supplied transaction,
    redeemscript and amount, and what [decode_and_validate_htlc_tx] answered (fee rate, direction,
    expiry, digest to sign) — the same under every policy filter the harness installs. *)
Definition hreq : Type := tx * nat * N * option (N * bool * N * bytes).
(** the redeemscripts of a batch are listed once; a request names its script by position *)
Definition check_hreq (s : setup) (k : ckeys) (scripts : list bytes) (r : hreq) : bool :=
  let '(t, ri, amount, expected) := r in
  beq (decode_htlc_tx sha s k t (nth ri scripts []) amount) expected.
Definition bad_hreqs (s : setup) (k : ckeys) (scripts : list bytes) (l : list hreq) : list N :=
  failures (check_hreq s k scripts) l.
