(** Model of vls-core/src/chain/tracker.rs ([ChainTracker::add_block], [remove_block],
    [block_chunk], [validate_block], [validate_retarget], [notify_listeners_add/remove],
    the header window and [MAX_REORG_SIZE]) and of the oracle-majority rule of
    vls-core/src/policy/validator.rs ([validate_block]).  Definitions only.

    What comes from external crates enters as per-request oracle inputs, computed by the
    harness with the real verifiers: the proof-of-work check of a header ([hpow]), the
    result of [TxoProof::verify] against the forward / reverse watch sets ([pok_fwd],
    [pok_rev]), the attesting keys, [TxoProof::filter_header], and the answers of the
    listeners (channel monitors) to the block ([deltas]).  Block hashes, filter headers,
    outpoints, txids, oracle keys and monitor states are identities in [N]; the all-zero
    filter header is identity 0.

    The functions take a [variant]: [fixed] is the repaired code (the header window is popped
    after validation; a rejected streamed block drops every decode state), [old] is the code
    before the repairs; the theorems are about [fixed], the refutations about the others. *)
From VLS Require Export Base.U64 Base.Eqb.

(** * Data *)

Inductive net := Regtest | Testnet | Bitcoin.
Definition net_eqb (a b : net) : bool :=
  match a, b with
  | Regtest, Regtest | Testnet, Testnet | Bitcoin, Bitcoin => true
  | _, _ => false
  end.

(** a block header: hash identity, prev_blockhash identity, whether
    [validate_pow(target())] holds (oracle), compact bits, time *)
Record hdr := mkhdr { hid : N; hprev : N; hpow : bool; hbits : N; htime : N }.
(** [Headers(header, filter_header)]; filter header 0 = all zero *)
Definition headers : Type := hdr * N.

Definition hdr_eqb (a b : hdr) : bool :=
  (hid a =? hid b) && (hprev a =? hprev b) && Bool.eqb (hpow a) (hpow b)
  && (hbits a =? hbits b) && (htime a =? htime b).

(** one listener: key, txid watches, outpoint watches, seen outpoints (sorted sets of
    identities), identity of the monitor's state *)
Record slot := mkslot { skey : N; stxw : list N; swatch : list N; sseen : list N; smon : N }.

Record tstate := mkts {
  hdrs : list headers;            (* headers[0] is the parent of the tip *)
  tip : headers;
  height : N;                     (* u32 *)
  slots : list slot;              (* listeners in key order *)
  decoding : option (N * bool);   (* tracker decode_state: streamed block id, decoder complete *)
  mon_dec : bool                  (* the listeners hold a block decode state *)
}.

Inductive err := InvalidChain | OrphanBlock | InvalidBlock | BlockDecodeError | ReorgTooDeep | InvalidProof.
(** [Abort] is a Rust panic (assert, unwrap, overflow in a debug build) *)
Inductive result := Ok | Err (e : err) | Abort.

Record cfg := mkcfg {
  network : net;
  trusted : list N;        (* trusted_oracle_pubkeys *)
  warn : bool;             (* the policy filter downgrades policy-chain-validated to a warning *)
  allow_deep : bool;       (* allow_deep_reorgs *)
  prof : profile;
  checkpoint : option (headers * N)
                           (* the latest compiled-in checkpoint of the network (txoo::get_latest_checkpoint:
                              Testnet and Bitcoin have one, Regtest has none): headers and height *)
}.

Record variant := mkvar { pop_early : bool; clear_on_reject : bool }.
Definition fixed : variant := mkvar false true.
Definition old : variant := mkvar true false.

Inductive ptype := PFilter | PBlock | PExternal.
Record proofinfo := mkproof {
  pty : ptype;
  pfh : option N;          (* TxoProof::filter_header(); None: it panics (no / inconsistent attestations) *)
  pok_fwd : bool;          (* TxoProof::verify for this request against the forward watches *)
  pok_rev : bool;          (* ... against the reverse watches (watches and seen) *)
  attesters : list N;      (* keys of the attestations carried by the proof *)
  deltas : option (list (list N * list N * N))
                           (* per listener, in key order: outpoints to add, to remove, new monitor
                              state; None: a listener panics on these transactions *)
}.

Inductive req :=
| Add (h : hdr) (p : proofinfo)
| Remove (prev : headers) (p : proofinfo)
| Chunk (id : N) (first wellformed complete : bool) (mons : list N)
| Restart (mons : list N).
    (* the signer restarts from its store (Node::restore_node); [mons]: the monitor states the
       store holds (the block-start flag set by a chunk lives in memory only) *)
    (* BlockChunk: offset 0?, (hash, offset, bytes) consistent?, block complete after it?,
       monitor states after the chunk (on_block_start sets saw_block) *)

Definition is_ext (p : proofinfo) : bool := match pty p with PExternal => true | _ => false end.
Definition streamed (r : req) : bool :=
  match r with Add _ p | Remove _ p => is_ext p | Chunk _ _ _ _ _ | Restart _ => false end.

(** * u32 arithmetic under a build profile *)
Definition add32 (p : profile) (a b : N) : trap N :=
  match p with
  | Debug => if a + b <=? U32MAX then Val (a + b) else Trap
  | Release => Val ((a + b) mod two32)
  end.
Definition sub32 (p : profile) (a b : N) : trap N :=
  match p with
  | Debug => if b <=? a then Val (a - b) else Trap
  | Release => Val ((a + two32 - b) mod two32)
  end.

(** * Targets (bitcoin::pow::Target over U256, CompactTarget) *)
Definition two256 : N := 2 ^ 256.
Definition u256_shl (x s : N) : N := N.shiftl x (s mod 256) mod two256.
Definition u256_shr (x s : N) : N := N.shiftr x (s mod 256).

(** Target::from_compact *)
Definition target_of_bits (bits : N) : N :=
  let e := N.shiftr bits 24 in
  let m := N.land bits 16777215 in
  let mant := if e <=? 3 then N.shiftr m (8 * (3 - e)) else m in
  let expt := if e <=? 3 then 0 else 8 * (e - 3) in
  if 8388607 <? mant then 0 else u256_shl mant expt.

(** Target::to_compact_lossy *)
Definition compact_of_target (t : N) : N :=
  let size := (N.size t + 7) / 8 in
  let compact := if size <=? 3 then N.shiftl (t mod two64) (8 * (3 - size)) mod two32
                 else u256_shr t (8 * (size - 3)) mod two32 in
  let hi := N.testbit compact 23 in
  let compact' := if hi then N.shiftr compact 8 else compact in
  let size' := if hi then size + 1 else size in
  N.lor compact' (N.shiftl size' 24 mod two32).

Definition round_trip (t : N) : N := target_of_bits (compact_of_target t).

(** tracker.rs [max_target] and Params::max_attainable_target (equal per network) *)
Definition chain_max (n : net) : N :=
  match n with
  | Regtest => N.shiftl 8388607 232
  | Testnet | Bitcoin => N.shiftl 65535 208
  end.

Inductive rres := ROk | RErr (e : err) | RTrap.

(** tracker.rs [validate_retarget] *)
Definition validate_retarget (n : net) (prev_t t : N) : rres :=
  let mn := round_trip (u256_shr prev_t 2) in
  let mx := round_trip (N.min (u256_shl prev_t 2) (chain_max n)) in
  if chain_max n <? t then RErr InvalidBlock
  else if t <? mn then RErr InvalidChain
  else if mx <? t then RErr InvalidChain
  else ROk.

Definition DIFFCHANGE_INTERVAL : N := 2016.

(** the difficulty part of [validate_block]: testnet 20-minute rule, retarget window at
    interval boundaries, equal bits elsewhere (testnet exempt) *)
Definition chain_rule (c : cfg) (ht : N) (ph h : hdr) : rres :=
  let t := target_of_bits (hbits h) in
  let twenty : trap bool :=
    match network c with
    | Testnet =>
        if t =? chain_max Testnet then
          match add32 (prof c) (htime ph) 1200 with
          | Trap => Trap
          | Val lim => Val (lim <? htime h)
          end
        else Val false
    | _ => Val false
    end in
  match twenty with
  | Trap => RTrap
  | Val true => ROk
  | Val false =>
      match add32 (prof c) ht 1 with
      | Trap => RTrap
      | Val h1 =>
          if h1 mod DIFFCHANGE_INTERVAL =? 0
          then validate_retarget (network c) (target_of_bits (hbits ph)) t
          else if negb (hbits h =? hbits ph) && negb (net_eqb (network c) Testnet)
               then RErr InvalidChain else ROk
      end
  end.

(** * Oracle majority (validator.rs [validate_block]) *)
(** The proof carries the key identities of its attestations ([attesters], in order, repeats
    possible: txoo checks every attestation by itself); the model computes the quorum itself.
    What is counted are the trusted oracles for which the proof carries at least one
    attestation -- an oracle whose attestation is repeated counts once -- against
    (number of trusted oracles + 1) / 2. *)
Definition attests (p : proofinfo) (k : N) : bool := existsb (N.eqb k) (attesters p).
Definition key_matches (c : cfg) (p : proofinfo) : N :=
  N.of_nat (length (filter (attests p) (trusted c))).
Definition required_majority (c : cfg) : N := (N.of_nat (length (trusted c)) + 1) / 2.
Definition majority_ok (c : cfg) (p : proofinfo) : bool := required_majority c <=? key_matches c p.

Definition pok (p : proofinfo) (is_remove : bool) : bool :=
  if is_remove then pok_rev p else pok_fwd p.

(** bypass on an all-zero previous filter header; both policy_err! sites share one tag *)
Definition proof_rule (c : cfg) (prev_fh : N) (p : proofinfo) (is_remove : bool) : bool :=
  (prev_fh =? 0) || warn c || (pok p is_remove && majority_ok c p).

Inductive vres := VOk | VErr (e : err) | VTrap.

(** [ChainTracker::validate_block] *)
Definition validate (c : cfg) (ht : N) (prev hd : headers) (p : proofinfo) (is_remove : bool) : vres :=
  let h := fst hd in
  let ph := fst prev in
  if negb (hprev h =? hid ph) then VErr OrphanBlock
  else if negb (hpow h) then VErr InvalidBlock
  else match chain_rule c ht ph h with
       | RTrap => VTrap
       | RErr e => VErr e
       | ROk => if proof_rule c (snd prev) p is_remove then VOk else VErr InvalidProof
       end.

(** * Watches (OrderedSet as sorted duplicate-free lists of identities) *)
Fixpoint set_add (x : N) (l : list N) : list N :=
  match l with
  | [] => [x]
  | y :: t => if x <? y then x :: l else if x =? y then l else y :: set_add x t
  end.
Definition set_remove (x : N) (l : list N) : list N := filter (fun y => negb (y =? x)) l.
Definition set_extend (xs l : list N) : list N := fold_left (fun acc x => set_add x acc) xs l.
Definition set_remove_all (xs l : list N) : list N := fold_left (fun acc x => set_remove x acc) xs l.

(** [notify_listeners_add] for one listener that answered (adds, removes) *)
Definition upd_add (sl : slot) (d : list N * list N * N) : slot :=
  let '(adds, removes, m) := d in
  mkslot (skey sl) (stxw sl)
         (set_remove_all removes (set_extend adds (swatch sl)))
         (set_extend removes (sseen sl)) m.
(** [notify_listeners_remove] *)
Definition upd_remove (sl : slot) (d : list N * list N * N) : slot :=
  let '(adds, removes, m) := d in
  mkslot (skey sl) (stxw sl)
         (set_remove_all adds (set_extend removes (swatch sl)))
         (set_remove_all removes (sseen sl)) m.

Fixpoint zipw {A} (f : slot -> A -> slot) (sls : list slot) (ds : list A) : list slot :=
  match sls, ds with
  | sl :: r, d :: dr => f sl d :: zipw f r dr
  | _, _ => sls
  end.
Definition set_mon (sl : slot) (m : N) : slot := mkslot (skey sl) (stxw sl) (swatch sl) (sseen sl) m.

(** * Streaming *)
Inductive fres := FOk | FErr | FTrap.

(** [maybe_finish_decoding_block].  [BlockDecoder::finish] asserts the merkle root of what it
    has seen before it would report [IncompleteData], so an incomplete stream is a panic, not
    a refusal; the only refusal left is a complete block under another hash. *)
Definition finish_decode (s : tstate) (p : proofinfo) (expected : N) : fres :=
  match decoding s with
  | None => if is_ext p then FTrap else FOk
  | Some (id, complete) =>
      if negb (is_ext p) then FTrap
      else if negb complete then FTrap
      else if id =? expected then FOk else FErr
  end.

Definition with_hdrs (s : tstate) (l : list headers) : tstate :=
  mkts l (tip s) (height s) (slots s) (decoding s) (mon_dec s).
(** no block stream in progress anywhere *)
Definition quiesce (s : tstate) : tstate :=
  mkts (hdrs s) (tip s) (height s) (slots s) None false.

(** the state left behind by a refusal; [took]: the tracker's own decode state was already
    consumed.  Repaired code: a refused streamed request drops every decode state.  Old code:
    the listeners keep theirs. *)
Definition reject (v : variant) (s : tstate) (p : proofinfo) (took : bool) : tstate :=
  if clear_on_reject v then (if is_ext p then quiesce s else s)
  else if took then mkts (hdrs s) (tip s) (height s) (slots s) None (mon_dec s) else s.

Definition MAX_REORG_SIZE : nat := 100.

(** * [ChainTracker::add_block] *)
Definition add (v : variant) (c : cfg) (s : tstate) (h : hdr) (p : proofinfo) : tstate * result :=
  match finish_decode s p (hid h) with
  | FTrap => (s, Abort)
  | FErr => (reject v s p true, Err BlockDecodeError)
  | FOk =>
      match pfh p with
      | None => (s, Abort)
      | Some fh =>
          match validate c (height s) (tip s) (h, fh) p false with
          | VTrap => (s, Abort)
          | VErr e => (reject v s p true, Err e)
          | VOk =>
              match pty p with
              | PBlock => (reject v s p true, Err InvalidProof)
              | _ =>
                  match deltas p, add32 (prof c) (height s) 1 with
                  | Some ds, Val h' =>
                      (mkts (tip s :: firstn (MAX_REORG_SIZE - 1) (hdrs s)) (h, fh) h'
                            (zipw upd_add (slots s) ds) None
                            (if is_ext p then false else mon_dec s), Ok)
                  | _, _ => (s, Abort)
                  end
              end
          end
      end
  end.

(** the check of the supplied previous headers against the window *)
Definition supplied_check (c : cfg) (s : tstate) (prev : headers) : option err :=
  match hdrs s with
  | [] => if allow_deep c then None else Some ReorgTooDeep
  | h0 :: _ =>
      if negb (hdr_eqb (fst prev) (fst h0)) then Some InvalidChain
      else if negb (snd prev =? snd h0) then Some InvalidChain
      else None
  end.

(** * [ChainTracker::remove_block] *)
Definition remove (v : variant) (c : cfg) (s : tstate) (prev : headers) (p : proofinfo) : tstate * result :=
  match supplied_check c s prev with
  | Some e => (reject v s p false, Err e)
  | None =>
      (* the code before the repair popped the window here *)
      let s1 := if pop_early v then with_hdrs s (tl (hdrs s)) else s in
      match finish_decode s p (hid (fst prev)) with
      | FTrap => (s1, Abort)
      | FErr => (reject v s1 p true, Err BlockDecodeError)
      | FOk =>
          match sub32 (prof c) (height s) 1 with
          | Trap => (s1, Abort)
          | Val hm1 =>
              match validate c hm1 prev (tip s) p true with
              | VTrap => (s1, Abort)
              | VErr e => (reject v s1 p true, Err e)
              | VOk =>
                  match pty p with
                  | PBlock => (reject v s1 p true, Err InvalidProof)
                  | _ =>
                      match deltas p with
                      | Some ds =>
                          (mkts (tl (hdrs s)) prev hm1
                                (zipw upd_remove (slots s) ds) None
                                (if is_ext p then false else mon_dec s), Ok)
                      | None => (s1, Abort)
                      end
                  end
              end
          end
      end
  end.

(** * [ChainTracker::block_chunk] *)
Definition has_listeners (s : tstate) : bool := match slots s with [] => false | _ => true end.

Definition chunk (s : tstate) (id : N) (first wf complete : bool) (mons : list N) : tstate * result :=
  if negb wf then (s, Abort)
  else if first then
    match decoding s with
    | Some _ => (s, Abort)                          (* "already decoding, and got chunk at offset 0" *)
    | None =>
        if mon_dec s && has_listeners s then (s, Abort)   (* "saw more than one on_block_start" *)
        else (mkts (hdrs s) (tip s) (height s) (zipw set_mon (slots s) mons)
                   (Some (id, complete)) true, Ok)
    end
  else
    match decoding s with
    | None => (s, Abort)                            (* "got chunk ... without decoder" *)
    | Some (id', _) =>
        if id' =? id
        then (mkts (hdrs s) (tip s) (height s) (slots s) (Some (id, complete)) (mon_dec s), Ok)
        else (s, Abort)                             (* "got chunk for wrong block" *)
    end.

(** * A restart from the store ([Node::restore_node])
    Tip, height, remembered headers and watches come back as they were stored -- the store is
    written after every accepted add / remove, so that is the current state -- and every decode
    state is gone.  The one documented exception: a tracker that is still at height 0 on a
    network with compiled-in checkpoints is fast-forwarded to the latest checkpoint (its tip
    and height are replaced, the window is emptied). *)
Definition restart (c : cfg) (s : tstate) (mons : list N) : tstate * result :=
  let sl := zipw set_mon (slots s) mons in
  match checkpoint c with
  | Some (hd, h) =>
      if height s =? 0 then (mkts [] hd h sl None false, Ok)
      else (mkts (hdrs s) (tip s) (height s) sl None false, Ok)
  | None => (mkts (hdrs s) (tip s) (height s) sl None false, Ok)
  end.

Definition step (v : variant) (c : cfg) (s : tstate) (r : req) : tstate * result :=
  match r with
  | Add h p => add v c s h p
  | Remove prev p => remove v c s prev p
  | Chunk id first wf complete mons => chunk s id first wf complete mons
  | Restart mons => restart c s mons
  end.

(** a history stops at the first panic *)
Fixpoint run (v : variant) (c : cfg) (s : tstate) (rs : list req) : tstate :=
  match rs with
  | [] => s
  | r :: t =>
      let '(s1, res) := step v c s r in
      match res with
      | Abort => s1
      | _ => run v c s1 t
      end
  end.

(** every step of a history: state before, request, state after, result *)
Fixpoint steps (v : variant) (c : cfg) (s : tstate) (rs : list req)
  : list (tstate * req * tstate * result) :=
  match rs with
  | [] => []
  | r :: t =>
      let '(s1, res) := step v c s r in
      (s, r, s1, res) :: match res with Abort => [] | _ => steps v c s1 t end
  end.

(** * What the property speaks about *)

(** the persisted part of the tracker (ChainTrackerEntry): everything but the decode states *)
Definition view (s : tstate) : list headers * headers * N * list slot :=
  (hdrs s, tip s, height s, slots s).

Definition quiet (s : tstate) : Prop := decoding s = None /\ mon_dec s = false.

(** listeners hold a decode state only while the tracker is streaming a block *)
Definition clean (s : tstate) : Prop := mon_dec s = true -> decoding s <> None.

(** the remembered window is a chain ending below the tip *)
Fixpoint linked (child : hdr) (l : list headers) : Prop :=
  match l with
  | [] => True
  | h :: t => hprev child = hid (fst h) /\ linked (fst h) t
  end.
Definition window_ok (s : tstate) : Prop :=
  linked (fst (tip s)) (hdrs s) /\ (length (hdrs s) <= MAX_REORG_SIZE)%nat.

(** at least half of the trusted oracles attested *)
Definition half_attesting (c : cfg) (p : proofinfo) : Prop :=
  N.of_nat (length (trusted c)) <= 2 * key_matches c p.

(** what a block must satisfy to go on top of [prev] (add) or to come off down to [prev]
    (remove): it links to [prev], meets its own target, obeys the difficulty rules at that
    height, and its unspent-output proof verifies against the watches with attestations from
    at least half of the trusted oracles -- unless [prev] was recorded without a filter
    header (identity 0), the documented upgrade path, or the operator's policy filter
    downgrades policy-chain-validated to a warning *)
Definition block_valid (c : cfg) (ht : N) (prev hd : headers) (p : proofinfo) (is_remove : bool) : Prop :=
  hprev (fst hd) = hid (fst prev) /\
  hpow (fst hd) = true /\
  chain_rule c ht (fst prev) (fst hd) = ROk /\
  (snd prev = 0 \/ warn c = true \/ (pok p is_remove = true /\ half_attesting c p)).

(** the watches of all listeners (everything in a slot but the monitor's own state) *)
Definition watch_view (s : tstate) : list (N * list N * list N * list N) :=
  map (fun sl => (skey sl, stxw sl, swatch sl, sseen sl)) (slots s).

(** what an accepted request did *)
Definition accepted_ok (c : cfg) (s : tstate) (r : req) (s' : tstate) : Prop :=
  match r with
  | Add h p =>
      exists fh,
        pfh p = Some fh /\
        block_valid c (height s) (tip s) (h, fh) p false /\
        tip s' = (h, fh) /\
        add32 (prof c) (height s) 1 = Val (height s') /\
        hdrs s' = tip s :: firstn (MAX_REORG_SIZE - 1) (hdrs s)
  | Remove prev p =>
      exists hm1,
        sub32 (prof c) (height s) 1 = Val hm1 /\
        block_valid c hm1 prev (tip s) p true /\
        tip s' = prev /\ height s' = hm1 /\ hdrs s' = tl (hdrs s) /\
        match hdrs s with
        | h0 :: _ => prev = h0                 (* the remembered parent, header and filter header *)
        | [] => allow_deep c = true            (* beyond the window only when explicitly allowed *)
        end
  | Chunk _ _ _ _ _ =>
      hdrs s' = hdrs s /\ tip s' = tip s /\ height s' = height s /\ watch_view s' = watch_view s
  | Restart _ =>
      (* a restart follows no block at all: nothing moves, unless the tracker never left
         height 0 and the network has a checkpoint *)
      watch_view s' = watch_view s /\ quiet s' /\
      ((hdrs s' = hdrs s /\ tip s' = tip s /\ height s' = height s) \/
       (height s = 0 /\ exists hd h, checkpoint c = Some (hd, h) /\
                                    hdrs s' = [] /\ tip s' = hd /\ height s' = h))
  end.

(** the state in which a refused request leaves the tracker: untouched; for a streamed block
    (chunks followed by the request) additionally no trace of the stream *)
Definition settled (r : req) (s : tstate) : tstate := if streamed r then quiesce s else s.

(** requests that are correct with respect to the persisted image of [s] *)
Definition correct_add (c : cfg) (s : tstate) (h : hdr) (p : proofinfo) : Prop :=
  (exists fh, pfh p = Some fh) /\ deltas p <> None /\
  hprev h = hid (fst (tip s)) /\ hpow h = true /\
  chain_rule c (height s) (fst (tip s)) h = ROk /\
  proof_rule c (snd (tip s)) p false = true /\
  height s < U32MAX.

Definition correct_remove (c : cfg) (s : tstate) (prev : headers) (p : proofinfo) : Prop :=
  deltas p <> None /\
  supplied_check c s prev = None /\
  0 < height s /\ height s <= U32MAX /\
  hprev (fst (tip s)) = hid (fst prev) /\ hpow (fst (tip s)) = true /\
  chain_rule c (height s - 1) (fst prev) (fst (tip s)) = ROk /\
  proof_rule c (snd prev) p true = true.

(** after a refusal (of a streamed request, or outside a stream): a correct compact add, a
    correct compact remove and a correct streamed add -- correct with respect to the state
    [s1] before the refused request -- are accepted in the state [s2] after it *)
Definition later_ok (c : cfg) (s1 : tstate) (r : req) (s2 : tstate) : Prop :=
  (streamed r = true \/ quiet s1) ->
  (forall h p, pty p = PFilter -> correct_add c s1 h p -> snd (step fixed c s2 (Add h p)) = Ok) /\
  (forall prev p, pty p = PFilter -> correct_remove c s1 prev p -> snd (step fixed c s2 (Remove prev p)) = Ok) /\
  (forall h p mons, pty p = PExternal -> correct_add c s1 h p ->
     exists s3, step fixed c s2 (Chunk (hid h) true true true mons) = (s3, Ok) /\
                snd (step fixed c s3 (Add h p)) = Ok).

