(** Executable comparison of the velocity model with observations of the implementation
    (evaluated by [vm_compute] in generated case files). *)
From VLS Require Export Base.Eqb Model.Velocity.

Definition bare_case : Type := (nat * N * N) * list (N * N) * list (bool * N * list N).

Definition bare_model (c : bare_case) : list (bool * N * list N) :=
  let '((nb, ivl, lim), ops, _) := c in trace (fresh lim ivl nb) ops.

Definition check_bare (c : bare_case) : bool :=
  beq (bare_model c) (snd c).

Definition vcobs : Type := N * N * list N * N.
Definition obs_of (c : vc) : vcobs := (start c, interval c, buckets c, limit c).

Definition node_case : Type := (itype * N) * list vop * list (bool * vcobs * vcobs).

Fixpoint node_trace (it : itype) (lim : N) (s : nodevc) (ops : list vop)
  : list (bool * vcobs * vcobs) :=
  match ops with
  | [] => []
  | o :: r =>
      let '(s1, res) := vstep it lim s o in
      (match res with Some b => b | None => false end, obs_of (mem s1), obs_of (disk s1))
        :: node_trace it lim s1 r
  end.

Definition node_model (c : node_case) : list (bool * vcobs * vcobs) :=
  let '((it, lim), ops, _) := c in node_trace it lim (vinit it lim) ops.

Definition check_node (c : node_case) : bool := beq (node_model c) (snd c).
