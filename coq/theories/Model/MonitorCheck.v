(** Executable comparison of the monitor model with observations of the implementation
    (evaluated by [vm_compute] in generated case files). *)
From VLS Require Export Base.Eqb Model.Monitor.

Definition clo_obs : Type := option (N * option (N * bool) * list (N * bool) * list (outpoint * bool)).
Definition state_obs : Type :=
  (N * option N * option outpoint * option N * option N * option N * clo_obs * option N * option N * bool)%type.
(** state, watches, seen, (funding, double-spend, closing) depth, is_done, as_chain_state *)
Definition obs : Type :=
  (state_obs * list outpoint * list outpoint * (N * N * N) * bool * (N * N * N * N))%type.

Definition obs_clo (c : option closing) : clo_obs :=
  option_map (fun c => (c_txid c, c_our c, c_htlcs c, c_second c)) c.
Definition obs_state (s : state) : state_obs :=
  (height s, funding_height s, fo s, dsh s, mutual_h s, unilateral_h s, obs_clo (clo s),
   closing_swept_h s, our_swept_h s, saw_block s).
Definition obs_mon (forgot : bool) (m : mon) : obs :=
  let s := m_state m in
  (obs_state s, m_watches m, m_seen m,
   (funding_depth s, double_spent_depth s, closing_depth s), is_done s forgot, chain_state s).

(** one delivery to the monitor *)
Inductive step :=
| SAdd (b : block)            (* a whole block, compact proof or streamed *)
| SRemove (b : block)
| SAddPartial                 (* push events without a block start, then the streamed block end *)
| SRemovePartial
| SRestart.                   (* the signer is restored from its store: [restore (persist m)] *)

Definition do_step (fx : fixes) (g : cfg) (m : mon) (st : step) : res mon :=
  match st with
  | SAdd b => madd g m b
  | SRemove b => mremove fx g m b
  | SAddPartial | SRemovePartial =>
      '(s, _, _) <- streamed_partial (m_state m) ;; Ok (mkmon s (m_watches m) (m_seen m))
  | SRestart => Ok (restore (persist m))
  end.

(** [None] = the call panicked; nothing is delivered after a panic *)
Fixpoint trace (fx : fixes) (g : cfg) (forgot : bool) (m : mon) (sts : list step) : list (option obs) :=
  match sts with
  | [] => []
  | st :: r => match do_step fx g m st with
               | Ok m' => Some (obs_mon forgot m') :: trace fx g forgot m' r
               | Abort => [None]
               end
  end.

(** boolean equality of blocks, for the admissibility test of a history *)
Definition close_eqb (a b : close_kind) : bool :=
  match a, b with
  | NotCommitment, NotCommitment => true
  | CommitmentNoInfo, CommitmentNoInfo => true
  | Commitment o1 h1, Commitment o2 h2 => beq o1 o2 && beq h1 h2
  | _, _ => false
  end.
Definition tx_eqb (a b : tx) : bool :=
  beq (tx_id a) (tx_id b) && beq (tx_ins a) (tx_ins b) && beq (tx_nout a) (tx_nout b)
  && close_eqb (tx_close a) (tx_close b).
Definition block_eqb (a b : block) : bool := list_eqb tx_eqb a b.

(** [hist_ok] as a boolean, over the steps that are whole blocks *)
Fixpoint steps_ok (g : cfg) (tf : list block) (sts : list step) : bool :=
  match sts with
  | [] => true
  | SAdd b :: r => consistent g (rev (b :: tf)) && chain_wf g [b] && steps_ok g (b :: tf) r
  | SRemove b :: r => match tf with
                      | t :: tl => block_eqb t b && steps_ok g tl r
                      | [] => false
                      end
  | SRestart :: r => steps_ok g tf r
  | _ :: _ => false
  end.

(** configuration, initial height, saw_forget_channel; the steps; whether the generator
    claims the history admissible; the observations; the fixes present in the tree under test *)
Definition mcase : Type :=
  ((cfg * N * bool) * list step * bool * list (option obs))%type.

Definition case_model (fx : fixes) (c : mcase) : list (option obs) :=
  let '((g, h0, forgot), sts, _, _) := c in trace fx g forgot (init_mon g h0) sts.

Definition check_case (c : mcase) : bool :=
  let '((g, h0, forgot), sts, claimed, seen) := c in
  beq (case_model repaired c) seen && (if claimed then steps_ok g [] sts else true).

(** the same against the model of the code before the repairs (used to tell which tree is
    under test when a disagreement is reported) *)
Definition check_case_unrepaired (c : mcase) : bool :=
  let '(_, _, _, seen) := c in beq (case_model unrepaired c) seen.

(** the window of remembered headers: the deliveries of a tracker-driven case and the
    observed ChainTracker::headers length after each ([None] = the tracker refused) *)
Definition wcase : Type := (N * list wop * list (option N))%type.
(** [r0]: the blocks the tracker had followed (and remembers) when the case starts *)
Definition wstart (r0 : N) : wst := mkw r0 r0 r0.
Definition check_window (c : wcase) : bool :=
  let '(r0, ops, seen) := c in beq (win_trace (wstart r0) ops) seen.
