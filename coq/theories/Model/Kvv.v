(** Model of the key-version-value stores of vls-persist:
      vls-persist/src/kvv/memory.rs   MemoryKVVStore   key |-> (version, value) in a BTreeMap
      vls-persist/src/kvv/redb.rs     RedbKVVStore     redb table + [versions] cache, reopen
      vls-persist/src/kvv/cloud.rs    CloudKVVStore<MemoryKVVStore>  local store + commit log
                                      (and CloudKVVStore<RedbKVVStore> across restarts: [cr_step])
    Definitions only.  The model describes the code WITH the two repairs of
    notes/fixes/C16-*.patch (batch entries are judged against the running state; the cloud
    store refuses a version below the staged one); the behaviour of the unrepaired code is
    kept as [*_old] for the refutation examples in Props/C16.v.

    Keys are the UTF-8 bytes of the Rust [&str]; values are byte lists; versions are u64.
    A Rust panic is [OAbort]; a panic raised while a [std::sync::Mutex] guard is alive
    poisons that mutex, after which every [lock().unwrap()] panics: the [vpoison] /
    [cpoison] flags. *)
From VLS Require Export Base.U64 Base.Eqb.

Definition key := list N.
Definition value := list N.
Definition vv : Type := N * value.          (* (version, value) *)
Definition kvv : Type := key * vv.

(** lexicographic byte order: [Ord for str], also redb's order on [&str] keys *)
Fixpoint kcmp (a b : key) : comparison :=
  match a, b with
  | [], [] => Eq
  | [], _ :: _ => Lt
  | _ :: _, [] => Gt
  | x :: a', y :: b' =>
      match N.compare x y with
      | Eq => kcmp a' b'
      | c => c
      end
  end.
Definition klt (a b : key) : Prop := kcmp a b = Lt.
Definition kltb (a b : key) : bool := match kcmp a b with Lt => true | _ => false end.

(** [str::starts_with] *)
Fixpoint is_prefix (p k : key) : bool :=
  match p, k with
  | [], _ => true
  | _ :: _, [] => false
  | x :: p', y :: k' => (x =? y) && is_prefix p' k'
  end.

Definition val_eqb : value -> value -> bool := list_eqb N.eqb.
Definition vv_eqb (a b : vv) : bool := (fst a =? fst b) && val_eqb (snd a) (snd b).

(** * Sorted association lists (BTreeMap<String, _>, a redb table) *)
Section Assoc.
  Context {V : Type}.
  Fixpoint lookup (k : key) (s : list (key * V)) : option V :=
    match s with
    | [] => None
    | (k', v) :: r => match kcmp k k' with Eq => Some v | _ => lookup k r end
    end.
  Fixpoint upsert (k : key) (v : V) (s : list (key * V)) : list (key * V) :=
    match s with
    | [] => [(k, v)]
    | (k', v') :: r =>
        match kcmp k k' with
        | Eq => (k, v) :: r
        | Lt => (k, v) :: (k', v') :: r
        | Gt => (k', v') :: upsert k v r
        end
    end.
  (** [map.range(prefix..)] followed by "collect while starts_with, break at the first that
      does not" *)
  Fixpoint drop_below (p : key) (s : list (key * V)) : list (key * V) :=
    match s with
    | [] => []
    | (k, v) :: r => if kltb k p then drop_below p r else s
    end.
  Fixpoint take_prefixed (p : key) (s : list (key * V)) : list (key * V) :=
    match s with
    | [] => []
    | (k, v) :: r => if is_prefix p k then (k, v) :: take_prefixed p r else []
    end.
  Definition range_prefix (p : key) (s : list (key * V)) : list (key * V) :=
    take_prefixed p (drop_below p s).
End Assoc.

Definition store := list kvv.
Definition version_of (s : store) (k : key) : option N := option_map fst (lookup k s).

(** * Results *)
Inductive res := ROk | RErr | RAbort.       (* Ok(()) | Err(VersionMismatch) | panic *)

Inductive obs :=
| OUnit                                      (* Ok(()) *)
| OErr                                       (* Err(Error::VersionMismatch) *)
| OAbort                                     (* panic *)
| OVal (r : option vv)                       (* get *)
| OVer (r : option N)                        (* get_version *)
| OList (l : list kvv).                      (* get_prefix, prepare *)
Definition obs_of_res (r : res) : obs :=
  match r with ROk => OUnit | RErr => OErr | RAbort => OAbort end.

(** * The version rule shared by all backends (put_with_version) *)
Inductive verdict := Write | Same | RefuseLt | RefuseEq.
Definition judge (cur : option vv) (ver : N) (val : value) : verdict :=
  match cur with
  | None => Write
  | Some (v0, val0) =>
      if ver <? v0 then RefuseLt
      else if ver =? v0 then (if val_eqb val0 val then Same else RefuseEq)
      else Write
  end.

(** [get_version(key)?.map(|v| v + 1).unwrap_or(0)] *)
Definition next_version (p : profile) (cur : option N) : trap N :=
  match cur with
  | None => Val 0
  | Some v => add_p p v 1
  end.

(** * MemoryKVVStore *)
Definition m_pwv (s : store) (k : key) (ver : N) (val : value) : store * res :=
  match judge (lookup k s) ver val with
  | Write => (upsert k (ver, val) s, ROk)
  | Same => (s, ROk)
  | RefuseLt | RefuseEq => (s, RErr)
  end.

Definition m_put (p : profile) (s : store) (k : key) (val : value) : store * res :=
  match next_version p (version_of s k) with
  | Trap => (s, RAbort)
  | Val v => m_pwv s k v val
  end.

(** put_batch (repaired): each entry is judged against the store as left by the entries
    before it; nothing is written unless all are accepted *)
Fixpoint batch_go (s : store) (l : list kvv) : option store :=
  match l with
  | [] => Some s
  | (k, (ver, val)) :: r =>
      match judge (lookup k s) ver val with
      | Write => batch_go (upsert k (ver, val) s) r
      | Same => batch_go s r
      | RefuseLt | RefuseEq => None
      end
  end.
Definition m_batch (s : store) (l : list kvv) : store * res :=
  match batch_go s l with
  | Some s' => (s', ROk)
  | None => (s, RErr)
  end.

(** put_batch before the repair: every entry is judged against the store as it was before
    the batch, then all entries are inserted in order (also the ones equal to the old entry) *)
Definition old_entry_ok (s : store) (e : kvv) : bool :=
  match judge (lookup (fst e) s) (fst (snd e)) (snd (snd e)) with
  | Write | Same => true
  | _ => false
  end.
Definition m_batch_old (s : store) (l : list kvv) : store * res :=
  if forallb (old_entry_ok s) l
  then (fold_left (fun s e => upsert (fst e) (snd e) s) l s, ROk)
  else (s, RErr).

(** * RedbKVVStore: committed table, versions cache, poison flag of the cache mutex *)
Record disk := mkdisk { table : store; cache : list (key * N); vpoison : bool }.

Definition versions_of (t : store) : list (key * N) :=
  map (fun e => (fst e, fst (snd e))) t.
Definition d_init : disk := mkdisk [] [] false.
(** drop the store and open the directory again: the cache is rebuilt from the table *)
Definition d_reopen (d : disk) : disk := mkdisk (table d) (versions_of (table d)) false.
Definition d_poison (d : disk) : disk := mkdisk (table d) (cache d) true.

Inductive dverdict := DWrite | DSame | DRefuseLt | DRefuseEq | DPanic.
(** the cached version decides; on an equal version the encoded (version ++ value) bytes of
    the table entry are compared; [unwrap] on a missing table entry panics *)
Definition d_judge (cv : option N) (te : option vv) (ver : N) (val : value) : dverdict :=
  match cv with
  | None => DWrite
  | Some v =>
      if ver <? v then DRefuseLt
      else if ver =? v then
        match te with
        | None => DPanic
        | Some e => if vv_eqb e (ver, val) then DSame else DRefuseEq
        end
      else DWrite
  end.

Definition d_pwv (d : disk) (k : key) (ver : N) (val : value) : disk * res :=
  if vpoison d then (d, RAbort) else
  match d_judge (lookup k (cache d)) (lookup k (table d)) ver val with
  | DWrite => (mkdisk (upsert k (ver, val) (table d)) (upsert k ver (cache d)) false, ROk)
  | DSame => (d, ROk)
  | DRefuseLt | DRefuseEq => (d, RErr)
  | DPanic => (d_poison d, RAbort)
  end.

(** the guard of [versions] is alive while [v + 1] is evaluated *)
Definition d_put (p : profile) (d : disk) (k : key) (val : value) : disk * res :=
  if vpoison d then (d, RAbort) else
  match next_version p (lookup k (cache d)) with
  | Trap => (d_poison d, RAbort)
  | Val v => d_pwv d k v val
  end.

(** put_batch (repaired): one write transaction; the current version of a key is the staged
    one if the batch already wrote the key, else the cached one; a mismatch is remembered and
    the loop goes on (the [<] branch even falls through to the insert); at the end the
    transaction is aborted or committed and the staged versions are merged into the cache.
    [None] = panic. *)
Fixpoint d_batch_go (t : store) (c : list (key * N)) (bad : bool) (l : list kvv)
  : option (store * list (key * N) * bool) :=
  match l with
  | [] => Some (t, c, bad)
  | (k, (ver, val)) :: r =>
      match d_judge (lookup k c) (lookup k t) ver val with
      | DWrite => d_batch_go (upsert k (ver, val) t) (upsert k ver c) bad r
      | DSame => d_batch_go t c bad r
      | DRefuseLt => d_batch_go (upsert k (ver, val) t) (upsert k ver c) true r
      | DRefuseEq => d_batch_go t c true r
      | DPanic => None
      end
  end.
Definition d_batch (d : disk) (l : list kvv) : disk * res :=
  if vpoison d then (d, RAbort) else
  match d_batch_go (table d) (cache d) false l with
  | None => (d_poison d, RAbort)
  | Some (t, c, true) => (d, RErr)
  | Some (t, c, false) => (mkdisk t c false, ROk)
  end.

(** put_batch before the repair: the version check reads the cache as it was before the
    batch, the equal-version comparison reads the table inside the write transaction *)
Fixpoint d_batch_go_old (c0 : list (key * N)) (t : store) (c : list (key * N)) (bad : bool)
  (l : list kvv) : option (store * list (key * N) * bool) :=
  match l with
  | [] => Some (t, c, bad)
  | (k, (ver, val)) :: r =>
      match d_judge (lookup k c0) (lookup k t) ver val with
      | DWrite => d_batch_go_old c0 (upsert k (ver, val) t) (upsert k ver c) bad r
      | DSame => d_batch_go_old c0 t c bad r
      | DRefuseLt => d_batch_go_old c0 (upsert k (ver, val) t) (upsert k ver c) true r
      | DRefuseEq => d_batch_go_old c0 t c true r
      | DPanic => None
      end
  end.
Definition d_batch_old (d : disk) (l : list kvv) : disk * res :=
  if vpoison d then (d, RAbort) else
  match d_batch_go_old (cache d) (table d) (cache d) false l with
  | None => (d_poison d, RAbort)
  | Some (t, c, true) => (d, RErr)
  | Some (t, c, false) => (mkdisk t c false, ROk)
  end.

(** * CloudKVVStore<MemoryKVVStore> *)
Record cloud := mkcloud { local : store; clog : option store; cpoison : bool }.
Definition c_init : cloud := mkcloud [] None false.
Definition c_poison (c : cloud) : cloud := mkcloud (local c) (clog c) true.
Definition c_setlog (c : cloud) (l : option store) : cloud := mkcloud (local c) l (cpoison c).
(** "_WRITER" *)
Definition WRITER : key := [95; 87; 82; 73; 84; 69; 82].

(** [commit_log.lock().unwrap()] then [.expect("not in transaction")] *)
Definition with_log {A} (c : cloud) (dead : A) (f : store -> cloud * A) : cloud * A :=
  if cpoison c then (c, dead) else
  match clog c with
  | None => (c_poison c, dead)
  | Some l => f l
  end.

(** the repair: a version below the one already staged for the key is refused *)
Definition staged_lower (l : store) (k : key) (ver : N) : bool :=
  match lookup k l with
  | Some (sv, _) => ver <? sv
  | None => false
  end.

Definition c_pwv_gen (fixed : bool) (c : cloud) (k : key) (ver : N) (val : value) : cloud * res :=
  with_log c RAbort (fun l =>
    if fixed && staged_lower l k ver then (c, RErr) else
    match judge (lookup k (local c)) ver val with
    | Write => (c_setlog c (Some (upsert k (ver, val) l)), ROk)
    | Same => (c, ROk)
    | RefuseLt | RefuseEq => (c, RErr)
    end).
Definition c_pwv := c_pwv_gen true.

(** the next version is computed from the LOCAL store before the log is locked *)
Definition c_put_gen (fixed : bool) (p : profile) (c : cloud) (k : key) (val : value) : cloud * res :=
  match next_version p (version_of (local c) k) with
  | Trap => (c, RAbort)
  | Val v => c_pwv_gen fixed c k v val
  end.
Definition c_put := c_put_gen true.

(** put_batch = put_with_version one by one, stopping at the first failure (earlier entries
    stay in the log) *)
Fixpoint c_batch_gen (fixed : bool) (c : cloud) (l : list kvv) : cloud * res :=
  match l with
  | [] => (c, ROk)
  | (k, (ver, val)) :: r =>
      match c_pwv_gen fixed c k ver val with
      | (c1, ROk) => c_batch_gen fixed c1 r
      | (c1, e) => (c1, e)
      end
  end.
Definition c_batch := c_batch_gen true.

Definition c_get (c : cloud) (k : key) : cloud * obs :=
  with_log c OAbort (fun l =>
    (c, OVal (match lookup k l with Some e => Some e | None => lookup k (local c) end))).
Definition c_getv (c : cloud) (k : key) : cloud * obs :=
  with_log c OAbort (fun l =>
    (c, OVer (match lookup k l with Some e => Some (fst e) | None => version_of (local c) k end))).

Definition c_enter (p : profile) (sid : value) (c : cloud) : cloud * res :=
  match next_version p (version_of (local c) WRITER) with
  | Trap => (c, RAbort)
  | Val nv =>
      if cpoison c then (c, RAbort) else
      match clog c with
      | Some _ => (c_poison c, RAbort)               (* "cannot enter transaction twice" *)
      | None => (c_setlog c (Some [(WRITER, (nv, sid))]), ROk)
      end
  end.

Definition c_prepare (c : cloud) : cloud * obs :=
  with_log c OAbort (fun l =>
    match l with
    | [(k, _)] =>
        match kcmp k WRITER with
        | Eq => (c_setlog c (Some []), OList [])     (* effectively empty: cleared *)
        | _ => (c_poison c, OAbort)                   (* assert_eq! *)
        end
    | _ => (c, OList l)
    end).

Definition c_commit (c : cloud) : cloud * res :=
  if cpoison c then (c, RAbort) else
  match clog c with
  | None => (c_poison c, RAbort)
  | Some l => let '(s, r) := m_batch (local c) l in (mkcloud s None false, r)
  end.

(** put_batch_unlogged: refused with a panic inside a transaction (the guard is alive), else
    the whole list - tombstones (empty values) included - goes to the local store's put_batch *)
Definition c_unlogged (c : cloud) (l : list kvv) : cloud * res :=
  if cpoison c then (c, RAbort) else
  match clog c with
  | Some _ => (c_poison c, RAbort)
  | None => let '(s, r) := m_batch (local c) l in (mkcloud s None false, r)
  end.

(** what a transaction sees of key [k] *)
Definition c_visible (c : cloud) (k : key) : option vv :=
  match clog c with
  | Some l => match lookup k l with Some e => Some e | None => lookup k (local c) end
  | None => lookup k (local c)
  end.

(** * Requests *)
Inductive op :=
| Put (k : key) (v : value)
| PutV (k : key) (ver : N) (v : value)
| Batch (l : list kvv)
| Delete (k : key)
| Get (k : key)
| GetVersion (k : key)
| GetPrefix (p : key)
| Reopen                 (* disk: drop + open; a no-op for the other two *)
| Enter | Prepare | Commit    (* trait defaults on Memory and Redb *)
| Unlogged (l : list kvv).    (* put_batch_unlogged: state fetched from external storage,
                                 applied at start-up; trait default = put_batch *)

Definition m_step (p : profile) (s : store) (o : op) : store * obs :=
  match o with
  | Put k v => let '(s', r) := m_put p s k v in (s', obs_of_res r)
  | PutV k ver v => let '(s', r) := m_pwv s k ver v in (s', obs_of_res r)
  | Batch l => let '(s', r) := m_batch s l in (s', obs_of_res r)
  | Delete k => let '(s', r) := m_put p s k [] in (s', obs_of_res r)
  | Get k => (s, OVal (lookup k s))
  | GetVersion k => (s, OVer (version_of s k))
  | GetPrefix q => (s, OList (range_prefix q s))
  | Reopen => (s, OUnit)
  | Enter => (s, OUnit)
  | Prepare => (s, OList [])
  | Commit => (s, OUnit)
  | Unlogged l => let '(s', r) := m_batch s l in (s', obs_of_res r)
  end.

Definition d_step (p : profile) (d : disk) (o : op) : disk * obs :=
  match o with
  | Put k v => let '(d', r) := d_put p d k v in (d', obs_of_res r)
  | PutV k ver v => let '(d', r) := d_pwv d k ver v in (d', obs_of_res r)
  | Batch l => let '(d', r) := d_batch d l in (d', obs_of_res r)
  | Delete k => let '(d', r) := d_put p d k [] in (d', obs_of_res r)
  | Get k => (d, OVal (lookup k (table d)))
  | GetVersion k => if vpoison d then (d, OAbort) else (d, OVer (lookup k (cache d)))
  | GetPrefix q => (d, OList (range_prefix q (table d)))
  | Reopen => (d_reopen d, OUnit)
  | Enter => (d, OUnit)
  | Prepare => (d, OList [])
  | Commit => (d, OUnit)
  | Unlogged l => let '(d', r) := d_batch d l in (d', obs_of_res r)
  end.

Definition c_step_gen (fixed : bool) (p : profile) (sid : value) (c : cloud) (o : op) : cloud * obs :=
  match o with
  | Put k v => let '(c', r) := c_put_gen fixed p c k v in (c', obs_of_res r)
  | PutV k ver v => let '(c', r) := c_pwv_gen fixed c k ver v in (c', obs_of_res r)
  | Batch l => let '(c', r) := c_batch_gen fixed c l in (c', obs_of_res r)
  | Delete k => let '(c', r) := c_put_gen fixed p c k [] in (c', obs_of_res r)
  | Get k => c_get c k
  | GetVersion k => c_getv c k
  | GetPrefix q => (c, OList (range_prefix q (local c)))
  | Reopen => (c, OUnit)
  | Enter => let '(c', r) := c_enter p sid c in (c', obs_of_res r)
  | Prepare => c_prepare c
  | Commit => let '(c', r) := c_commit c in (c', obs_of_res r)
  | Unlogged l => let '(c', r) := c_unlogged c l in (c', obs_of_res r)
  end.
Definition c_step := c_step_gen true.

(** CloudKVVStore<RedbKVVStore> across signer restarts: the local store is on disk (and, never
    being asked to [put], answers as the memory store does - Proofs: disk_refines_mem); a
    restart ([Reopen]: drop the cloud store, open the directory again, wrap it anew) loses the
    commit log and the poison, and keeps the local store *)
Definition cr_step (p : profile) (sid : value) (c : cloud) (o : op) : cloud * obs :=
  match o with
  | Reopen => (mkcloud (local c) None false, OUnit)
  | _ => c_step p sid c o
  end.
Definition cr_run (p : profile) (sid : value) (ops : list op) : cloud :=
  fold_left (fun c o => fst (cr_step p sid c o)) ops c_init.

(** states after a history *)
Definition m_run (p : profile) (ops : list op) : store :=
  fold_left (fun s o => fst (m_step p s o)) ops [].
Definition d_run (p : profile) (ops : list op) : disk :=
  fold_left (fun d o => fst (d_step p d o)) ops d_init.
Definition c_run (p : profile) (sid : value) (ops : list op) : cloud :=
  fold_left (fun c o => fst (c_step p sid c o)) ops c_init.

(** per-request results of a history *)
Fixpoint m_trace (p : profile) (s : store) (ops : list op) : list obs :=
  match ops with
  | [] => []
  | o :: r => let '(s', x) := m_step p s o in x :: m_trace p s' r
  end.
Fixpoint d_trace (p : profile) (d : disk) (ops : list op) : list obs :=
  match ops with
  | [] => []
  | o :: r => let '(d', x) := d_step p d o in x :: d_trace p d' r
  end.
Fixpoint c_trace (p : profile) (sid : value) (c : cloud) (ops : list op) : list obs :=
  match ops with
  | [] => []
  | o :: r => let '(c', x) := c_step p sid c o in x :: c_trace p sid c' r
  end.
