(** Executable comparison of Model/Payments.v with the real node (harness/src/bin/pay.rs). *)
From VLS Require Export Base.Eqb Model.Payments.

(** observation after a request: accepted?, and for every hash of the universe its invoice,
    whether a payment record exists and whether it carries the preimage, and the ledger row
    over the channels *)
Definition pobs : Type := bool * list (option N * (bool * bool) * list (N * N)).

Definition observe (nch : nat) (hashes : list N) (s : pnode) : list (option N * (bool * bool) * list (N * N)) :=
  map (fun h => (inv s h, (known s h, pre s h), map (fun c => led s h c) (chan_ids nch))) hashes.

Definition pay_case : Type := (nat * N * N * list N) * list pop * list pobs.

Fixpoint pay_trace (nch : nat) (mf mp : N) (hashes : list N) (s : pnode) (ops : list pop) : list pobs :=
  match ops with
  | [] => []
  | o :: r =>
      let '(s', ok) := pstep nch mf mp s o in
      (ok, observe nch hashes s') :: pay_trace nch mf mp hashes s' r
  end.

Definition pay_model (c : pay_case) : list pobs :=
  let '((nch, mf, mp, hashes), ops, _) := c in pay_trace nch mf mp hashes pinit ops.

Definition check_pay (c : pay_case) : bool := beq (pay_model c) (snd c).

Fixpoint first_diff {A} `{Eqb A} (i : N) (x y : list A) : option N :=
  match x, y with
  | [], [] => None
  | a :: x', b :: y' => if beq a b then first_diff (i + 1) x' y' else Some i
  | _, _ => Some i
  end.
Definition pay_first_diff (c : pay_case) : option N := first_diff 0 (pay_model c) (snd c).
