(** C20 regression material, FROZEN (not regenerated): the lock programs of nine request kinds as
    recorded by `harness locks record` on /repo before the six lock-order repairs (d17a780
    forget_channel, d8c7dbb persist_all, ebf9b0b find_or_create_channel, 5c1a325
    unchecked_sign_onchain_tx, 3a44e42 compact block decoding, 3b34051 on_push), and the five
    schedules that blocked real threads for ever (full recording: notes/fixes/C20-prefix-recording.jsonl).
    Lock classes: 1 S node state, 2 M channel map, 3 C channel slot, 4 T chain tracker,
    5 V validator factory, 6 Mon monitor state, 7 D block decode state, 8 P memory store, 9 K clock. *)
From VLS Require Import Model.Locks.
Open Scope N_scope.

Definition old_forget_channel_stub : program :=
  [Acq (1, 0); Acq (2, 0); Touch (2, 0); Acq (3, 4); Touch (3, 4); Touch (1, 0); Acq (8, 0); Touch (8, 0); Rel (8, 0); Acq (8, 0); Touch (8, 0); Rel (8, 0); Rel (3, 4); Touch (2, 0); Acq (8, 0); Touch (8, 0); Rel (8, 0); Acq (8, 0); Touch (8, 0); Rel (8, 0); Rel (2, 0); Rel (1, 0)].
Definition old_node_balance_query : program :=
  [Acq (2, 0); Touch (2, 0); Acq (3, 1); Touch (3, 1); Acq (1, 0); Acq (5, 0); Touch (5, 0); Rel (5, 0); Acq (6, 0); Touch (6, 0); Rel (6, 0); Touch (1, 0); Rel (1, 0); Rel (3, 1); Acq (3, 3); Touch (3, 3); Acq (1, 0); Acq (5, 0); Touch (5, 0); Rel (5, 0); Acq (6, 1); Touch (6, 1); Rel (6, 1); Touch (1, 0); Rel (1, 0); Rel (3, 3); Acq (3, 4); Touch (3, 4); Rel (3, 4); Rel (2, 0)].
Definition old_forget_channel_ready : program :=
  [Acq (1, 0); Acq (2, 0); Touch (2, 0); Acq (3, 1); Touch (3, 1); Acq (6, 0); Touch (6, 0); Rel (6, 0); Acq (8, 0); Touch (8, 0); Rel (8, 0); Acq (8, 0); Touch (8, 0); Rel (8, 0); Touch (1, 0); Acq (8, 0); Touch (8, 0); Rel (8, 0); Acq (8, 0); Touch (8, 0); Rel (8, 0); Rel (3, 1); Rel (2, 0); Rel (1, 0); Acq (4, 0); Touch (4, 0); Acq (6, 0); Touch (6, 0); Rel (6, 0); Acq (6, 1); Touch (6, 1); Rel (6, 1); Acq (8, 0); Touch (8, 0); Rel (8, 0); Acq (8, 0); Touch (8, 0); Rel (8, 0); Rel (4, 0)].
Definition old_validate_holder_commitment : program :=
  [Acq (2, 0); Touch (2, 0); Rel (2, 0); Acq (3, 1); Touch (3, 1); Acq (1, 0); Touch (1, 0); Acq (5, 0); Touch (5, 0); Rel (5, 0); Acq (6, 0); Touch (6, 0); Rel (6, 0); Touch (1, 0); Acq (8, 0); Touch (8, 0); Rel (8, 0); Acq (8, 0); Touch (8, 0); Rel (8, 0); Rel (1, 0); Rel (3, 1)].
Definition old_persist_all : program :=
  [Acq (1, 0); Touch (1, 0); Acq (8, 0); Touch (8, 0); Rel (8, 0); Acq (8, 0); Touch (8, 0); Rel (8, 0); Acq (8, 0); Touch (8, 0); Rel (8, 0); Acq (8, 0); Touch (8, 0); Rel (8, 0); Acq (2, 0); Touch (2, 0); Acq (3, 1); Touch (3, 1); Acq (8, 0); Touch (8, 0); Rel (8, 0); Acq (8, 0); Touch (8, 0); Rel (8, 0); Rel (3, 1); Acq (3, 3); Touch (3, 3); Acq (8, 0); Touch (8, 0); Rel (8, 0); Acq (8, 0); Touch (8, 0); Rel (8, 0); Rel (3, 3); Acq (3, 4); Touch (3, 4); Rel (3, 4); Rel (2, 0); Acq (4, 0); Touch (4, 0); Acq (6, 0); Touch (6, 0); Rel (6, 0); Acq (6, 1); Touch (6, 1); Rel (6, 1); Acq (8, 0); Touch (8, 0); Rel (8, 0); Acq (8, 0); Touch (8, 0); Rel (8, 0); Rel (4, 0); Touch (1, 0); Acq (8, 0); Touch (8, 0); Rel (8, 0); Acq (8, 0); Touch (8, 0); Rel (8, 0); Rel (1, 0)].
Definition old_sign_onchain_funding : program :=
  [Acq (2, 0); Touch (2, 0); Acq (3, 1); Touch (3, 1); Rel (3, 1); Acq (3, 3); Touch (3, 3); Rel (3, 3); Acq (3, 6); Touch (3, 6); Rel (3, 6); Acq (3, 5); Touch (3, 5); Rel (3, 5); Touch (2, 0); Acq (3, 1); Touch (3, 1); Rel (3, 1); Acq (3, 3); Touch (3, 3); Rel (3, 3); Acq (3, 6); Touch (3, 6); Rel (3, 6); Acq (3, 5); Touch (3, 5); Rel (3, 5); Acq (4, 0); Acq (3, 5); Touch (3, 5); Touch (4, 0); Acq (6, 2); Touch (6, 2); Rel (6, 2); Acq (8, 0); Touch (8, 0); Rel (8, 0); Acq (8, 0); Touch (8, 0); Rel (8, 0); Rel (3, 5); Touch (4, 0); Acq (6, 0); Touch (6, 0); Rel (6, 0); Acq (6, 1); Touch (6, 1); Rel (6, 1); Acq (6, 2); Touch (6, 2); Rel (6, 2); Acq (8, 0); Touch (8, 0); Rel (8, 0); Acq (8, 0); Touch (8, 0); Rel (8, 0); Acq (1, 0); Touch (1, 0); Acq (8, 0); Touch (8, 0); Rel (8, 0); Acq (8, 0); Touch (8, 0); Rel (8, 0); Rel (1, 0); Rel (4, 0); Rel (2, 0)].
Definition old_new_channel : program :=
  [Acq (1, 0); Touch (1, 0); Rel (1, 0); Acq (2, 0); Acq (5, 0); Touch (5, 0); Rel (5, 0); Touch (2, 0); Acq (4, 0); Touch (4, 0); Rel (4, 0); Touch (2, 0); Acq (8, 0); Touch (8, 0); Rel (8, 0); Acq (8, 0); Touch (8, 0); Rel (8, 0); Rel (2, 0)].
Definition old_setup_channel : program :=
  [Acq (4, 0); Acq (5, 0); Touch (5, 0); Rel (5, 0); Acq (2, 0); Touch (2, 0); Acq (3, 4); Touch (3, 4); Touch (4, 0); Acq (6, 2); Touch (6, 2); Rel (6, 2); Rel (3, 4); Rel (2, 0); Acq (2, 0); Acq (3, 5); Touch (3, 5); Rel (3, 5); Touch (2, 0); Touch (4, 0); Acq (6, 2); Touch (6, 2); Rel (6, 2); Acq (6, 0); Touch (6, 0); Rel (6, 0); Acq (6, 1); Touch (6, 1); Rel (6, 1); Acq (8, 0); Touch (8, 0); Rel (8, 0); Acq (8, 0); Touch (8, 0); Rel (8, 0); Acq (8, 0); Touch (8, 0); Rel (8, 0); Acq (8, 0); Touch (8, 0); Rel (8, 0); Rel (2, 0); Rel (4, 0)].
Definition old_add_block_closing : program :=
  [Acq (4, 0); Touch (4, 0); Acq (6, 0); Touch (6, 0); Acq (3, 1); Touch (3, 1); Rel (3, 1); Acq (3, 1); Touch (3, 1); Rel (3, 1); Acq (3, 1); Touch (3, 1); Rel (3, 1); Rel (6, 0); Acq (6, 0); Touch (6, 0); Rel (6, 0); Acq (6, 1); Touch (6, 1); Rel (6, 1); Acq (6, 1); Touch (6, 1); Rel (6, 1); Touch (4, 0); Acq (6, 0); Touch (6, 0); Rel (6, 0); Acq (6, 1); Touch (6, 1); Rel (6, 1); Acq (8, 0); Touch (8, 0); Rel (8, 0); Acq (8, 0); Touch (8, 0); Rel (8, 0); Rel (4, 0)].

Definition old_progs : list program := [old_forget_channel_stub; old_node_balance_query; old_forget_channel_ready; old_validate_holder_commitment; old_persist_all; old_sign_onchain_funding; old_new_channel; old_setup_channel; old_add_block_closing].

(** (programs, schedule = which thread moves next, the two locks of the inversion) *)
Definition old_race_S_M : list program * list nat :=
  ([old_forget_channel_stub; old_node_balance_query], [0; 1; 1; 1; 1]%nat).
Definition old_race_S_C : list program * list nat :=
  ([old_forget_channel_ready; old_validate_holder_commitment], [0; 1; 1; 1; 1; 1; 0; 0]%nat).
Definition old_race_S_T : list program * list nat :=
  ([old_persist_all; old_sign_onchain_funding], [0; 1; 1; 1; 1; 1; 1; 1; 1; 1; 1; 1; 1; 1; 1; 1; 1; 1; 1; 1; 1; 1; 1; 1; 1; 1; 1; 1; 1; 1; 1; 1; 1; 1; 1; 1; 1; 1; 1; 1; 1; 1; 1; 1; 1; 1; 1; 1; 1; 1; 1; 1; 1; 1; 1; 1; 1; 1; 0; 0; 0; 0; 0; 0; 0; 0; 0; 0; 0; 0; 0]%nat).
Definition old_race_M_T : list program * list nat :=
  ([old_new_channel; old_setup_channel], [0; 0; 0; 0; 1; 1; 1; 1; 0; 0; 0; 0]%nat).
Definition old_race_C_Mon : list program * list nat :=
  ([old_forget_channel_ready; old_add_block_closing], [0; 0; 0; 0; 1; 1; 1; 1; 0]%nat).

Definition old_races : list (list program * list nat) := [old_race_S_M; old_race_S_C; old_race_S_T; old_race_M_T; old_race_C_Mon].

(** for each race: a takes b-lock under a-lock in the first program, the second the other way round *)
Definition old_inversions : list (lock * lock * program * program) := [
  ((1, 0), (2, 0), old_forget_channel_stub, old_node_balance_query);
  ((1, 0), (3, 1), old_forget_channel_ready, old_validate_holder_commitment);
  ((1, 0), (4, 0), old_persist_all, old_sign_onchain_funding);
  ((2, 0), (4, 0), old_new_channel, old_setup_channel);
  ((3, 1), (6, 0), old_forget_channel_ready, old_add_block_closing)].
