(** Executable comparison of Model/Onchain.v with observations of the real validator, node and
    approver (evaluated by [vm_compute] in generated case files). *)
From VLS Require Export Base.Eqb Model.Onchain Model.VelocityCheck.
From VLS Require Model.CommitmentPolicy.

Definition otag_code (t : otag) : N :=
  match t with
  | T_format_standard => 0 | T_max_size => 1 | T_non_malleable => 2 | T_output_scriptpubkey => 3
  | T_no_unknown_outputs => 4 | T_match_commitment => 5 | T_initial_countersigned => 6
  | T_no_fund_inbound => 7 | T_no_channel_push => 8 | T_fee_range => 9
  end.

(** observation of an answer: (code, unknown indices, non-beneficial value);
    code 0 accepted, 1 panic, 2 unknown destinations, 100 + tag refused *)
Definition robs : Type := N * list N * N.

Definition vres_obs (r : vres) : robs :=
  match r with
  | VOk n => (0, [], n)
  | VPanic => (1, [], 0)
  | VUnknown u => (2, u, 0)
  | VErr t => (100 + otag_code t, [], 0)
  end.

(** validator-level case: ((filter rules, policy), arguments, observed) *)
Definition val_case : Type := (list CommitmentPolicy.rule * opolicy) * txcase * robs.
Definition val_model (c : val_case) : robs :=
  let '((rules, pol), tx, _) := c in vres_obs (validate_onchain (owarn_of rules) pol tx).
Definition check_val (c : val_case) : bool := beq (val_model c) (snd c).

(** node-level case: check_onchain_tx, then Approve::handle_proposed_onchain (which checks again)
    on the same node at the same time.
    ((profile, rules, policy), (fee control before, now, transaction, the approver's answer),
     ((check code, indices), control after the check,
      (handle code: 0 approved, 1 rejected, 2 failed, 3 panic; the indices the approver was asked about),
      control after the handler)) *)
Definition cres_obs (r : cres) : N * list N :=
  match r with
  | COk _ => (0, [])
  | CPanic => (1, [])
  | CUnknown u => (2, u)
  | CErr t => (100 + otag_code t, [])
  end.
Definition hres_code (h : hres) : N :=
  match h with HApproved => 0 | HRejected => 1 | HFailed => 2 | HPanic => 3 end.
Definition vc_of (o : vcobs) : vc := let '(s, i, b, l) := o in mkvc s i b l.

Definition node_obs : Type := (N * list N) * vcobs * (N * option (list N)) * vcobs.
Definition node_case : Type :=
  (profile * list CommitmentPolicy.rule * opolicy) * (vcobs * N * nodecase * bool) * node_obs.

Definition node_model_with (check : profile -> (otag -> bool) -> opolicy -> vc -> N -> nodecase -> cres * vc)
           (c : node_case) : node_obs :=
  let '((prof, rules, pol), (c0, now, nc, answer), _) := c in
  let chk := check prof (owarn_of rules) pol in
  let '(r1, c1) := chk (vc_of c0) now nc in
  let '(r2, _) := chk c1 now nc in
  let '(h, c2) := handle_proposed_with chk (fun _ => answer) c1 now nc in
  (cres_obs r1, obs_of c1,
   (hres_code h, match r2 with CUnknown u => Some u | _ => None end), obs_of c2).
(** the repaired code, and the code as found (value * 1000 trapping / wrapping) *)
Definition node_model : node_case -> node_obs := node_model_with (fun _ => check_onchain).
Definition node_model_old : node_case -> node_obs := node_model_with check_onchain_old.
Definition check_node (c : node_case) : bool := beq (node_model c) (snd c).
Definition check_node_old (c : node_case) : bool := beq (node_model_old c) (snd c).

(** handler-level case: a SignWithdrawal request through the wire codec and RootHandler::handle.
    The transaction is the view the handler derives from the request (values and scripts of the
    previous outputs, segwit flags, output paths).
    observed: (0 reply / 2 error / 3 panic, the indices the approver was asked about, control after) *)
Definition handler_obs : Type := N * option (list N) * vcobs.
(** the last flag of the request: one of its wallet inputs is refused by the signing loop of
    unchecked_sign_onchain_tx (a key that does not match the script), which runs after the approval *)
Definition handler_case : Type :=
  (list CommitmentPolicy.rule * opolicy) * (vcobs * N * nodecase * bool * bool) * handler_obs.
Definition handler_model (c : handler_case) : handler_obs :=
  let '((rules, pol), (c0, now, nc, answer, sign_refuses), _) := c in
  let warn := owarn_of rules in
  let '(r, _) := check_onchain warn pol (vc_of c0) now nc in
  let '(h, c1) := handle_proposed warn pol (fun _ => answer) (vc_of c0) now nc in
  (match h with HApproved => if sign_refuses then 2 else 0 | HPanic => 3 | _ => 2 end,
   match r with CUnknown u => Some u | _ => None end, obs_of c1).
Definition check_handler (c : handler_case) : bool := beq (handler_model c) (snd c).

(** memo case: (the delegate's constant answer, operations, observed answers to the requests) *)
Definition memo_case : Type := bool * list mop * list bool.
Definition memo_model (c : memo_case) : list bool :=
  let '(d, ops, _) := c in snd (mrun (fun _ => d) [] ops).
Definition check_memo (c : memo_case) : bool := beq (memo_model c) (snd c).

(** history case: a node with a configured fee velocity spec (the harness's record of the
    configuration, not read from the node), then on-chain requests (check, and sign iff accepted),
    node-entry writes and restarts.
    ((rules, policy, interval type, limit), operations, per operation (check code or 0, control in memory)) *)
Definition hist_case : Type :=
  (list CommitmentPolicy.rule * opolicy * itype * N) * list oop * list (N * vcobs).
Fixpoint otrace (warn : otag -> bool) (pol : opolicy) (it : itype) (lim : N) (s : nodevc) (ops : list oop)
  : list (N * vcobs) :=
  match ops with
  | [] => []
  | o :: r =>
      let '(s1, _) := ostep warn pol it lim s o in
      (match o with
       | OTx now nc => fst (cres_obs (fst (check_onchain warn pol (mem s) now nc)))
       | _ => 0
       end, obs_of (mem s1)) :: otrace warn pol it lim s1 r
  end.
Definition hist_model (c : hist_case) : list (N * vcobs) :=
  let '((rules, pol, it, lim), ops, _) := c in
  otrace (owarn_of rules) pol it lim (vinit it lim) ops.
Definition check_hist (c : hist_case) : bool := beq (hist_model c) (snd c).
