(** Channel key derivation (C18).  Model of

      vls-core/src/signer/my_keys_manager.rs   MyKeysManager::new, get_channel_keys_with_id,
                                               get_channel_keys_with_keys_id, get_channel_id
      vls-core/src/signer/derive.rs            KeyDerive::{channels_seed, keys_id, channel_keys}
                                               for NativeKeyDerive / LdkKeyDerive / LndKeyDerive
      vls-core/src/channel.rs                  ChannelStub::channel_keys_with_channel_value,
                                               get_per_commitment_point / _secret
      vls-core/src/node.rs                     find_or_create_channel, setup_channel, Node::restore

    The keys manager is (seed, style, network, counters).  HKDF, SHA-256, BIP32, the LND key
    path and the EC base-point multiplication are Section parameters ([hkdf], [sha], [xpriv] …,
    [pub_of]); Model/KeysCheck.v instantiates hkdf/sha with the Gallina SHA-256 and BIP32 with
    an oracle table so that the model runs against the implementation.  Definitions only. *)
From Coq Require Import String.
From VLS Require Export Base.U64 Base.Sha256 Model.Secrets.

Inductive style := Native | Ldk | Lnd.

(** (funding_key, revocation_base_key, htlc_base_key, payment_key, delayed_payment_base_key,
    commitment_seed) -- the order of the tuple returned by KeyDerive::channel_keys *)
Record chkeys := mkkeys {
  k_funding : bytes; k_revocation : bytes; k_htlc : bytes; k_payment : bytes; k_delayed : bytes;
  k_cseed : bytes }.

Definition s_peer_seed : bytes := of_ascii "peer seed".
Definition s_per_peer_seed : bytes := of_ascii "per-peer seed".
Definition s_bip32_seed : bytes := of_ascii "bip32 seed".
Definition s_clightning : bytes := of_ascii "c-lightning".
Definition s_commitment_seed : bytes := of_ascii "commitment seed".
Definition s_funding_key : bytes := of_ascii "funding key".
Definition s_revocation_base_key : bytes := of_ascii "revocation base key".
Definition s_payment_key : bytes := of_ascii "payment key".
Definition s_delayed_payment_base_key : bytes := of_ascii "delayed payment base key".
Definition s_htlc_base_key : bytes := of_ascii "HTLC base key".

Definition slice32 (i : nat) (l : bytes) : bytes := firstn 32 (skipn (32 * i) l).
(** byte_utils::slice_to_be64 *)
Definition be_val (l : bytes) : N := fold_left (fun a b => a * 256 + b) l 0.

(** LdkKeyDerive::keys_id: res[0..4] = 0; res[4] &= 0x7f *)
Definition ldk_mask (r : bytes) : bytes :=
  match r with
  | _ :: _ :: _ :: _ :: b4 :: rest => 0 :: 0 :: 0 :: 0 :: N.land b4 127 :: rest
  | _ => r
  end.

Record mgr := mkmgr {
  m_seed : bytes; m_style : style; m_net : N;
  m_lnd_index : N;        (* lnd_basepoint_index: AtomicU32 *)
  m_chanid_index : N;     (* channel_id_child_index *)
  m_rand_index : N }.     (* rand_bytes_child_index *)

Section KeysModel.
  Variable hkdf : bytes -> bytes -> bytes -> nat -> bytes.   (* hkdf_sha256(secret, info, salt), 32*n bytes *)
  Variable sha : bytes -> bytes.                              (* Sha256 over the concatenated inputs *)
  Variable xpriv : Type.
  Variable bip_master : N -> bytes -> xpriv.                  (* Xpriv::new_master(network, seed) *)
  Variable bip_child_h : xpriv -> N -> xpriv.                 (* derive_priv([hardened idx]) *)
  Variable bip_priv : xpriv -> bytes.                         (* .private_key *)
  Variable lnd_key : N -> xpriv -> N -> N -> bytes.           (* derive_key_lnd(network, master, family, index).1 *)
  Variable point : Type.
  Variable pub_of : bytes -> point.                           (* PublicKey::from_secret_key *)

  (** KeyDerive::channels_seed *)
  Definition channels_seed (seed : bytes) : bytes := hkdf seed s_peer_seed [] 1.

  (** KeyDerive::master_key *)
  Definition master_key (st : style) (net : N) (seed : bytes) : xpriv :=
    match st with
    | Native => bip_master net (hkdf seed s_bip32_seed [] 1)
    | Ldk | Lnd => bip_master net seed
    end.

  (** KeyDerive::keys_id(channel_id, channel_seed_base): the channel id is the HKDF *salt* *)
  Definition keys_id (st : style) (base id : bytes) : bytes :=
    let r := hkdf base s_per_peer_seed id 1 in
    match st with Ldk => ldk_mask r | _ => r end.

  Definition native_keys (kid : bytes) : chkeys :=
    let buf := hkdf kid s_clightning [] 6 in
    mkkeys (slice32 0 buf) (slice32 1 buf) (slice32 2 buf) (slice32 3 buf) (slice32 4 buf) (slice32 5 buf).

  (** LdkKeyDerive::channel_keys; [None] is the assert! / expect("key space exhausted") panic *)
  Definition ldk_keys (seed kid : bytes) (master : xpriv) : option chkeys :=
    let chan_id := be_val (firstn 8 kid) in
    if (chan_id <=? U32MAX) && (as_u32 chan_id <? 2147483648) then
      let child := bip_priv (bip_child_h (bip_child_h master 3) (as_u32 chan_id)) in
      let cs := sha (kid ++ seed ++ child) in
      let cseed := sha (cs ++ s_commitment_seed) in
      let funding := sha (cs ++ cseed ++ s_funding_key) in
      let revocation := sha (cs ++ funding ++ s_revocation_base_key) in
      let payment := sha (cs ++ revocation ++ s_payment_key) in
      let delayed := sha (cs ++ payment ++ s_delayed_payment_base_key) in
      let htlc := sha (cs ++ delayed ++ s_htlc_base_key) in
      Some (mkkeys funding revocation htlc payment delayed cseed)
    else None.

  (** LndKeyDerive::channel_keys: the five keys come from the running basepoint index *)
  Definition lnd_keys (net : N) (kid : bytes) (bp : N) (master : xpriv) : chkeys :=
    let buf := hkdf kid s_clightning [] 6 in
    mkkeys (lnd_key net master 0 bp) (lnd_key net master 1 bp) (lnd_key net master 2 bp)
           (lnd_key net master 3 bp) (lnd_key net master 4 bp) (slice32 5 buf).

  Definition channel_keys (st : style) (net : N) (seed kid : bytes) (bp : N) : option chkeys :=
    let master := master_key st net seed in
    match st with
    | Native => Some (native_keys kid)
    | Ldk => ldk_keys seed kid master
    | Lnd => Some (lnd_keys net kid bp master)
    end.

  (** MyKeysManager::new: all counters 0, one get_secure_random_bytes for the secp context *)
  Definition mgr_new (seed : bytes) (st : style) (net : N) : mgr := mkmgr seed st net 0 0 1.

  (** get_channel_keys_with_keys_id: fetch_add on the LND counter (u32), one draw of random bytes *)
  Definition bump_derive (m : mgr) : mgr :=
    mkmgr (m_seed m) (m_style m) (m_net m) ((m_lnd_index m + 1) mod two32) (m_chanid_index m)
          (m_rand_index m + 1).
  Definition derive_with_keys_id (m : mgr) (kid : bytes) : option chkeys * mgr :=
    (channel_keys (m_style m) (m_net m) (m_seed m) kid (m_lnd_index m), bump_derive m).
  (** get_channel_keys_with_id *)
  Definition derive (m : mgr) (id : bytes) : option chkeys * mgr :=
    derive_with_keys_id m (keys_id (m_style m) (channels_seed (m_seed m)) id).
  (** get_channel_id / increment_channel_id_child_index *)
  Definition bump_chanid (m : mgr) : mgr :=
    mkmgr (m_seed m) (m_style m) (m_net m) (m_lnd_index m) (m_chanid_index m + 1) (m_rand_index m).

  (** the keys of a channel as a function of (style, network, seed, id) alone *)
  Definition keys_of (st : style) (net : N) (seed id : bytes) : option chkeys :=
    fst (derive (mgr_new seed st net) id).

  (** * What a channel shows of its keys *)
  Definition commit_secret (k : chkeys) (n : nat) : bytes :=
    build_commitment_secret bytes sha flip_bit (k_cseed k) (idx_of_commit n).
  (** Channel(Stub)::check_future_secret(commitment_number, suggested): the suggested secret is
      compared with the channel's own secret of that number (no gate on the channel state) *)
  Definition check_future_secret (k : chkeys) (n : nat) (s : bytes) : bool :=
    bytes_eqb s (commit_secret k n).
  Record observation := mkobs {
    o_basepoints : list point;       (* funding_pubkey, revocation, payment, delayed_payment, htlc *)
    o_funding_key : bytes;
    o_points : list point;           (* per-commitment points of the requested numbers *)
    o_secrets : list bytes }.        (* per-commitment secrets of the requested numbers *)
  Definition observe (k : chkeys) (ns : list nat) : observation :=
    mkobs [pub_of (k_funding k); pub_of (k_revocation k); pub_of (k_payment k); pub_of (k_delayed k);
           pub_of (k_htlc k)]
          (k_funding k)
          (map (fun n => pub_of (commit_secret k n)) ns)
          (map (commit_secret k) ns).

  (** * The node: channel slots in memory, channel entries in the store *)
  Record slot := mkslot { s_keys : chkeys; s_ready : bool }.
  Record node := mknode {
    n_mgr : mgr;
    n_chans : list (bytes * slot);        (* by id0 *)
    n_store : list (bytes * bool) }.      (* persisted entries: id0, is-setup *)

  Inductive op :=
  | NewChannel (id : bytes)       (* Node::new_channel -> find_or_create_channel *)
  | Setup (id : bytes)            (* Node::setup_channel *)
  | Restart                       (* Node::restore from the store and the seed *)
  | ExtraDerive (kid : bytes)     (* any other derivation by keys id: SignerProvider::derive_channel_signer,
                                     spend_spendable_outputs *)
  | RandomChannelId.              (* new_channel_with_random_id's get_channel_id *)

  Fixpoint lookup {A} (id : bytes) (l : list (bytes * A)) : option A :=
    match l with
    | [] => None
    | (i, a) :: r => if bytes_eqb i id then Some a else lookup id r
    end.
  Fixpoint replace {A} (id : bytes) (a : A) (l : list (bytes * A)) : list (bytes * A) :=
    match l with
    | [] => []
    | (i, b) :: r => if bytes_eqb i id then (i, a) :: r else (i, b) :: replace id a r
    end.

  Definition node_new (seed : bytes) (st : style) (net : N) : node := mknode (mgr_new seed st net) [] [].

  (** restore: a fresh manager, then every stored entry re-derived from its id0 in store order *)
  Fixpoint restore_chans (m : mgr) (entries : list (bytes * bool)) : mgr * list (bytes * slot) :=
    match entries with
    | [] => (m, [])
    | (id, ready) :: r =>
        let '(ok, m1) := derive m id in
        let '(m2, rest) := restore_chans (bump_chanid m1) r in
        match ok with
        | Some k => (m2, (id, mkslot k ready) :: rest)
        | None => (m2, rest)
        end
    end.

  Definition step (nd : node) (o : op) : node :=
    match o with
    | NewChannel id =>
        match lookup id (n_chans nd) with
        | Some _ => nd
        | None =>
            let '(ok, m1) := derive (n_mgr nd) id in
            match ok with
            | Some k => mknode m1 (n_chans nd ++ [(id, mkslot k false)]) (n_store nd ++ [(id, false)])
            | None => mknode m1 (n_chans nd) (n_store nd)
            end
        end
    | Setup id =>
        match lookup id (n_chans nd) with
        | Some sl =>
            (* channel_keys_with_channel_value copies the stub's keys *)
            mknode (n_mgr nd) (replace id (mkslot (s_keys sl) true) (n_chans nd))
                   (replace id true (n_store nd))
        | None => nd
        end
    | Restart =>
        let m0 := mgr_new (m_seed (n_mgr nd)) (m_style (n_mgr nd)) (m_net (n_mgr nd)) in
        let '(m1, chans) := restore_chans m0 (n_store nd) in
        mknode m1 chans (n_store nd)
    | ExtraDerive kid => mknode (snd (derive_with_keys_id (n_mgr nd) kid)) (n_chans nd) (n_store nd)
    | RandomChannelId => mknode (bump_chanid (n_mgr nd)) (n_chans nd) (n_store nd)
    end.

  Definition run (seed : bytes) (st : style) (net : N) (ops : list op) : node :=
    fold_left step ops (node_new seed st net).
End KeysModel.

(** ChannelId::new_from_peer_id_and_oid(peer_id, oid): peer_id (33 bytes) ++ oid.to_le_bytes();
    the whole 64-bit dbid enters the id *)
Fixpoint le_bytes (n : nat) (d : N) : bytes :=
  match n with
  | O => []
  | S m => d mod 256 :: le_bytes m (d / 256)
  end.
Definition chan_id_of (peer : bytes) (dbid : N) : bytes := peer ++ le_bytes 8 dbid.

(** channel ids the public API produces: 32-byte nonces (new_channel_with_random_id,
    ChannelId::new_from_oid) and peer_id(33) ++ dbid.to_le_bytes() with dbid >= 1
    (Node::new_channel refuses dbid <= dbid_high_water_mark, which starts at 0) *)
Definition api_id (id : bytes) : Prop :=
  length id = 32%nat \/ (length id = 41%nat /\ exists b, In b (skipn 33 id) /\ b <> 0).
