(** Model of the cooperative-close path of vls-core:
      policy/simple_validator.rs   decode_and_validate_mutual_close_tx, validate_mutual_close_tx,
                                   validate_fee, outside_epsilon_range
      policy/validator.rs          EnforcementState::minimum_to_holder_value / minimum_to_counterparty_value
      util/transaction_utils.rs    mutual_close_tx_weight, estimate_feerate_per_kw (repaired)
      channel.rs                   sign_mutual_close_tx (phase 1), sign_mutual_close_tx_phase2
      policy/filter.rs, error.rs   PolicyFilter::filter, policy_err! (downgrade to a warning)
    and, as the reference the code recomposes against, LDK's closing-transaction builder
    (chan_utils::build_closing_transaction, transaction_utils::sort_outputs) and rust-bitcoin's
    weight of an unsigned transaction.
    Definitions only.  Amounts are [N]; scripts and paths are byte / index lists; the wallet
    and the allowlist enter as the two oracle functions [can_spend] and [allowlisted]; the
    signature primitives are Section variables. *)
From VLS Require Export Base.U64 Base.Eqb.
From Coq Require Export String.
From Coq Require Export List.   (* [length], [app] mean the list functions again *)

(** * Tags, filter, results *)

Inductive tag :=
| T_other             (* policy-mutual-other *)
| T_destination       (* policy-mutual-destination-allowlisted *)
| T_no_htlcs          (* policy-mutual-no-pending-htlcs *)
| T_fee_range         (* policy-mutual-fee-range *)
| T_value_matches     (* policy-mutual-value-matches-commitment *)
| T_scripts           (* policy-mutual-scripts: wallet error, never filtered *)
| T_format_standard   (* policy-onchain-format-standard: recomposed tx mismatch *)
| T_tx_format.        (* transaction_format_err!: not a policy error, never filtered *)

Definition tag_name (t : tag) : string :=
  match t with
  | T_other => "policy-mutual-other"
  | T_destination => "policy-mutual-destination-allowlisted"
  | T_no_htlcs => "policy-mutual-no-pending-htlcs"
  | T_fee_range => "policy-mutual-fee-range"
  | T_value_matches => "policy-mutual-value-matches-commitment"
  | T_scripts => "policy-mutual-scripts"
  | T_format_standard => "policy-onchain-format-standard"
  | T_tx_format => "transaction-format"
  end%string.

(** PolicyFilter: rules are tried in order, the first match decides, no match = Error *)
Record rule := mkRule { r_tag : string; r_prefix : bool; r_warn : bool }.

Definition rule_matches (r : rule) (t : string) : bool :=
  if r_prefix r then String.prefix (r_tag r) t else String.eqb t (r_tag r).

Fixpoint filter_warn (rules : list rule) (t : string) : bool :=
  match rules with
  | [] => false
  | r :: rs => if rule_matches r t then r_warn r else filter_warn rs t
  end.

Definition warn_of (rules : list rule) (t : tag) : bool := filter_warn rules (tag_name t).

(** the answer of a validation: Ok, a refusal carrying the tag, or a Rust panic *)
Inductive res := Ok | Err (t : tag) | Panic.

Definition andthen (a b : res) : res := match a with Ok => b | _ => a end.

(** [policy_err!]: refuse unless the filter downgrades the tag to a warning, in which case
    execution continues *)
Definition perr (warn : tag -> bool) (t : tag) : res := if warn t then Ok else Err t.
Definition check (warn : tag -> bool) (violated : bool) (t : tag) : res :=
  if violated then perr warn t else Ok.
Definition strict : tag -> bool := fun _ => false.

(** * Data *)

Definition script : Type := list N.   (* script_pubkey bytes *)
Definition path : Type := list N.     (* derivation path: child numbers (u32) *)

Record policy := mkPol {
  min_feerate : N;          (* u32, per kw *)
  max_feerate : N;          (* u32, per kw *)
  epsilon : N               (* epsilon_sat, u64 *)
}.

Record outpoint := mkOP { op_txid : N; op_vout : N }.

Record setup := mkSetup {
  is_outbound : bool;
  channel_value : N;            (* u64, sat *)
  upfront : option script;      (* holder_shutdown_script *)
  funding : outpoint            (* funding_outpoint *)
}.

(** the part of a CommitmentInfo2 the close path reads *)
Record cinfo := mkInfo {
  to_broadcaster : N;
  to_countersigner : N;
  n_offered : N;
  n_received : N
}.

(** the part of EnforcementState the close path reads and writes *)
Record estate := mkEstate {
  holder_info : option cinfo;   (* current_holder_commit_info *)
  cp_info : option cinfo;       (* current_counterparty_commit_info *)
  closed : bool                 (* channel_closed *)
}.
Definition set_closed (e : estate) : estate := mkEstate (holder_info e) (cp_info e) true.

Record txin := mkIn {
  in_prev : outpoint;
  in_script_sig : list N;
  in_sequence : N;              (* u32 *)
  in_witness : list (list N)
}.
Record txout := mkOut { o_value : N; o_script : script }.
Record tx := mkTx {
  tx_version : N;               (* i32, as its u32 bit pattern *)
  tx_locktime : N;              (* consensus u32 *)
  tx_ins : list txin;
  tx_outs : list txout
}.

(** structural equality ([*recomposed_tx != *tx] compares every field) *)
Definition bytes_eqb : list N -> list N -> bool := list_eqb N.eqb.
Definition outpoint_eqb (a b : outpoint) : bool :=
  (op_txid a =? op_txid b) && (op_vout a =? op_vout b).
Definition txin_eqb (a b : txin) : bool :=
  outpoint_eqb (in_prev a) (in_prev b) && bytes_eqb (in_script_sig a) (in_script_sig b) &&
  (in_sequence a =? in_sequence b) && list_eqb bytes_eqb (in_witness a) (in_witness b).
Definition txout_eqb (a b : txout) : bool :=
  (o_value a =? o_value b) && bytes_eqb (o_script a) (o_script b).
Definition tx_eqb (a b : tx) : bool :=
  (tx_version a =? tx_version b) && (tx_locktime a =? tx_locktime b) &&
  list_eqb txin_eqb (tx_ins a) (tx_ins b) && list_eqb txout_eqb (tx_outs a) (tx_outs b).
Definition opt_script_eqb (a b : option script) : bool :=
  match a, b with
  | Some x, Some y => bytes_eqb x y
  | None, None => true
  | _, _ => false
  end.

(** * LDK: the canonical closing transaction *)

(** [[u8]::cmp]: lexicographic, a proper prefix is smaller *)
Fixpoint bytes_cmp (a b : list N) : comparison :=
  match a, b with
  | [], [] => Eq
  | [], _ :: _ => Lt
  | _ :: _, [] => Gt
  | x :: a', y :: b' => match x ?= y with Eq => bytes_cmp a' b' | c => c end
  end.

(** transaction_utils::sort_outputs: by value, then by script bytes (the tie breaker of the
    closing transaction is the constant Equal) *)
Definition out_cmp (a b : txout) : comparison :=
  match o_value a ?= o_value b with
  | Eq => bytes_cmp (o_script a) (o_script b)
  | c => c
  end.

(** at most two outputs are ever sorted; outputs that compare Equal are identical, so the
    instability of [sort_unstable_by] cannot be observed *)
Definition sort_outs (l : list txout) : list txout :=
  match l with
  | [a; b] => match out_cmp a b with Gt => [b; a] | _ => [a; b] end
  | _ => l
  end.

(** build_closing_transaction: the counterparty's output is pushed first, then the holder's,
    each only when its value is positive; then sorted *)
Definition canon_outs (vh vc : N) (sh sc : script) : list txout :=
  sort_outs ((if 0 <? vc then [mkOut vc sc] else []) ++ (if 0 <? vh then [mkOut vh sh] else [])).

Definition SEQUENCE_MAX : N := 4294967295.
Definition canon_close (s : setup) (vh vc : N) (sh sc : script) : tx :=
  mkTx 2 0 [mkIn (funding s) [] SEQUENCE_MAX []] (canon_outs vh vc sh sc).

(** [Option<ScriptBuf>::unwrap_or_else(ScriptBuf::new)] *)
Definition unwrap_script (o : option script) : script := match o with Some x => x | None => [] end.

(** * Weights and fee rate *)

Definition varint_size (n : N) : N :=
  if n <? 253 then 1 else if n <=? 65535 then 3 else if n <=? U32MAX then 5 else 9.
Definition slen (s : script) : N := N.of_nat (length s).
Definition out_size (o : txout) : N := 8 + varint_size (slen (o_script o)) + slen (o_script o).

(** 2+1+4 + 72+72 + 1+1+33+1+33+1+1 *)
Definition CLOSE_WITNESS_WEIGHT : N := 222.

(** mutual_close_tx_weight of a closing transaction as LDK builds it: one input with empty
    script_sig and witness (non-segwit serialisation: 4 * size), plus the expected witness *)
Definition close_weight (outs : list txout) : N :=
  4 * (4 + 1 + 41 + varint_size (N.of_nat (length outs)) + sum_N (map out_size outs) + 4)
  + CLOSE_WITNESS_WEIGHT.

(** estimate_feerate_per_kw as repaired: u128 arithmetic, saturating conversion to u32 *)
Definition estimate_feerate_per_kw (fee w : N) : N := N.min ((fee * 1000 + 999) / w) U32MAX.

(** * EnforcementState helpers *)

Definition min_within (eps hval cval : N) : option N :=
  if cval <? hval then (if hval - cval <=? eps then Some cval else None)
  else (if cval - hval <=? eps then Some hval else None).

Definition minimum_to_holder_value (e : estate) (eps : N) : option N :=
  match holder_info e, cp_info e with
  | Some hi, Some ci => min_within eps (to_broadcaster hi) (to_countersigner ci)
  | _, _ => None
  end.
Definition minimum_to_counterparty_value (e : estate) (eps : N) : option N :=
  match holder_info e, cp_info e with
  | Some hi, Some ci => min_within eps (to_countersigner hi) (to_broadcaster ci)
  | _, _ => None
  end.

(** [Option<u64> > Option<u64>]: None is below every Some *)
Definition opt_gt (a b : option N) : bool :=
  match a, b with
  | Some x, Some y => y <? x
  | Some _, None => true
  | None, _ => false
  end.

Definition htlcs_empty (i : cinfo) : bool := (n_offered i =? 0) && (n_received i =? 0).
Definition is_none {A} (o : option A) : bool := match o with None => true | Some _ => false end.

(** * simple_validator.rs *)

(** the arguments one validation attempt is made with ([ValidateArgs]) *)
Record close_args := mkArgs {
  a_vh : N;                     (* to_holder_value_sat *)
  a_vc : N;                     (* to_counterparty_value_sat *)
  a_sh : option script;         (* holder_script *)
  a_sc : option script;         (* counterparty_script *)
  a_path : path                 (* wallet_path (of the holder's output) *)
}.

(** the closing transaction rebuilt from a set of arguments *)
Definition close_of (s : setup) (a : close_args) : tx :=
  canon_close s (a_vh a) (a_vc a) (unwrap_script (a_sh a)) (unwrap_script (a_sc a)).

Inductive decoded := DOk (a : close_args) | DErr (t : tag) | DPanic.

Section Validator.
  Variable warn : tag -> bool.
  (** Wallet::can_spend: [None] is its error, [Some b] its answer *)
  Variable can_spend : path -> script -> option bool.
  (** Wallet::allowlist_contains *)
  Variable allowlisted : script -> path -> bool.
  Variable pol : policy.

  Definition outside_epsilon (v0 v1 : N) : bool :=
    if v1 <? v0 then epsilon pol <? v0 - v1 else epsilon pol <? v1 - v0.

  Definition validate_fee (sum_inputs sum_outputs w : N) : res :=
    match sub_checked sum_inputs sum_outputs with
    | None => Err T_fee_range                       (* fee underflow: never filtered *)
    | Some fee =>
        if w =? 0 then Panic else
        let r := estimate_feerate_per_kw fee w in
        andthen (check warn (r <? min_feerate pol) T_fee_range)
                (check warn (max_feerate pol <? r) T_fee_range)
    end.

  (** the epsilon comparison of the side that does not pay the fee, against both commitments *)
  Definition value_checks (s : setup) (hi ci : cinfo) (vh vc : N) : res :=
    if is_outbound s then
      andthen (check warn (outside_epsilon vc (to_broadcaster ci)) T_value_matches)
              (check warn (outside_epsilon vc (to_countersigner hi)) T_value_matches)
    else
      andthen (check warn (outside_epsilon vh (to_broadcaster hi)) T_value_matches)
              (check warn (outside_epsilon vh (to_countersigner ci)) T_value_matches).

  Definition script_check (sh : option script) (p : path) : res :=
    match sh with
    | None => Ok
    | Some scr =>
        match can_spend p scr with
        | None => Err T_scripts                    (* wallet can_spend error: never filtered *)
        | Some true => Ok
        | Some false => check warn (negb (allowlisted scr p)) T_destination
        end
    end.

  Definition validate_mutual_close (s : setup) (e : estate) (a : close_args) : res :=
    match holder_info e with
    | None => Err T_value_matches                   (* never filtered *)
    | Some hi =>
        match cp_info e with
        | None => Err T_value_matches               (* never filtered *)
        | Some ci =>
            andthen (check warn ((0 <? a_vh a) && is_none (a_sh a)) T_destination)
           (andthen (check warn ((0 <? a_vc a) && is_none (a_sc a)) T_destination)
           (andthen (check warn (negb (is_none (upfront s)) && (0 <? a_vh a) &&
                                 negb (opt_script_eqb (a_sh a) (upfront s))) T_destination)
           (andthen (check warn (negb (htlcs_empty hi) || negb (htlcs_empty ci)) T_no_htlcs)
              match add_checked (a_vh a) (a_vc a) with
              | None => Err T_value_matches         (* consumed overflow: never filtered *)
              | Some sum_outputs =>
                  andthen (validate_fee (channel_value s) sum_outputs
                             (close_weight (tx_outs (close_of s a))))
                 (andthen (value_checks s hi ci (a_vh a) (a_vc a))
                          (script_check (a_sh a) (a_path a)))
              end)))
        end
    end.

  (** the two candidate assignments, (likely, unlikely) *)
  Definition candidates (e : estate) (outs : list txout) (paths : list path)
    : option (close_args * close_args) :=
    let larger := opt_gt (minimum_to_holder_value e (epsilon pol))
                         (minimum_to_counterparty_value e (epsilon pol)) in
    match outs with
    | [o] =>
        let holders := mkArgs (o_value o) 0 (Some (o_script o)) None (nth 0 paths []) in
        let cpartys := mkArgs 0 (o_value o) None (Some (o_script o)) [] in
        Some (if larger then (holders, cpartys) else (cpartys, holders))
    | [o0; o1] =>
        let holder_first :=
          mkArgs (o_value o0) (o_value o1) (Some (o_script o0)) (Some (o_script o1)) (nth 0 paths []) in
        let cparty_first :=
          mkArgs (o_value o1) (o_value o0) (Some (o_script o1)) (Some (o_script o0)) (nth 1 paths []) in
        Some (if larger then (cparty_first, holder_first) else (holder_first, cparty_first))
    | _ => None       (* no output: [tx.output[0]] is out of bounds *)
    end.

  Definition decode_and_validate (s : setup) (e : estate) (t : tx) (paths : list path) : decoded :=
    if (2 <? length (tx_outs t))%nat then DErr T_tx_format
    else if negb (length paths =? length (tx_outs t))%nat then DPanic   (* assert_eq! *)
    else
      match check warn (is_none (holder_info e)) T_other with
      | Err t1 => DErr t1
      | Panic => DPanic
      | Ok =>
          match check warn (is_none (cp_info e)) T_other with
          | Err t2 => DErr t2
          | Panic => DPanic
          | Ok =>
              match candidates e (tx_outs t) paths with
              | None => DPanic
              | Some (likely, unlikely) =>
                  let finish (good : close_args) :=
                    if tx_eqb (close_of s good) t then DOk good
                    else match perr warn T_format_standard with
                         | Ok => DOk good
                         | Err t3 => DErr t3
                         | Panic => DPanic
                         end in
                  match validate_mutual_close s e likely with
                  | Ok => finish likely
                  | Panic => DPanic
                  | Err tl =>
                      match validate_mutual_close s e unlikely with
                      | Ok => finish unlikely
                      | Panic => DPanic
                      | Err _ => DErr tl         (* the error of the likely attempt *)
                      end
                  end
              end
          end
      end.
End Validator.

(** * channel.rs *)

(** why a request was refused, as far as [Status] keeps it *)
Inductive refusal := R_policy (t : tag) | R_invalid_argument | R_internal.

Inductive outcome (sigT : Type) :=
| Signed (sg : sigT)
| Refused (r : refusal)
| Aborted.
Arguments Signed {sigT} sg.
Arguments Refused {sigT} r.
Arguments Aborted {sigT}.

(** the channel: the enforcement state in memory and the one last written to the store *)
Record chan := mkChan { c_mem : estate; c_disk : estate }.

Section Channel.
  Variables (keyT msgT sigT : Type).
  (** the BIP-143 digest of input 0 of a transaction for the channel's funding script and the
      given amount, and ECDSA signing *)
  Variable sighash : tx -> N -> msgT.
  Variable sign : keyT -> msgT -> sigT.
  Variable fk : keyT.                                (* the holder's funding key *)

  Variable warn : tag -> bool.
  Variable can_spend : path -> script -> option bool.
  Variable allowlisted : script -> path -> bool.
  Variable pol : policy.

  (** sign, set channel_closed, persist; [persist_ok] is the answer of the store *)
  Definition sign_and_close (persist_ok : bool) (s : setup) (c : chan) (t : tx)
    : chan * outcome sigT :=
    let m := set_closed (c_mem c) in
    if persist_ok then (mkChan m m, Signed (sign fk (sighash t (channel_value s))))
    else (mkChan m (c_disk c), Refused R_internal).

  (** sign_mutual_close_tx_phase2 *)
  Definition sign_close_phase2 (persist_ok : bool) (s : setup) (c : chan) (a : close_args)
    : chan * outcome sigT :=
    match validate_mutual_close warn can_spend allowlisted pol s (c_mem c) a with
    | Ok => sign_and_close persist_ok s c (close_of s a)
    | Err t => (c, Refused (R_policy t))
    | Panic => (c, Aborted)
    end.

  (** sign_mutual_close_tx (phase 1) *)
  Definition sign_close_phase1 (persist_ok : bool) (s : setup) (c : chan) (t : tx)
      (paths : list path) : chan * outcome sigT :=
    if negb (length paths =? length (tx_outs t))%nat then (c, Refused R_invalid_argument)
    else
      match decode_and_validate warn can_spend allowlisted pol s (c_mem c) t paths with
      | DOk good => sign_and_close persist_ok s c (close_of s good)
      | DErr tg => (c, Refused (R_policy tg))
      | DPanic => (c, Aborted)
      end.
End Channel.

(** * The property, stated mathematically (no machine arithmetic) *)

Definition bolt3_fee (rate w : N) : N := rate * w / 1000.

Definition NoHtlcs (hi ci : cinfo) : Prop :=
  n_offered hi = 0 /\ n_received hi = 0 /\ n_offered ci = 0 /\ n_received ci = 0.

(** the outputs do not exceed the funding and the fee left over lies between the BOLT-3 fee of
    the closing transaction at the minimum rate and (strictly) the one at maximum + 1;
    equivalently [min * w <= 1000 * fee + 999 < (max + 1) * w] *)
Definition FeeInRange (p : policy) (s : setup) (a : close_args) : Prop :=
  let w := close_weight (tx_outs (close_of s a)) in
  a_vh a + a_vc a <= channel_value s /\
  bolt3_fee (min_feerate p) w <= channel_value s - (a_vh a + a_vc a) /\
  channel_value s - (a_vh a + a_vc a) < bolt3_fee (max_feerate p + 1) w.

Definition within (eps a b : N) : Prop := a <= b + eps /\ b <= a + eps.

(** the side that does not pay the fee gets its balance of BOTH latest commitments, up to
    epsilon: the counterparty when the holder funded the channel, the holder otherwise *)
Definition NonFeePayerWithinEps (p : policy) (s : setup) (hi ci : cinfo) (a : close_args) : Prop :=
  if is_outbound s
  then within (epsilon p) (a_vc a) (to_broadcaster ci) /\ within (epsilon p) (a_vc a) (to_countersigner hi)
  else within (epsilon p) (a_vh a) (to_broadcaster hi) /\ within (epsilon p) (a_vh a) (to_countersigner ci).

Definition Owned (can_spend : path -> script -> option bool) (allowlisted : script -> path -> bool)
    (p : path) (scr : script) : Prop :=
  can_spend p scr = Some true \/ allowlisted scr p = true.

Definition UpfrontRespected (s : setup) (scr : script) : Prop :=
  forall u, upfront s = Some u -> scr = u.

(** a positive holder value goes to a script that is present, owned (wallet-derivable under
    the path given for it, or allowlisted) and equal to the upfront shutdown script if the
    channel fixed one; a positive counterparty value has a script *)
Definition HolderDestinationOk can_spend allowlisted (s : setup) (a : close_args) : Prop :=
  (0 < a_vh a -> exists scr, a_sh a = Some scr /\ Owned can_spend allowlisted (a_path a) scr /\
                             UpfrontRespected s scr) /\
  (0 < a_vc a -> a_sc a <> None).

Definition CloseOk can_spend allowlisted (p : policy) (s : setup) (e : estate) (a : close_args) : Prop :=
  exists hi ci,
    holder_info e = Some hi /\ cp_info e = Some ci /\
    NoHtlcs hi ci /\ FeeInRange p s a /\ NonFeePayerWithinEps p s hi ci a /\
    HolderDestinationOk can_spend allowlisted s a.

(** how the arguments of a phase-1 decision relate to the request: the holder's output is one
    of the transaction's outputs together with the path supplied for THAT output, and the
    counterparty's is the other one (or absent) *)
Definition Assignment (t : tx) (paths : list path) (a : close_args) : Prop :=
  match tx_outs t with
  | [o] =>
      a = mkArgs (o_value o) 0 (Some (o_script o)) None (nth 0 paths []) \/
      a = mkArgs 0 (o_value o) None (Some (o_script o)) []
  | [o0; o1] =>
      a = mkArgs (o_value o0) (o_value o1) (Some (o_script o0)) (Some (o_script o1)) (nth 0 paths []) \/
      a = mkArgs (o_value o1) (o_value o0) (Some (o_script o1)) (Some (o_script o0)) (nth 1 paths [])
  | _ => False
  end.
