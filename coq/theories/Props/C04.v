(** C04 — commitment signatures bind to the BOLT-3 transaction of the validated content.
    Statements only; proofs are in Proofs/Commitment{Script,Sort,Proofs,Hash}.v.

    Everything is quantified over ALL channel setups, per-commitment keys and commitment
    contents of Model/Commitment.v (HTLC lists of any length, with duplicates), over every
    transaction and witness-script list a caller can supply, and over every instance of the
    external primitives: the two hash functions [sha], [rip], public-key parsing [pk_parse],
    the signer [sign] and the verdict [accept] of everything the validator and the node state
    check about a semantic content (both entry points ask it about the same normalised content).

    Premises that are not definitional are named where they occur:
    - [sha_len], [rip_len]: output lengths (proved for the executable [Sha256.sha256] and
      [ripemd160] in [C04_hash_lengths], so that [C04_entry_points_agree_sha256] has none);
    - [wf pk_parse s k]: the commitment type is not the deprecated non-zero-fee [Anchors]
      (LDK 0.1 builds a non-anchor transaction for it: [C04_anchors_type_refuted]); to_self_delay
      is at most 2016 (the decoder's MAX_DELAY; the default policy's max_delay); the seven keys
      are 33-byte strings that [PublicKey::from_slice] accepts, the funding keys in canonical form;
    - [accept_bounded]: a content the validator accepts has received-HTLC expiries below 2^31
      ([validate_expiry] refuses 500 000 000 and above);
    - for [C04_no_foreign_tx] only: signatures verify for exactly the digest they were made for,
      and the BIP143 digest is injective on transactions. *)
From Coq Require Import String List NArith ZArith Bool.
From VLS Require Import Base.Codec Base.Ripemd160 Model.Commitment
  Proofs.CommitmentScript Proofs.CommitmentSort Proofs.CommitmentProofs Proofs.CommitmentHash.
From VLS Require Base.Sha256.
Import ListNotations.
Open Scope N_scope.

(** The raw-transaction entry point signs a transaction only if it is — structurally, hence
    byte for byte — the canonical BOLT-3 transaction of a content that passed validation (the
    caller's commitment number, fee rate and HTLCs, and the two balances the decoder read from
    the transaction itself), and the signature it returns is the funding-key signature of the
    BIP143 digest of that canonical transaction. *)
Theorem C04_phase1_canonical :
  forall (sha rip : bytes -> bytes) (pk_parse : bytes -> option bytes) (s : setup) (k : ckeys)
         (SK SIG : Type) (sign : SK -> bytes -> SIG) (funding_key : SK) (value_ok : bool)
         (accept : content -> bool)
         (t : tx) (ws : list bytes) (num feerate : N) (offered received : list htlc) (sig : SIG),
    sign_phase1 sha rip pk_parse s k SK SIG sign funding_key value_ok accept
                t ws num feerate offered received = Ok sig ->
    exists (i : info) (c : content),
      decode sha pk_parse s t ws = Some i
      /\ c = normalize (mkContent num feerate (cs_value i) (b_value i) offered received)
      /\ value_ok = true /\ accept c = true
      /\ t = canon_tx sha rip s k c
      /\ ser_tx t = ser_tx (canon_tx sha rip s k c)
      /\ sig = sign funding_key (commit_sighash sha s (canon_tx sha rip s k c)).
Proof. exact phase1_canonical. Qed.
Print Assumptions C04_phase1_canonical.

(** The semantic entry point signs the canonical transaction of the content it validated, and
    the HTLC transactions of that commitment — one per HTLC of the content, in output order, each
    spending the canonical commitment transaction — with the tweaked HTLC key. *)
Theorem C04_phase2_sig :
  forall (sha rip : bytes -> bytes) (s : setup) (k : ckeys)
         (SK SIG : Type) (sign : SK -> bytes -> SIG) (funding_key htlc_key : SK) (value_ok : bool)
         (accept : content -> bool) (c : content) (sig : SIG) (hs : list SIG),
    sign_phase2 sha rip s k SK SIG sign funding_key htlc_key value_ok accept c = Ok (sig, hs) ->
    value_ok = true /\ accept (normalize c) = true
    /\ sig = sign funding_key (commit_sighash sha s (canon_tx sha rip s k c))
    /\ (exists hts, htlc_txs sha rip s k c = Some hts
                    /\ hs = map (fun x => sign htlc_key (htlc_sighash sha s x)) hts)
    /\ length hs = (length (c_offered c) + length (c_received c))%nat.
Proof.
  intros. pose proof (phase2_sig _ _ _ _ _ _ _ _ _ _ _ _ _ _ H) as [A [B [C D]]].
  repeat split; try assumption. eapply phase2_htlc_count. exact H.
Qed.
Print Assumptions C04_phase2_sig.

(** The decoder inverts the builder: for every content with script-readable expiries, decoding
    the canonical transaction with the canonical witness scripts succeeds and reads back the two
    balances (parse-after-build of each of the five script templates, first-match order of the
    template cascade, one to_local / to_remote at most, any output order). *)
Theorem C04_decode_roundtrip :
  forall (sha rip : bytes -> bytes) (pk_parse : bytes -> option bytes),
    (forall x, length (sha x) = 32%nat) -> (forall x, length (rip x) = 20%nat) ->
    forall (s : setup) (k : ckeys), wf pk_parse s k ->
    forall c : content, bounded c ->
    exists i, decode sha pk_parse s (canon_tx sha rip s k c) (canon_ws sha rip s k c) = Some i
              /\ cs_value i = c_to_holder c /\ b_value i = c_to_cp c.
Proof. exact decode_canon. Qed.
Print Assumptions C04_decode_roundtrip.

(** The canonical transaction does not depend on the order in which the HTLCs are supplied
    (phase 1 rebuilds from the lists sorted by [CommitmentInfo2::new], phase 2 from the caller's). *)
Theorem C04_canon_order_independent :
  forall (sha rip : bytes -> bytes) (s : setup) (k : ckeys) (c : content),
    canon_tx sha rip s k (normalize c) = canon_tx sha rip s k c.
Proof. exact canon_tx_normalize. Qed.
Print Assumptions C04_canon_order_independent.

(** On every content the semantic entry point signs, the raw entry point accepts the canonical
    transaction with the canonical witness scripts and returns the same signature. *)
Theorem C04_entry_points_agree :
  forall (sha rip : bytes -> bytes) (pk_parse : bytes -> option bytes) (s : setup) (k : ckeys)
         (SK SIG : Type) (sign : SK -> bytes -> SIG) (funding_key htlc_key : SK) (value_ok : bool)
         (accept : content -> bool),
    (forall x, length (sha x) = 32%nat) -> (forall x, length (rip x) = 20%nat) ->
    wf pk_parse s k ->
    (forall c, accept c = true -> bounded c) ->
    forall (c : content) (sig : SIG) (hs : list SIG),
      sign_phase2 sha rip s k SK SIG sign funding_key htlc_key value_ok accept c = Ok (sig, hs) ->
      sign_phase1 sha rip pk_parse s k SK SIG sign funding_key value_ok accept
                  (canon_tx sha rip s k c) (canon_ws sha rip s k c)
                  (c_num c) (c_feerate c) (c_offered c) (c_received c) = Ok sig.
Proof. exact entry_points_agree. Qed.
Print Assumptions C04_entry_points_agree.

(** the executable hash functions meet the length premises *)
Theorem C04_hash_lengths :
  (forall x, length (Sha256.sha256 x) = 32%nat) /\ (forall x, length (ripemd160 x) = 20%nat).
Proof. split; [exact sha256_length|exact ripemd160_length]. Qed.
Print Assumptions C04_hash_lengths.

Corollary C04_entry_points_agree_sha256 :
  forall (pk_parse : bytes -> option bytes) (s : setup) (k : ckeys)
         (SK SIG : Type) (sign : SK -> bytes -> SIG) (funding_key htlc_key : SK) (value_ok : bool)
         (accept : content -> bool),
    wf pk_parse s k ->
    (forall c, accept c = true -> bounded c) ->
    forall (c : content) (sig : SIG) (hs : list SIG),
      sign_phase2 Sha256.sha256 ripemd160 s k SK SIG sign funding_key htlc_key value_ok accept c
      = Ok (sig, hs) ->
      sign_phase1 Sha256.sha256 ripemd160 pk_parse s k SK SIG sign funding_key value_ok accept
                  (canon_tx Sha256.sha256 ripemd160 s k c) (canon_ws Sha256.sha256 ripemd160 s k c)
                  (c_num c) (c_feerate c) (c_offered c) (c_received c) = Ok sig.
Proof.
  intros pk s k SK SIG sign fk hk vo acc. apply entry_points_agree; [exact sha256_length|exact ripemd160_length].
Qed.
Print Assumptions C04_entry_points_agree_sha256.

(** Under an idealised signature scheme and an injective digest, a signature returned by either
    entry point verifies under the funding key against the canonical transaction and against no
    other transaction — in particular not against a transaction the caller merely supplied. *)
Theorem C04_no_foreign_tx :
  forall (sha rip : bytes -> bytes) (pk_parse : bytes -> option bytes) (s : setup) (k : ckeys)
         (SK SIG : Type) (sign : SK -> bytes -> SIG) (funding_key htlc_key : SK) (value_ok : bool)
         (accept : content -> bool)
         (PK : Type) (verify : PK -> bytes -> SIG -> bool) (funding_pub : PK),
    (forall m, verify funding_pub m (sign funding_key m) = true) ->
    (forall m m', verify funding_pub m' (sign funding_key m) = true -> m' = m) ->
    (forall t t', commit_sighash sha s t = commit_sighash sha s t' -> t = t') ->
    (forall t ws num feerate offered received sig,
       sign_phase1 sha rip pk_parse s k SK SIG sign funding_key value_ok accept
                   t ws num feerate offered received = Ok sig ->
       verify funding_pub (commit_sighash sha s t) sig = true
       /\ forall t', verify funding_pub (commit_sighash sha s t') sig = true -> t' = t)
    /\ (forall c sig hs,
       sign_phase2 sha rip s k SK SIG sign funding_key htlc_key value_ok accept c = Ok (sig, hs) ->
       verify funding_pub (commit_sighash sha s (canon_tx sha rip s k c)) sig = true
       /\ forall t', verify funding_pub (commit_sighash sha s t') sig = true -> t' = canon_tx sha rip s k c).
Proof.
  intros. split.
  - intros. eapply no_foreign_tx_phase1; eassumption.
  - intros. eapply no_foreign_tx_phase2; eassumption.
Qed.
Print Assumptions C04_no_foreign_tx.

(** The HTLC signatures of phase 2 bind in the same way, under the tweaked HTLC key: the j-th
    signature verifies against the BIP143 digest of the j-th HTLC transaction of the canonical
    commitment (witness script and amount of the output it spends) and against no other digest. *)
Theorem C04_htlc_sigs_bind :
  forall (sha rip : bytes -> bytes) (s : setup) (k : ckeys)
         (SK SIG : Type) (sign : SK -> bytes -> SIG) (funding_key htlc_key : SK) (value_ok : bool)
         (accept : content -> bool)
         (PK : Type) (verify : PK -> bytes -> SIG -> bool) (htlc_pub : PK),
    (forall m, verify htlc_pub m (sign htlc_key m) = true) ->
    (forall m m', verify htlc_pub m' (sign htlc_key m) = true -> m' = m) ->
    forall c sig hs,
      sign_phase2 sha rip s k SK SIG sign funding_key htlc_key value_ok accept c = Ok (sig, hs) ->
      exists hts, htlc_txs sha rip s k c = Some hts
        /\ Forall2 (fun sg x => verify htlc_pub (htlc_sighash sha s x) sg = true
                                /\ forall m, verify htlc_pub m sg = true -> m = htlc_sighash sha s x) hs hts.
Proof. intros. eapply htlc_sigs_bind; eassumption. Qed.
Print Assumptions C04_htlc_sigs_bind.

(** * Handler level: the requests [SignRemoteCommitmentTx2] / [SignRemoteCommitmentTx] as the
      protocol handler hands them to the core ([wire_content]: msat amounts truncated to whole
      satoshis, side 1 = offered by the counterparty, side 0 = received, other sides dropped).
      The semantic request is answered with the signature of the canonical transaction of exactly
      that content — every HTLC output is worth floor(amount_msat / 1000) — and the raw request
      accepts that canonical transaction and returns the same signature. *)
Theorem C04_wire_binding :
  forall (sha rip : bytes -> bytes) (pk_parse : bytes -> option bytes) (s : setup) (k : ckeys)
         (SK SIG : Type) (sign : SK -> bytes -> SIG) (funding_key htlc_key : SK) (value_ok : bool)
         (accept : content -> bool),
    (forall x, length (sha x) = 32%nat) -> (forall x, length (rip x) = 20%nat) ->
    wf pk_parse s k ->
    (forall c, accept c = true -> bounded c) ->
    forall (num feerate to_local to_remote : N) (l : list whtlc) (sig : SIG) (hs : list SIG),
      handle_sign_remote_commitment_tx2 sha rip s k SK SIG sign funding_key htlc_key value_ok accept
                                        num feerate to_local to_remote l = Ok (sig, hs) ->
      let c := wire_content num feerate to_local to_remote l in
      sig = sign funding_key (commit_sighash sha s (canon_tx sha rip s k c))
      /\ c_offered c = map wire_htlc (filter (fun w => w_side w =? 1) l)
      /\ c_received c = map wire_htlc (filter (fun w => w_side w =? 0) l)
      /\ (forall w, h_value (wire_htlc w) = w_msat w / 1000)
      /\ length hs = (length (c_offered c) + length (c_received c))%nat
      /\ handle_sign_remote_commitment_tx sha rip pk_parse s k SK SIG sign funding_key value_ok accept
           (canon_tx sha rip s k c) (canon_ws sha rip s k c) num feerate l = Ok sig.
Proof.
  intros sha rip pk s k SK SIG sign fk hk vo acc Hs Hr W Hb num fr tl tr l sig hs H c.
  unfold handle_sign_remote_commitment_tx2 in H. fold c in H.
  pose proof (phase2_sig _ _ _ _ _ _ _ _ _ _ _ _ _ _ H) as [_ [_ [E _]]].
  repeat split; try reflexivity; try exact E.
  - eapply phase2_htlc_count. exact H.
  - unfold handle_sign_remote_commitment_tx.
    exact (entry_points_agree sha rip pk s k SK SIG sign fk hk vo acc Hs Hr W Hb c sig hs H).
Qed.
Print Assumptions C04_wire_binding.

(** * BOLT-3 trimming.  [bolt3_tx] is the commitment transaction of a content per BOLT-3: HTLCs
      below the dust limit plus the fee of their second-stage transaction (663 / 703 weight units
      at the commitment's fee rate; none on zero-fee-anchor channels) have no output.  LDK's
      builder, as the signer drives it, emits every HTLC it is given; so the signed transaction is
      the BOLT-3 one because - and only because - validation refuses a content with a trimmed
      HTLC.  Stated with that as the premise on [accept], and discharged for the validator model
      of C05 in [C04_validated_contents_untrimmed]. *)
Theorem C04_bolt3_trimming :
  forall (sha rip : bytes -> bytes) (s : setup) (k : ckeys)
         (SK SIG : Type) (sign : SK -> bytes -> SIG) (funding_key htlc_key : SK) (value_ok : bool)
         (accept : content -> bool),
    (forall c, accept c = true -> no_trimmed s c) ->
    forall (c : content) (sig : SIG) (hs : list SIG),
      sign_phase2 sha rip s k SK SIG sign funding_key htlc_key value_ok accept c = Ok (sig, hs) ->
      no_trimmed s c
      /\ bolt3_tx sha rip s k c = canon_tx sha rip s k c
      /\ sig = sign funding_key (commit_sighash sha s (bolt3_tx sha rip s k c))
      /\ exists hts, bolt3_htlc_txs sha rip s k c = Some hts
                     /\ hs = map (fun x => sign htlc_key (htlc_sighash sha s x)) hts.
Proof.
  intros sha rip s k SK SIG sign fk hk vo acc Hacc c sig hs H.
  pose proof (phase2_sig _ _ _ _ _ _ _ _ _ _ _ _ _ _ H) as [_ [Ha [E [hts [Eh Ehs]]]]].
  assert (Hn : no_trimmed s c) by (apply no_trimmed_normalize; apply Hacc; exact Ha).
  destruct (bolt3_untrimmed sha rip s k c Hn) as [B1 [_ B3]].
  split; [exact Hn|]. split; [exact B1|]. rewrite B1. split; [exact E|].
  exists hts. rewrite B3. split; assumption.
Qed.
Print Assumptions C04_bolt3_trimming.

(** * The raw HTLC-transaction entry point ([sign_counterparty_htlc_tx] / [SignRemoteHtlcTx];
      with the holder's keys and the other delay in [s], [k] also [sign_holder_htlc_tx]).  A
      signature is returned only when the BIP143 digest of the supplied transaction equals the
      digest of the second-stage transaction REBUILT from the channel's parameters (delay,
      revocation and delayed keys), the direction read from the redeemscript and the commitment
      txid / output index / expiry / fee read from the request; and the signature is over the
      digest of that rebuilt transaction.  [accept_htlc] (the filterable [validate_htlc_tx]) is
      universally quantified: no policy filter can make the signer sign another digest. *)
Theorem C04_htlc_phase1_recomposed :
  forall (sha : bytes -> bytes) (s : setup) (k : ckeys)
         (SK SIG : Type) (sign : SK -> bytes -> SIG) (htlc_key : SK)
         (accept_htlc : N -> bool -> N -> bool)
         (t : tx) (redeem : bytes) (amount : N) (sig : SIG),
    sign_htlc_phase1 sha s k SK SIG sign htlc_key accept_htlc t redeem amount = Ok sig ->
    exists i0 ins o0 outs feerate offered re,
      t_ins t = i0 :: ins /\ t_outs t = o0 :: outs
      /\ htlc_side s redeem = Some offered
      /\ htlc_tx sha s k (i_txid i0) feerate (i_vout i0) offered
                 (mkHtlc amount [] (if offered then t_lock t else 0)) = Some re
      /\ sighash sha t 0 redeem amount (htlc_sighash_type_p1 s)
         = sighash sha re 0 redeem amount (htlc_sighash_type_p1 s)
      /\ sig = sign htlc_key (sighash sha re 0 redeem amount (htlc_sighash_type_p1 s)).
Proof. intros. eapply htlc_phase1_recomposed. eassumption. Qed.
Print Assumptions C04_htlc_phase1_recomposed.

(** * Non-vacuity: a zero-fee-anchors commitment with three offered HTLCs (two of them identical)
      and no to_remote output, taken from a run of the harness (keys derived there with
      libsecp256k1).  Every premise of [C04_entry_points_agree_sha256] holds, phase 2 signs the
      commitment and three HTLC transactions, and phase 1 returns the same signature on the
      canonical transaction. *)
Definition ex_setup : setup :=
  mkSetup AnchorsZeroFeeHtlc true 16777215
    (hx "999214445141642fafa576ed80e98939ad8cb32c575f0922511c2e063a736405") 0 129
    (hx "02a7ff2bc0b94d471ac2ae608fd135478e13cd0eddaf2bd923efa61c72f2aa533f")
    (hx "03d290d69571ae0cc6d8da808e78e370784668064092ea51c0080bd2b46f2c289c")
    (hx "0357a17645d198f6a029c44030e7e8595581b0467744b6b76a6088cf51d846cb6d").
Definition ex_keys : ckeys :=
  mkKeys (hx "03e42df12a2836a2278d06f60f8f255ecebd472900d5e44d1b28f38af991951919")
         (hx "028229ed25f713d100dc3d16679e2604f8855352126b13789f9fe965b8f6db4542")
         (hx "03a9953d11da9a001be17506294e70a222b74ea99648bb42a4e09573486a88f807")
         (hx "02657bb777b6b494817541fa60474ae3aa26bb521b640ef6f99970d25daf608e9d")
         118792877075733.
Definition ex_content : content :=
  mkContent 1 2500 0 16622189
    [mkHtlc 42163 (hx "6ec9209483deba9c242c3b88089fa638182344a84a97e9afec5ace9c219372fa") 17;
     mkHtlc 65890 (hx "5157fd48c2f4743bdaebe7d90a4e99a104e81ba812afb2c826576e4b241b5c6c") 127;
     mkHtlc 42163 (hx "6ec9209483deba9c242c3b88089fa638182344a84a97e9afec5ace9c219372fa") 17]
    [].
(** stand-ins for the parameters: a parser that accepts 33-byte strings, a "signature" that
    records key and digest, a validator that accepts contents with readable expiries *)
Definition ex_pk (d : bytes) : option bytes := if Nat.eqb (length d) 33 then Some d else None.
Definition ex_sign (sk : N) (d : bytes) : N * bytes := (sk, d).
Definition ex_accept (c : content) : bool := forallb (fun h => h_cltv h <? 2 ^ 31) (c_received c).

Example C04_nonvacuous :
  wf ex_pk ex_setup ex_keys
  /\ (forall c, ex_accept c = true -> bounded c)
  /\ exists sig hs,
       sign_phase2 Sha256.sha256 ripemd160 ex_setup ex_keys N (N * bytes) ex_sign 7 8 true ex_accept
                   ex_content = Ok (sig, hs)
       /\ length hs = 3%nat
       /\ length (t_outs (canon_tx Sha256.sha256 ripemd160 ex_setup ex_keys ex_content)) = 6%nat
       /\ sign_phase1 Sha256.sha256 ripemd160 ex_pk ex_setup ex_keys N (N * bytes) ex_sign 7 true ex_accept
                      (canon_tx Sha256.sha256 ripemd160 ex_setup ex_keys ex_content)
                      (canon_ws Sha256.sha256 ripemd160 ex_setup ex_keys ex_content)
                      1 2500 (c_offered ex_content) (c_received ex_content) = Ok sig.
Proof.
  split; [|split].
  - constructor; try (vm_compute; reflexivity); try (vm_compute; discriminate).
  - intros c H. unfold bounded, ex_accept in *. rewrite forallb_forall in H. apply Forall_forall.
    intros h Hh. apply N.ltb_lt. apply H. exact Hh.
  - eexists. eexists. split; [vm_compute; reflexivity|]. vm_compute. repeat split; reflexivity.
Qed.

(** * The deprecated non-zero-fee [Anchors] type (admitted by [setup_channel] only when
      [policy-channel-safe-type] is downgraded to a warning) is outside [wf], and must be: LDK's
      builder emits a p2wpkh to_remote and no anchors for it, which phase 2 signs, while phase 1's
      decoder refuses a p2wpkh output on a channel whose type says anchors.  Witness from a run of
      the harness (same answers from the implementation). *)
Definition ax_setup : setup :=
  mkSetup Anchors false 16777215
    (hx "aa834738b5c01096f16f5fd6c6365b7a0195588df16e058586ce9180a9e60674") 0 255
    (hx "031bf21c72a93fc1bf455c7f9a20fb1faad40260de4b688952e90af10198bcdb57")
    (hx "0303c04693a2b0c88cc90dffbfb33f224f0994d81749cb3f6da132991cec2442c6")
    (hx "034ba82537948e7e9f09996be305e1708e6cd4ea136336e7640df55405a1370b5f").
Definition ax_keys : ckeys :=
  mkKeys (hx "03b6fe7de7285541397b773abd33bc121acb6123650782797e9036aee4f2427a90")
         (hx "02b4721bccfa78c372af2ac1117b4543f6a3e570adf00985f2adace9dee254067b")
         (hx "029d7175d1d5dd947d4ffaa8cd373db51cfee8ae432bf1016e5b4f7730e2687a81")
         (hx "03e5e3771ad3e86c2903043ba6382e232a1dff6df690542e2f2a998c5b02bfc5e7")
         216526412697717.
Definition ax_content : content :=
  mkContent 1 15000 16603485 354 []
    [mkHtlc 32473 (hx "c07c258b25ef8463ba0f515f928304fda34c5a9e72605892753936cbade4b97a") 256;
     mkHtlc 76411 (hx "69c85a33b25f3bb43671825c38bbfc45837565f4baa03176caa1243dcac1e699") 65536;
     mkHtlc 39842 (hx "6674cb7038f9cddc1c01e1b74c1b265e8677c82b5c65240d3d500a42d7da338e") 499999999].

Example C04_anchors_type_refuted :
  exists s k c sig hs,
    s_ctype s = Anchors
    /\ sign_phase2 Sha256.sha256 ripemd160 s k N (N * bytes) ex_sign 7 8 true ex_accept c = Ok (sig, hs)
    /\ sign_phase1 Sha256.sha256 ripemd160 ex_pk s k N (N * bytes) ex_sign 7 true ex_accept
                   (canon_tx Sha256.sha256 ripemd160 s k c) (canon_ws Sha256.sha256 ripemd160 s k c)
                   (c_num c) (c_feerate c) (c_offered c) (c_received c) = Refused.
Proof.
  exists ax_setup, ax_keys, ax_content. eexists. eexists.
  split; [reflexivity|]. split; vm_compute; reflexivity.
Qed.

(** * Before the repair ([setup_channel] now refuses a funding output index above 65535) the
      channel parameters handed to LDK carried [vout as u16]: the transaction that was signed
      spent another outpoint than the channel's.  With [canon_tx] as the specification, the old
      behaviour is "sign [canon_tx] of the setup with the truncated index", and that is a
      different transaction (replayed on the implementation by the harness: vout = 65536). *)
Definition truncate_vout (s : setup) : setup :=
  mkSetup (s_ctype s) (s_outbound s) (s_value s) (s_txid s) (s_vout s mod 65536) (s_delay s)
          (s_holder_funding s) (s_cp_funding s) (s_holder_payment s).
Example C04_old_vout_truncation_refuted :
  exists s k c,
    canon_tx Sha256.sha256 ripemd160 (truncate_vout s) k c <> canon_tx Sha256.sha256 ripemd160 s k c
    /\ commit_sighash Sha256.sha256 (truncate_vout s) (canon_tx Sha256.sha256 ripemd160 (truncate_vout s) k c)
       <> commit_sighash Sha256.sha256 s (canon_tx Sha256.sha256 ripemd160 s k c).
Proof.
  exists (mkSetup (s_ctype ex_setup) true (s_value ex_setup) (s_txid ex_setup) 65536 (s_delay ex_setup)
                  (s_holder_funding ex_setup) (s_cp_funding ex_setup) (s_holder_payment ex_setup)),
         ex_keys, ex_content.
  split; vm_compute; discriminate.
Qed.

Check C04_phase1_canonical.
Check C04_entry_points_agree.

(** * The premise [accept_bounded] is what the validator of C05 guarantees: a content accepted
      by any of the four validator entry points of Model/CommitmentPolicy.v (under the
      non-permissive filter) has every HTLC expiry below MAX_CLTV_EXPIRY = 500 000 000 < 2^31
      ([C05_accept_implies_bounds], conjunct [expiry_bound]). *)
From VLS Require Model.CommitmentPolicy Props.C05.

Definition policy_info (c : content) : CommitmentPolicy.cinfo :=
  CommitmentPolicy.mkInfo true (c_to_holder c) (c_to_cp c)
    (map (fun h => (h_value h, h_cltv h)) (c_offered c))
    (map (fun h => (h_value h, h_cltv h)) (c_received c)) (c_feerate c).

Theorem C04_validated_contents_bounded :
  forall en prof warn pol e s cs (c : content),
    (forall t, warn t = false) ->
    CommitmentPolicy.max_feerate pol < U64.U32MAX ->
    CommitmentPolicy.heights_fit prof pol cs ->
    CommitmentPolicy.validate_entry en CommitmentPolicy.est_new prof warn pol e s cs (c_num c) (policy_info c)
    = CommitmentPolicy.Ok ->
    bounded c.
Proof.
  intros en prof warn pol e s cs c Hw Hm Hf H.
  pose proof (C05.C05_accept_implies_bounds en prof warn pol e s cs (c_num c) (policy_info c) Hw Hm Hf H)
    as [_ [_ [_ [_ [He _]]]]].
  unfold CommitmentPolicy.expiry_bound, policy_info in He. cbn in He.
  apply Forall_app in He. destruct He as [_ Hr]. unfold bounded.
  rewrite Forall_map in Hr. eapply Forall_impl; [|exact Hr].
  intros h [Hh _]. cbn in Hh. unfold CommitmentPolicy.MAX_CLTV_EXPIRY in Hh.
  change (2 ^ 31) with 2147483648. Lia.lia.
Qed.
Print Assumptions C04_validated_contents_bounded.

(** a content the validator of C05 accepts (non-permissive filter) has no trimmed HTLC: its
    [dust_bound] conjunct is the negation of [trimmed], HTLC by HTLC *)
Theorem C04_validated_contents_untrimmed :
  forall en prof warn pol e (ps : CommitmentPolicy.setup) cs (s : setup) (c : content),
    CommitmentPolicy.is_zero_fee_htlc (CommitmentPolicy.commitment_type ps) = is_zero_fee (s_ctype s) ->
    (forall t, warn t = false) ->
    CommitmentPolicy.max_feerate pol < U64.U32MAX ->
    CommitmentPolicy.heights_fit prof pol cs ->
    CommitmentPolicy.validate_entry en CommitmentPolicy.est_new prof warn pol e ps cs (c_num c) (policy_info c)
    = CommitmentPolicy.Ok ->
    no_trimmed s c.
Proof.
  intros en prof warn pol e ps cs s c Hz Hw Hm Hf H.
  pose proof (C05.C05_accept_implies_bounds en prof warn pol e ps cs (c_num c) (policy_info c) Hw Hm Hf H)
    as [_ [[_ [_ [Ho Hr]]] _]].
  unfold CommitmentPolicy.htlc_limit, policy_info in Ho, Hr. cbn in Ho, Hr. rewrite Hz in Ho, Hr.
  rewrite Forall_map in Ho, Hr. unfold no_trimmed, trimmed, htlc_trim_limit, htlc_weight, zf.
  split; (eapply Forall_impl; [|first [exact Ho|exact Hr]]); intros h Hh; cbn in Hh;
    apply N.ltb_ge; destruct (is_zero_fee (s_ctype s)); exact Hh.
Qed.
Print Assumptions C04_validated_contents_untrimmed.

