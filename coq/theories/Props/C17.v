(** C17 — externally stored state is authenticated against tampering, swapping and replay.

    "A value fetched from external storage is accepted only if its content, key and version
    are exactly those the signer wrote, and a response to a read is accepted only if it
    authenticates under the fresh nonce of that request.  Two different sets of
    key-version-value records never authenticate under the same tag."

    The MACed strings are undelimited concatenations (Model/Hmac.v), so the statement at
    full strength is FALSE of the code: [C17_refuted_*] exhibit two different inputs with the
    same MACed bytes, hence the same tag for every MAC.  What holds is proved for everything
    outside the class [Known] (the two inputs are framed differently; three sub-classes,
    the ones listed in KNOWN_FINDINGS.json), under the idealisation that the MAC is injective
    on its message ([mac] and that law are premises of each theorem, not axioms).
    Statements only; proofs are in Proofs/HmacProofs.v. *)
From VLS Require Import Base.Eqb Model.Hmac Model.HmacCheck Proofs.HmacProofs.

Definition InjectiveMac (mac : bytes -> bytes -> bytes) : Prop :=
  forall k m m', mac k m = mac k m' -> m = m'.

(** ** Stored values (lightning-storage-server client envelope) *)

(** Acceptance means exactly: the last 32 bytes are the tag of (key, version, the rest). *)
Theorem C17_accepted_value_is_tagged :
  forall mac s k v st y,
    process_value_from_get mac s k v st = Some y ->
    exists t, st = y ++ t /\ length t = 32%nat /\ t = value_tag mac s k v y.
Proof. exact get_accepts_only_tagged. Qed.
Print Assumptions C17_accepted_value_is_tagged.

(** Tag binding outside the known class: for keys of one length the tag determines key,
    version and content. *)
Theorem C17_value_binding_outside_known :
  forall mac, InjectiveMac mac ->
  forall s k v x k' v' x',
    v < two64 -> v' < two64 -> length k = length k' ->
    value_tag mac s k v x = value_tag mac s k' v' x' -> k = k' /\ v = v' /\ x = x'.
Proof. exact value_tag_binding. Qed.
Print Assumptions C17_value_binding_outside_known.

(** Whatever bytes the store returns: if they are accepted under (k', v') and carry a tag
    that the signer produced for (k, v, x), with |k| = |k'|, then key, version, content and
    the stored bytes are exactly those the signer wrote (covers every bit flip, truncation,
    extension, and every swap of keys of equal length or of versions). *)
Theorem C17_fetched_value_is_what_was_written :
  forall mac, InjectiveMac mac ->
  forall s k v x k' v' st y t y',
    v < two64 -> v' < two64 ->
    st = y ++ t -> length t = 32%nat -> t = value_tag mac s k v x ->
    process_value_from_get mac s k' v' st = Some y' ->
    length k = length k' ->
    k' = k /\ v' = v /\ y' = x /\ st = prepare_value_for_put mac s k v x.
Proof. exact get_binding. Qed.
Print Assumptions C17_fetched_value_is_what_was_written.

(** The bytes exactly as written are accepted only under the key and version they were
    written for — unconditionally in the key lengths (key swap, version swap / rollback of
    unmodified stored bytes). *)
Theorem C17_unmodified_value_bound_to_key_and_version :
  forall mac, InjectiveMac mac ->
  forall s k v x k' v' y,
    v < two64 -> v' < two64 -> length (value_tag mac s k v x) = 32%nat ->
    process_value_from_get mac s k' v' (prepare_value_for_put mac s k v x) = Some y ->
    k' = k /\ v' = v /\ y = x.
Proof. exact get_unmodified. Qed.
Print Assumptions C17_unmodified_value_bound_to_key_and_version.

(** Every single-bit flip of the content is rejected. *)
Theorem C17_value_bitflip_rejected :
  forall mac, InjectiveMac mac ->
  forall s k v x i bit,
    (i < length x)%nat -> length (value_tag mac s k v x) = 32%nat ->
    process_value_from_get mac s k v (flip_at i bit x ++ value_tag mac s k v x) = None.
Proof. exact value_bitflip_rejected. Qed.
Print Assumptions C17_value_bitflip_rejected.

Theorem C17_short_value_rejected :
  forall mac s k v st, (length st < 32)%nat -> process_value_from_get mac s k v st = None.
Proof. exact get_short. Qed.

(** What the signer wrote is accepted (the check is not vacuous). *)
Theorem C17_value_roundtrip :
  forall mac s k v x,
    length (value_tag mac s k v x) = 32%nat ->
    process_value_from_get mac s k v (prepare_value_for_put mac s k v x) = Some x.
Proof. exact get_roundtrip. Qed.

(** ** Records coming back from the store (PrivClient::get, conflicts of PrivClient::put)

    The version on the wire is an i64.  Whatever the sign of the version and whatever the length
    of the value, a record is handed back only after process_value_from_get accepted it: with its
    own 32-byte tag under the record secret, which the store never has. *)
Theorem C17_returned_records_are_tagged :
  forall mac hs kvs out,
    remove_and_check_hmacs mac hs kvs = Some out ->
    Forall2 (fun (i o : wrecord) =>
               let '(k, v, st) := i in let '(k', v', y) := o in
               k' = k /\ v' = v /\
               exists t, st = y ++ t /\ length t = 32%nat /\ t = value_tag mac hs k (wire_version v) y)
            kvs out.
Proof. exact open_every_record_tagged. Qed.
Print Assumptions C17_returned_records_are_tagged.

Theorem C17_short_record_never_returned :
  forall mac hs k v st r,
    (length st < 32)%nat -> remove_and_check_hmacs mac hs ((k, v, st) :: r) = None.
Proof. exact open_short_refused. Qed.

(** Binding over signed versions: a record handed back under (k, v) whose tag the signer made for
    (k0, v0, x0), keys of one length, both versions any i64: it is exactly what the signer wrote.
    In particular a record presented at a negative (never written) version is refused. *)
Theorem C17_signed_version_binding :
  forall mac, InjectiveMac mac ->
  forall hs k v st y t k0 v0 x0,
    is_i64 v -> is_i64 v0 ->
    process_value_from_get mac hs k (wire_version v) st = Some y ->
    st = y ++ t -> length t = 32%nat -> t = value_tag mac hs k0 (wire_version v0) x0 ->
    length k0 = length k -> k = k0 /\ v = v0 /\ y = x0.
Proof. exact open_binding. Qed.
Print Assumptions C17_signed_version_binding.

(** non-vacuity: under an injective MAC, bytes of the store's choice at version -1 / i64::MIN are
    refused, a value the signer wrote at version 3 is refused at version -1, and opens at 3 *)
Example C17_negative_version_nonvacuous :
  let x := repeat 9 23 in
  let stored := prepare_value_for_put toy_mac [4] [107] 3 x in
  remove_and_check_hmacs toy_mac [4] [([107], (-1)%Z, repeat 66 40)] = None /\
  remove_and_check_hmacs toy_mac [4] [([107], (-9223372036854775808)%Z, repeat 66 32)] = None /\
  remove_and_check_hmacs toy_mac [4] [([107], (-1)%Z, [])] = None /\
  remove_and_check_hmacs toy_mac [4] [([107], (-1)%Z, stored)] = None /\
  remove_and_check_hmacs toy_mac [4] [([107], 3%Z, stored)] = Some [([107], 3%Z, x)] /\
  wire_version (-1) = 18446744073709551615.
Proof. vm_compute. repeat split. Qed.

(** ** Record sets under the shared tag (client / server / read-response HMAC) *)

(** Two different (nonce, record list) inputs that are not framed differently never share a
    tag. *)
Theorem C17_binding_outside_known :
  forall mac, InjectiveMac mac ->
  forall s (a b : input),
    wf_input a -> wf_input b -> ~ Known a b ->
    input_tag mac s a = input_tag mac s b -> a = b.
Proof. exact input_tag_binding. Qed.
Print Assumptions C17_binding_outside_known.

(** [Known] is exactly three classes, named by the first field boundary that differs, and
    every collision of the MACed bytes lies in it. *)
Theorem C17_known_classes :
  forall a b,
    Known a b <->
    in_diff a b = Some NonceKey \/ in_diff a b = Some KeyVersion \/ in_diff a b = Some MergeSplit.
Proof. exact known_cases. Qed.

Theorem C17_nonce_key_class :
  forall a b, in_diff a b = Some NonceKey <-> length (fst a) <> length (fst b).
Proof. exact nonce_class. Qed.

Theorem C17_collisions_are_known :
  forall s a b,
    wf_input a -> wf_input b -> a <> b -> ser_input s a = ser_input s b -> Known a b.
Proof. exact collisions_are_known. Qed.
Print Assumptions C17_collisions_are_known.

(** Any modification that keeps the extents of the fields — bit flips of keys, versions,
    values or the nonce, swapping keys / versions / values between records, reordering
    records of equal shapes — is detected. *)
Theorem C17_same_shape_modification_detected :
  forall mac, InjectiveMac mac ->
  forall s n rs n' rs',
    wf_records rs -> wf_records rs' ->
    length n = length n' -> map shape rs = map shape rs' ->
    shared_tag mac s n rs = shared_tag mac s n' rs' -> n = n' /\ rs = rs'.
Proof. exact same_shape_binding. Qed.
Print Assumptions C17_same_shape_modification_detected.

(** Truncation or extension (any change of the total length) is detected. *)
Theorem C17_truncation_detected :
  forall mac, InjectiveMac mac ->
  forall s a b,
    length (ser_input s a) <> length (ser_input s b) -> input_tag mac s a <> input_tag mac s b.
Proof. exact truncation_detected. Qed.

(** ** Freshness *)

(** A tag made for nonce n never verifies for another nonce of the same length, whatever
    the records. *)
Theorem C17_fresh_nonce :
  forall mac, InjectiveMac mac ->
  forall s n rs n' rs',
    length n = length n' -> shared_tag mac s n rs = shared_tag mac s n' rs' -> n = n'.
Proof. exact fresh_nonce. Qed.
Print Assumptions C17_fresh_nonce.

(** check_hmac after new_nonce(n) accepts no tag that was made for another nonce of the
    same length (replay of an earlier read response). *)
Theorem C17_replayed_response_rejected :
  forall mac, InjectiveMac mac ->
  forall h n rs n0 rs0,
    helper_check mac (new_nonce h n) rs (shared_tag mac (shared_secret h) n0 rs0) = true ->
    length n0 = length n -> n0 = n.
Proof. exact check_fresh. Qed.

(** A reply the server made under another nonce of the same length (a man in the middle
    swapped the nonce of the request) is refused, whatever records accompany it. *)
Theorem C17_reply_for_other_nonce_refused :
  forall mac, InjectiveMac mac ->
  forall s n m rs rs',
    length m = length n -> m <> n -> check_hmac mac s n rs' (shared_tag mac s m rs) = false.
Proof. exact other_nonce_refused. Qed.
Print Assumptions C17_reply_for_other_nonce_refused.

(** Freshness over a history.  [reads] lists, in order, the nonce each read of one client
    sent and the records it was answered with.  PREMISE: [nonces_fresh] — every nonce is 32
    bytes and was not used before in this history.  This is a fact about the client code
    (PrivClient::get, ExternalPersistHelper::new_nonce and their callers); the driver evaluates
    this very function on the nonces the harness sees on the wire in every run.  Then the
    reply to read i is refused as the answer to any other read j (in particular any later
    one: rollback by replay), whatever records the man in the middle presents with it. *)
Theorem C17_replayed_reply_refused_in_fresh_history :
  forall mac, InjectiveMac mac ->
  forall s (reads : list (bytes * list record)) i j ni rsi nj rsj rs',
    nonces_fresh (map fst reads) = true ->
    nth_error reads i = Some (ni, rsi) -> nth_error reads j = Some (nj, rsj) -> i <> j ->
    check_hmac mac s nj rs' (shared_tag mac s ni rsi) = false.
Proof. exact replay_refused. Qed.
Print Assumptions C17_replayed_reply_refused_in_fresh_history.

(** The premise is necessary: when a nonce repeats (e.g. every read sends the empty nonce),
    the reply recorded at the earlier read, with its stale records, is accepted at the later
    one — for every MAC — and [nonces_fresh] says so. *)
Example C17_stale_reply_accepted_without_fresh_nonce :
  (forall mac s n rs_old, check_hmac mac s n rs_old (shared_tag mac s n rs_old) = true) /\
  nonces_fresh [[]; []] = false /\
  nonces_fresh [repeat 7 32; repeat 7 32] = false /\
  nonces_fresh [repeat 7 32; repeat 8 31] = false /\
  nonces_fresh [repeat 7 32; repeat 8 32; 9 :: repeat 7 31] = true.
Proof.
  split; [exact stale_reply_accepted_on_repeated_nonce|].
  repeat split; vm_compute; reflexivity.
Qed.

(** ** The start-up read: vls-util init_state (and the same rule in PrivClient::get) *)

(** Acceptance is exactly: the delivered tag is the tag of exactly the delivered list under the
    nonce of this read — for every list, the empty one included. *)
Theorem C17_init_state_accepts_only_tagged :
  forall mac s n rs t l,
    init_state mac s n rs t = Some l -> l = rs /\ t = shared_tag mac s n rs.
Proof. exact init_state_accepts_tagged. Qed.

Theorem C17_init_state_accepts_authentic :
  forall mac s n rs, init_state mac s n rs (shared_tag mac s n rs) = Some rs.
Proof. exact init_state_authentic. Qed.

(** An accepted reply is the list the server authenticated (outside the known framing
    classes), and it was authenticated for this read's nonce. *)
Theorem C17_init_state_accepted_reply_is_authenticated :
  forall mac, InjectiveMac mac ->
  forall s n rs t l n0 rs0,
    wf_records rs -> wf_records rs0 ->
    t = shared_tag mac s n0 rs0 -> length n0 = length n ->
    init_state mac s n rs t = Some l ->
    n0 = n /\ (~ Known (n, rs) (n, rs0) -> l = rs0).
Proof. exact init_state_accepts_authenticated. Qed.
Print Assumptions C17_init_state_accepted_reply_is_authenticated.

(** A reply without records is accepted only if the server authenticated "no records" for this
    nonce: truncation of the stored state to nothing is refused.  Unconditional — no framing
    class applies to the empty list. *)
Theorem C17_init_state_empty_reply_is_authenticated :
  forall mac, InjectiveMac mac ->
  forall s n t l n0 rs0,
    t = shared_tag mac s n0 rs0 -> length n0 = length n ->
    init_state mac s n [] t = Some l -> n0 = n /\ rs0 = [] /\ l = [].
Proof. exact init_state_empty_authenticated. Qed.
Print Assumptions C17_init_state_empty_reply_is_authenticated.

(** non-vacuity: the authentic empty reply is accepted, the same empty reply carrying the tag of
    a one-record state, no tag, or the empty-state tag of another nonce is refused *)
Example C17_init_state_nonvacuous :
  let n := repeat 7 32 in let n' := repeat 8 32 in let rs0 := [([107], 3, [9; 9])] in
  init_state toy_mac [5] n [] (shared_tag toy_mac [5] n []) = Some [] /\
  init_state toy_mac [5] n [] (shared_tag toy_mac [5] n rs0) = None /\
  init_state toy_mac [5] n [] [] = None /\
  init_state toy_mac [5] n [] (shared_tag toy_mac [5] n' []) = None /\
  init_state toy_mac [5] n rs0 (shared_tag toy_mac [5] n rs0) = Some rs0.
Proof. vm_compute. repeat split. Qed.

(** The client tag of a put is never the server tag of a put. *)
Theorem C17_client_server_separated :
  forall mac, InjectiveMac mac ->
  forall s rs rs', client_hmac mac s rs <> server_hmac mac s rs'.
Proof. exact client_server_separated. Qed.

(** ** The statement at full strength is false: the three known classes *)

(** key/version boundary — stored value: the store answers a read of key "a" at version
    0x62·2^56 with 0x00 ‖ v ‖ tag, where tag was made for ("ab", 0, v); accepted. *)
Example C17_refuted_value_key_version_shift :
  wit_kv_a <> wit_kv_b /\ wf_record wit_kv_a /\ wf_record wit_kv_b /\
  in_diff ([], [wit_kv_a]) ([], [wit_kv_b]) = Some KeyVersion /\
  forall mac s,
    value_tag mac s (rkey wit_kv_a) (rver wit_kv_a) (rval wit_kv_a) =
    value_tag mac s (rkey wit_kv_b) (rver wit_kv_b) (rval wit_kv_b) /\
    (length (value_tag mac s (rkey wit_kv_a) (rver wit_kv_a) (rval wit_kv_a)) = 32%nat ->
     process_value_from_get mac s (rkey wit_kv_b) (rver wit_kv_b)
       (rval wit_kv_b ++ value_tag mac s (rkey wit_kv_a) (rver wit_kv_a) (rval wit_kv_a))
     = Some (rval wit_kv_b)).
Proof.
  split; [intros H; discriminate H|].
  split; [vm_compute; reflexivity|]. split; [vm_compute; reflexivity|].
  split; [vm_compute; reflexivity|].
  intros mac s.
  assert (E : ser_value (rkey wit_kv_a) (rver wit_kv_a) (rval wit_kv_a) =
              ser_value (rkey wit_kv_b) (rver wit_kv_b) (rval wit_kv_b))
    by (vm_compute; reflexivity).
  split; [unfold value_tag; rewrite E; reflexivity|].
  intros L. unfold process_value_from_get. rewrite split_tag_app by exact L.
  unfold value_tag. rewrite E. rewrite bytes_beq_refl. reflexivity.
Qed.

(** key/version boundary — record sets *)
Example C17_refuted_set_key_version_shift :
  exists rs rs', rs <> rs' /\ wf_records rs /\ wf_records rs' /\
    in_diff ([], rs) ([], rs') = Some KeyVersion /\
    forall mac s n, shared_tag mac s n rs = shared_tag mac s n rs'.
Proof.
  exists [wit_kv_a], [wit_kv_b].
  split; [intros H; discriminate H|].
  split; [repeat constructor; vm_compute; reflexivity|].
  split; [repeat constructor; vm_compute; reflexivity|].
  split; [vm_compute; reflexivity|].
  intros mac s n. unfold shared_tag, ser_shared.
  replace (ser_records [wit_kv_a]) with (ser_records [wit_kv_b]) by (vm_compute; reflexivity).
  reflexivity.
Qed.

(** record merge/split *)
Example C17_refuted_set_merge_split :
  wit_ms_a <> wit_ms_b /\ wf_records wit_ms_a /\ wf_records wit_ms_b /\
  in_diff ([], wit_ms_a) ([], wit_ms_b) = Some MergeSplit /\
  forall mac s n, shared_tag mac s n wit_ms_a = shared_tag mac s n wit_ms_b.
Proof.
  split; [intros H; discriminate H|].
  split; [repeat constructor; vm_compute; reflexivity|].
  split; [repeat constructor; vm_compute; reflexivity|].
  split; [vm_compute; reflexivity|].
  intros mac s n. unfold shared_tag, ser_shared.
  replace (ser_records wit_ms_a) with (ser_records wit_ms_b) by (vm_compute; reflexivity).
  reflexivity.
Qed.

(** nonce/key boundary *)
Example C17_refuted_nonce_key_shift :
  wit_nk_a <> wit_nk_b /\ wf_input wit_nk_a /\ wf_input wit_nk_b /\
  in_diff wit_nk_a wit_nk_b = Some NonceKey /\
  forall mac s, input_tag mac s wit_nk_a = input_tag mac s wit_nk_b.
Proof.
  split; [intros H; discriminate H|].
  split; [repeat constructor; vm_compute; reflexivity|].
  split; [repeat constructor; vm_compute; reflexivity|].
  split; [vm_compute; reflexivity|].
  intros mac s. apply equal_ser_equal_tag. unfold ser_input, ser_shared.
  apply f_equal. vm_compute. reflexivity.
Qed.

(** nonce/key boundary across the two uses of the tag: the client tag of a put is accepted
    by check_hmac as the answer to a read, for other records, when the read nonce is
    0x01 ‖ (first 31 bytes of the put's first key). *)
Example C17_refuted_put_tag_answers_read :
  wit_put_rs <> wit_get_rs /\ length wit_get_nonce = 32%nat /\
  in_diff ([1], wit_put_rs) (wit_get_nonce, wit_get_rs) = Some NonceKey /\
  forall mac s,
    helper_check mac (new_nonce (helper_new s) wit_get_nonce) wit_get_rs
      (client_hmac mac s wit_put_rs) = true.
Proof.
  split; [intros H; discriminate H|].
  split; [reflexivity|]. split; [vm_compute; reflexivity|].
  intros mac s. unfold helper_check, check_hmac, client_hmac, shared_tag, new_nonce, helper_new.
  cbn [shared_secret last_nonce]. apply bytes_beq_eq.
  apply (equal_ser_equal_tag mac s ([1], wit_put_rs) (wit_get_nonce, wit_get_rs)).
  unfold ser_input, ser_shared. cbn [fst snd]. apply f_equal. vm_compute. reflexivity.
Qed.

(** the third sentence of the property, literally, is false *)
Example C17_set_binding_refuted :
  ~ (forall mac, InjectiveMac mac -> forall s n rs rs',
       wf_records rs -> wf_records rs' ->
       shared_tag mac s n rs = shared_tag mac s n rs' -> rs = rs').
Proof.
  intros H.
  destruct C17_refuted_set_merge_split as (N & W & W' & _ & E).
  apply N. apply (H toy_mac toy_mac_inj [] []); trivial.
Qed.

(** ** Non-vacuity: an injective MAC exists, and under it a same-shape modification (a
    version rollback in the second record) of a concrete list changes the tag while the
    hypotheses of [C17_same_shape_modification_detected] hold. *)
Example C17_nonvacuous :
  InjectiveMac toy_mac /\
  let rs  := [([97; 47; 120], 7, [1; 2; 3]); ([98], 4294967296, [])] in
  let rs' := [([97; 47; 120], 7, [1; 2; 3]); ([98], 4294967295, [])] in
  wf_records rs /\ wf_records rs' /\ map shape rs = map shape rs' /\
  ~ Known ([1], rs) ([2], rs') /\
  shared_tag toy_mac [9] [1] rs <> shared_tag toy_mac [9] [1] rs' /\
  process_value_from_get toy_mac [9] [97] 5 (prepare_value_for_put toy_mac [9] [97] 5 (repeat 3 23))
    = Some (repeat 3 23).
Proof.
  split; [exact toy_mac_inj|].
  cbv zeta.
  split; [repeat constructor; vm_compute; reflexivity|].
  split; [repeat constructor; vm_compute; reflexivity|].
  split; [reflexivity|].
  split; [intros K; apply K; vm_compute; reflexivity|].
  split; [vm_compute; intros H; discriminate H|].
  vm_compute. reflexivity.
Qed.

Check C17_binding_outside_known.
