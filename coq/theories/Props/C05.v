(** C05 — accepted commitments satisfy every mandatory policy bound.
    Statements only; proofs are in Proofs/CommitmentPolicyProofs.v.

    The model describes the code with the repaired [estimate_feerate_per_kw]
    (notes/fixes/C05-feerate-no-truncation.patch); [C05_fee_truncation_refuted] keeps the
    witness against the estimator as found. *)
From VLS Require Import Base.U64 Model.CommitmentPolicy Proofs.CommitmentPolicyProofs.
From VLS Require Gen.TxUtilGen Proofs.TxUtilGenProofs.
From VLS Require Gen.CommitmentPolicyGen Proofs.CommitmentPolicyGenProofs.
From VLS Require Gen.EnforcementGen Gen.EnforcementRulesGen Proofs.CommitmentEntryGenProofs.

(** Under a non-permissive filter, whichever entry point accepts a commitment (simple or
    on-chain validator, counterparty or holder side), for every policy, setup, chain state,
    enforcement state, commitment number and content — amounts unbounded, so every u64
    overflow candidate is covered — the mathematical conjunction of bounds holds: implied fee
    within the BOLT-3 fees of the configured rates, no main output or HTLC below its limit,
    HTLC count, in-flight value, expiries, initial-commitment rules. *)
Theorem C05_accept_implies_bounds :
  forall (en : entry) (prof : profile) (warn : tag -> bool) (pol : policy) (e : estate)
         (s : setup) (cs : chain) (n : N) (i : cinfo),
    (forall t, warn t = false) ->
    max_feerate pol < U32MAX ->
    heights_fit prof pol cs ->
    validate_entry en est_new prof warn pol e s cs n i = Ok ->
    Bounds pol s cs n i.
Proof.
  intros en prof warn pol e s cs n i Hw Hm Hfit H.
  eapply accept_implies_bounds; try eassumption. eapply entry_accept; eassumption.
Qed.
Print Assumptions C05_accept_implies_bounds.

(** The same for a filter given as rules: no rule with action Warn. *)
Corollary C05_accept_implies_bounds_rules :
  forall en prof rules pol e s cs n i,
    Forall (fun r => r_warn r = false) rules ->
    max_feerate pol < U32MAX ->
    heights_fit prof pol cs ->
    validate_entry en est_new prof (warn_of rules) pol e s cs n i = Ok ->
    Bounds pol s cs n i.
Proof.
  intros en prof rules pol e s cs n i Hr. apply C05_accept_implies_bounds.
  intros t. apply filter_no_warn_rules. exact Hr.
Qed.

(** Per tag, for an arbitrary filter: a bound can only be missing when its own tag is
    downgraded; the outputs never exceed the funding whatever the filter says. *)
Theorem C05_accept_per_tag :
  forall en prof warn pol e s cs n i,
    validate_entry en est_new prof warn pol e s cs n i = Ok ->
    total_out i <= channel_value s /\
    (warn T_outputs_trimmed = false -> dust_bound s i) /\
    (warn T_htlc_count = false -> count_bound pol i) /\
    (warn T_inflight = false -> inflight_bound pol i) /\
    (warn T_cltv_range = false -> heights_fit prof pol cs -> expiry_bound pol cs i) /\
    (warn T_fee_range = false -> max_feerate pol < U32MAX -> fee_bound pol s i) /\
    (warn T_first_no_htlcs = false -> n = 0 -> offered i = [] /\ received i = []) /\
    (warn T_initial_funding_value = false -> n = 0 -> is_outbound s = true ->
     cp_value i <= push_value_msat s / 1000).
Proof.
  intros en prof warn pol e s cs n i H. eapply accept_facts. eapply entry_accept. eassumption.
Qed.
Print Assumptions C05_accept_per_tag.

(** The fee window in the form the code compares: [min*w <= 1000*fee + 999 < (max+1)*w]. *)
Theorem C05_fee_window_equiv :
  forall lo hi w fee,
    (bolt3_fee lo w <= fee /\ fee < bolt3_fee hi w) <->
    (lo * w <= fee * 1000 + 999 /\ fee * 1000 + 999 < hi * w).
Proof. exact bolt3_window_iff. Qed.

(** Initial commitment of a channel we funded: the holder keeps everything but the pushed
    value and an in-range fee. *)
Theorem C05_initial_holder_value :
  forall pol s cs i,
    Bounds pol s cs 0 i -> is_outbound s = true ->
    channel_value s <
      holder_value i + push_value_msat s / 1000
      + bolt3_fee (max_feerate pol + 1) (expected_weight (is_anchors (commitment_type s)) 0).
Proof. exact initial_holder_value. Qed.

(** A channel becomes usable only with a safe commitment type and both contest delays within
    policy (and a shutdown script that is ours or allowlisted). *)
Theorem C05_setup :
  forall warn pol s,
    (forall t, warn t = false) -> validate_setup_channel warn pol s = Ok -> setup_bound pol s.
Proof. exact setup_implies_bound. Qed.
Print Assumptions C05_setup.

Theorem C05_setup_per_tag :
  forall warn pol s,
    validate_setup_channel warn pol s = Ok ->
    (warn T_safe_type = false -> safe_type (commitment_type s) = true) /\
    (warn T_delay_holder = false -> min_delay pol <= cp_delay s <= max_delay pol) /\
    (warn T_delay_counterparty = false -> min_delay pol <= holder_delay s <= max_delay pol) /\
    (warn T_mutual_destination = false -> shutdown s = 0 \/ shutdown s = 1).
Proof. exact setup_facts. Qed.

(** No counterparty commitment is signed for a channel above the maximum size: the signing
    path (size check, then the validator, simple or on-chain) answers Ok only for a channel
    within the size limit whose commitment passed every check. *)
Theorem C05_channel_value :
  forall prof warn pol onchain e s cs n i,
    sign_counterparty est_new prof warn pol onchain e s cs n i = Ok ->
    (warn T_funding_max = false -> channel_value s <= max_channel_size pol) /\
    validate_commitment est_new prof warn pol s cs n i = Ok.
Proof.
  intros prof warn pol onchain e s cs n i H. apply sign_counterparty_facts in H. tauto.
Qed.
Print Assumptions C05_channel_value.

(** With the on-chain validator nothing beyond the initial commitment is accepted while the
    funding is unconfirmed or after a close was seen: every counterparty commitment with a
    number above 0, and every holder commitment above 0 that is new. *)
Theorem C05_onchain :
  forall prof warn pol e s cs n i,
    warn T_active_utxo_temp = false -> warn T_active_utxo = false -> 0 < n ->
    (onchain_counterparty_commitment est_new prof warn pol e s cs n i = Ok ->
     1 <= funding_depth cs /\ closing_depth cs = 0) /\
    (onchain_holder_commitment est_new prof warn pol e s cs n i = Ok ->
     next_holder_commit_num e <= n ->
     1 <= funding_depth cs /\ closing_depth cs = 0).
Proof.
  intros prof warn pol e s cs n i Hw1 Hw2 Hn. split.
  - intros H. destruct (onchain_counterparty_buried _ _ _ _ _ _ _ _ _ H Hn) as [A B]. auto.
  - intros H Hnew. destruct (onchain_holder_buried _ _ _ _ _ _ _ _ _ H Hn Hnew) as [A B]. auto.
Qed.
Print Assumptions C05_onchain.

(** A channel becomes usable only through an accepted setup: whatever requests were made on
    the channel id before (refused setups, retries, other commitments), a counterparty
    signature or an accepted holder commitment belongs to a ready channel whose setup passed
    validate_setup_channel — under a non-permissive filter: safe type, both delays within
    policy, shutdown script ours or allowlisted — and the commitment satisfies the bounds
    computed with that setup. *)
Theorem C05_usable_only_after_setup :
  forall prof warn pol oc pre e cs n i,
    (forall t, warn t = false) ->
    max_feerate pol < U32MAX -> heights_fit prof pol cs ->
    let st := lrun est_new prof warn pol oc Stub pre in
    (snd (lstep est_new prof warn pol oc st (LSignCp e cs n i)) = 0 \/
     snd (lstep est_new prof warn pol oc st (LValidateHolder e cs n i)) = 0) ->
    exists s, st = Ready s /\ setup_bound pol s /\ Bounds pol s cs n i.
Proof.
  intros prof warn pol oc pre e cs n i Hw Hm Hfit st [H | H];
    apply accepted_commitment_on_validated_setup in H; destruct H as (s & Hs & Hv & Hc);
    exists s; (split; [exact Hs|]); (split; [eapply setup_implies_bound; eassumption|]);
    eapply accept_implies_bounds; eassumption.
Qed.
Print Assumptions C05_usable_only_after_setup.

(** a refused setup leaves the stub: the commitment is refused, a good setup still works *)
Example C05_refused_setup_leaves_stub :
  let pol := mkPol 144 2016 1000000001 1000 16777216 false 253 25000 in
  let bad := mkSetup true 1000000000 0 6 144 StaticRemoteKey 0 in
  let good := mkSetup true 1000000000 0 144 144 StaticRemoteKey 0 in
  let i := mkInfo true 999999000 0 [] [] 253 in
  let sign := LSignCp (mkEstate 0 0 0 false None false None) (mkChain 0 0 0) 0 i in
  ltrace est_new Debug strict pol false Stub [LSetup bad; sign; LSetup bad; LSetup good; sign; LSetup bad]
  = [2; 2; 2; 0; 0; 2].
Proof. vm_compute. reflexivity. Qed.

(** The commitment a phase-2 signature is for satisfies the bounds: the signed content is the
    request itself — all of its HTLC entries, repeated ones included ([j = req], the lists are
    arbitrary lists, nothing requires their entries to differ) — and that is what was validated. *)
Theorem C05_signed_commitment_bounds :
  forall prof warn pol oc e s cs n req j,
    (forall t, warn t = false) ->
    max_feerate pol < U32MAX -> heights_fit prof pol cs ->
    signed_counterparty est_new prof warn pol oc e s cs n req = Some j \/
    signed_holder_redundant est_new prof warn pol oc e s cs n req = Some j ->
    j = req /\ Bounds pol s cs n j.
Proof.
  intros prof warn pol oc e s cs n req j Hw Hm Hfit [H | H].
  - unfold signed_counterparty in H.
    destruct (sign_counterparty est_new prof warn pol oc e s cs n req) eqn:E; try discriminate.
    inversion H; subst j. split; [reflexivity|].
    apply sign_counterparty_facts in E. destruct E as (_ & E & _).
    eapply accept_implies_bounds; eassumption.
  - unfold signed_holder_redundant in H.
    destruct (validate_entry _ est_new prof warn pol e s cs n req) eqn:E; try discriminate.
    inversion H; subst j. split; [reflexivity|].
    eapply C05_accept_implies_bounds; eassumption.
Qed.
Print Assumptions C05_signed_commitment_bounds.

(** two identical HTLCs are two entries: accepted when the full lists are within bounds ... *)
Example C05_identical_htlcs_nonvacuous :
  let pol := mkPol 4 2016 1000000001 2 20000 false 253 333333 in
  let s := mkSetup true 3000000 0 6 7 StaticRemoteKey 0 in
  let e := mkEstate 0 23 22 false (Some true) false None in
  let req := mkInfo true 1000000 1979000 [(10000, 131072); (10000, 131072)] [] 0 in
  signed_counterparty est_new Debug strict pol false e s (mkChain 0 0 0) 23 req = Some req.
Proof. vm_compute. reflexivity. Qed.

(** ... and the statement is false of the variant that validates the lists without the repeated
    entries: with a limit of 10 000 sat in flight, two identical 6 000 sat HTLCs are signed; with
    a real fee of 10 sat (rate 10 < 253) the commitment is signed because the validator is
    shown a fee of 10 010 sat *)
Example C05_dedup_validation_refuted :
  let s := mkSetup true 3000000 0 6 7 StaticRemoteKey 0 in
  let e := mkEstate 0 23 22 false (Some true) false None in
  let cs := mkChain 0 0 0 in
  (let pol := mkPol 4 2016 1000000001 1000 10000 false 253 333333 in
   let req := mkInfo true 1000000 1987000 [(6000, 131072); (6000, 131072)] [] 0 in
   signed_counterparty_dedup est_new Debug strict pol false e s cs 23 req = Some req /\
   ~ inflight_bound pol req /\
   signed_counterparty est_new Debug strict pol false e s cs 23 req = None) /\
  (let pol := mkPol 4 2016 1000000001 1000 16777216 false 253 333333 in
   let req := mkInfo true 1000000 1979990 [(10000, 131072); (10000, 131072)] [] 0 in
   signed_counterparty_dedup est_new Debug strict pol false e s cs 23 req = Some req /\
   ~ fee_bound pol s req /\
   signed_counterparty est_new Debug strict pol false e s cs 23 req = None).
Proof.
  split; (split; [vm_compute; reflexivity|]); (split; [|vm_compute; reflexivity]).
  - unfold inflight_bound. vm_compute. intros H. apply H. reflexivity.
  - intros (_ & H & _). vm_compute in H. apply H. reflexivity.
Qed.

(** Filter semantics: the default filter downgrades nothing; a tag is downgraded only by an
    explicit matching rule with action Warn that no earlier rule pre-empts; rules without
    Warn give the non-permissive filter; an earlier matching Error rule protects a tag. *)
Theorem C05_filter_default : forall t, warn_of [] t = false.
Proof. exact warn_of_nil. Qed.

Theorem C05_filter_only_explicit :
  forall rules t,
    warn_of rules t = true ->
    exists pre r post, rules = pre ++ r :: post /\ rule_matches r (tag_name t) = true /\
                       r_warn r = true /\
                       Forall (fun q => rule_matches q (tag_name t) = false) pre.
Proof. intros rules t. apply filter_warn_explicit. Qed.

Theorem C05_filter_no_warn_rules :
  forall rules t, Forall (fun r => r_warn r = false) rules -> warn_of rules t = false.
Proof. intros rules t. apply filter_no_warn_rules. Qed.

Theorem C05_filter_error_first :
  forall pre r post t,
    Forall (fun q => rule_matches q (tag_name t) = false) pre ->
    rule_matches r (tag_name t) = true -> r_warn r = false ->
    warn_of (pre ++ r :: post) t = false.
Proof. intros pre r post t. apply filter_error_first. Qed.

(** the repaired estimator, for the other users of the function (mutual close, on-chain fees) *)
Theorem C05_estimate_sound :
  forall fee w lo hi, w <> 0 -> hi < U32MAX ->
    lo <= estimate_feerate_per_kw fee w <= hi ->
    lo * w <= fee * 1000 + 999 /\ fee * 1000 + 999 < (hi + 1) * w.
Proof.
  intros fee w lo hi Hw Hhi [H1 H2]. split.
  - apply estimate_ge_min; assumption.
  - apply estimate_le_max; assumption.
Qed.

Theorem C05_estimate_old_agrees_in_range :
  forall p fee w, w <> 0 -> fee * 1000 + 999 < two32 * w -> fee * 1000 + 999 <= U64MAX ->
    estimate_feerate_per_kw_old p fee w = Val (estimate_feerate_per_kw fee w).
Proof. exact estimate_old_agrees. Qed.

(** * Non-vacuity *)

Definition pol_ex : policy := mkPol 144 2016 1000000001 1000 16777216 true 253 25000.
Definition est_fresh : estate := mkEstate 0 0 0 false None false None.
Definition est_running : estate := mkEstate 7 7 6 false (Some true) true (Some true).

(** a running anchors channel, on-chain validator, chain state in use: one offered and two
    received HTLCs at the edges of the expiry window and of the dust limit, fee exactly the
    BOLT-3 fee at the minimum rate *)
Example C05_nonvacuous :
  let s := mkSetup true 3000000 0 144 2016 AnchorsZeroFeeHtlc 0 in
  let cs := mkChain 800000 6 0 in
  let i := mkInfo true 1000000 1897615 [(354, 800144)] [(100000, 802016); (1617, 801000)] 253 in
  validate_entry OnchainCp est_new Debug strict pol_ex est_running s cs 7 i = Ok /\
  validate_entry OnchainHolder est_new Debug strict pol_ex est_running s cs 7
                 (mkInfo false 1897615 1000000 [(354, 800144)] [(100000, 802016); (1617, 801000)] 253)
    = Ok /\
  max_feerate pol_ex < U32MAX /\ heights_fit Debug pol_ex cs /\
  channel_value s - total_out i = bolt3_fee 253 (weight_of s i).
Proof. vm_compute. repeat split; auto; try congruence. Qed.

(** an initial commitment of an outbound channel with a pushed value *)
Example C05_nonvacuous_initial :
  let s := mkSetup true 1000000000 5000999 6 7 StaticRemoteKey 1 in
  let i := mkInfo true 999976901 5000 [] [] 25000 in
  sign_counterparty est_new Release strict pol_ex false est_fresh s (mkChain 0 0 0) 0 i = Ok /\
  validate_setup_channel strict (mkPol 6 7 1000000001 1000 16777216 false 253 25000) s = Ok /\
  channel_value s - total_out i = bolt3_fee 25001 724 - 1.
Proof. vm_compute. repeat split. Qed.

(** * The estimator as found *)

(** [(((total_fee * 1000) + 999) / weight) as u32] truncates: with a size limit of 10^10 sat an
    initial counterparty commitment that leaves 3 109 556 540 sat to fees (rate 4 294 967 598
    per kw, read as 302) is accepted, in debug and in release builds alike. *)
Example C05_fee_truncation_refuted :
  exists pol s cs i,
    max_feerate pol < U32MAX /\ channel_value s <= max_channel_size pol /\
    (forall prof,
       sign_counterparty (est_old prof) prof strict pol false est_fresh s cs 0 i = Ok) /\
    ~ fee_bound pol s i /\
    validate_commitment est_new Debug strict pol s cs 0 i = Err T_fee_range.
Proof.
  exists (mkPol 4 2016 10000000000 1000 16777216 false 253 333333),
         (mkSetup true 10000000000 0 6 7 StaticRemoteKey 0),
         (mkChain 0 0 0),
         (mkInfo true 6890443460 0 [] [] 302).
  split; [vm_compute; reflexivity|]. split; [vm_compute; congruence|].
  split; [intros []; vm_compute; reflexivity|]. split; [|vm_compute; reflexivity].
  intros (_ & _ & H). vm_compute in H. discriminate.
Qed.

(** * Why the two side conditions of [C05_accept_implies_bounds] are there *)

(** [max_feerate = u32::MAX] means "no maximum": the saturated estimate is accepted *)
Example C05_max_feerate_u32max_is_unlimited :
  let pol := mkPol 4 2016 10000000000 1000 16777216 false 253 U32MAX in
  let s := mkSetup true 10000000000 0 6 7 StaticRemoteKey 0 in
  let i := mkInfo true 6890443460 0 [] [] 302 in
  validate_commitment est_new Debug strict pol s (mkChain 0 0 0) 0 i = Ok /\ ~ fee_bound pol s i.
Proof.
  split; [vm_compute; reflexivity|]. intros (_ & _ & H). vm_compute in H. discriminate.
Qed.

(** release builds wrap [current_height + delay] in u32: at a height above 2^32 - 2^16 (never
    reached by a chain) the window check is meaningless; debug builds panic there *)
Definition wrap_pol : policy := mkPol 144 2016 1000000001 1000 16777216 true 253 25000.
Definition wrap_setup : setup := mkSetup false 3000000 0 144 144 StaticRemoteKey 0.
Definition wrap_cs : chain := mkChain 4294967295 6 0.
Definition wrap_info : cinfo := mkInfo true 1000000 1899773 [] [(100000, 1000)] 253.
Example C05_release_height_wrap :
  validate_commitment est_new Release strict wrap_pol wrap_setup wrap_cs 7 wrap_info = Ok /\
  validate_commitment est_new Debug strict wrap_pol wrap_setup wrap_cs 7 wrap_info = Panic /\
  ~ expiry_bound wrap_pol wrap_cs wrap_info.
Proof.
  split; [vm_compute; reflexivity|]. split; [vm_compute; reflexivity|].
  unfold expiry_bound, wrap_info. cbn [offered received app].
  intros H. inversion H as [|x l Hx Hl]. unfold expiry_ok in Hx.
  destruct Hx as [_ Hx]. specialize (Hx eq_refl). destruct Hx as [Hx _].
  vm_compute in Hx. apply Hx. reflexivity.
Qed.

Check C05_accept_implies_bounds.
Check C05_setup.
Check C05_channel_value.
Check C05_onchain.

(** The two fee helpers behind every fee-range bound above (and behind the fee checks of the
    mutual-close, sweep and on-chain models, which use the same definitions) are the ones in the
    source: Gen/TxUtilGen.v is the statement-by-statement translation of
    [estimate_feerate_per_kw] and [expected_commitment_tx_weight]
    (vls-core/src/util/transaction_utils.rs, regenerated on every run by tools/gen_rustfn.py).
    For every u64 fee and every non-zero weight the estimate is, in both build profiles, the
    model's value - no panic, no wrap, no truncation; a weight of 0 is a panic. *)
Theorem C05_feerate_estimate_is_source :
  forall (prof : profile) (fee w : N),
    fee <= U64MAX -> 0 < w ->
    TxUtilGen.gen_estimate_feerate_per_kw prof fee w = Val (estimate_feerate_per_kw fee w).
Proof. exact TxUtilGenProofs.gen_estimate_is_model. Qed.
Print Assumptions C05_feerate_estimate_is_source.

Theorem C05_feerate_estimate_zero_weight_panics :
  forall (prof : profile) (fee : N),
    fee <= U64MAX -> TxUtilGen.gen_estimate_feerate_per_kw prof fee 0 = Trap.
Proof. exact TxUtilGenProofs.gen_estimate_zero_weight. Qed.
Print Assumptions C05_feerate_estimate_zero_weight_panics.

Theorem C05_commitment_weight_is_source :
  forall (prof : profile) (anchors : bool) (n : N),
    n * 172 + 1124 <= U64MAX ->
    TxUtilGen.gen_expected_commitment_tx_weight prof anchors n = Val (expected_weight anchors n).
Proof. exact TxUtilGenProofs.gen_weight_is_model. Qed.
Print Assumptions C05_commitment_weight_is_source.

(** The commitment rules themselves are the ones in the source.  Gen/CommitmentPolicyGen.v is the
    statement-by-statement translation (tools/gen_rustfn.py, regenerated on every run) of
      SimpleValidator::validate_expiry, ::validate_fee and ::validate_commitment_tx - the whole body:
        both main-output dust checks, the HTLC count, the two trim limits, both HTLC loops (expiry
        window, checked accumulation, trim limit - in this order, the first error leaves the
        function), the in-flight limit, the expected weight, the checked sum of the outputs, the
        validate_fee call (with its map_err, which keeps the tag), value_to_parties and the rules
        for the initial commitment, up to the final Ok(()) -
      with ChannelSetup::is_anchors, ::is_zero_fee_htlc and CommitmentInfo2::value_to_parties,
    over records generated from the declarations of HTLCInfo2, CommitmentInfo2, ChannelSetup,
    ChainState, SimplePolicy and the enum CommitmentType, with the constants MAX_CLTV_EXPIRY,
    MIN_CHAN_DUST_LIMIT_SATOSHIS, MIN_DUST_LIMIT_SATOSHIS read from their files; the feerate
    estimate and the expected weight are the translations of Gen/TxUtilGen.v.  Dropped by the
    translation: the scoped_debug_return! guard and the debug! line (logging).  Parameters of the
    translation: the policy filter (a function of the tag string) and LDK's answers
    htlc_timeout_tx_weight / htlc_success_tx_weight for the channel type.

    For every value of the source's structs, every filter and both build profiles the generated
    function answers exactly what the model answers on the abstraction of that value
    ([abs_*] of Proofs/CommitmentPolicyGenProofs.v forget payment hashes, keys and scripts;
    [tag_filter] reads the filter on the names of the model's tags; [of_res] keeps the tag of a
    refusal and maps a panic to a panic). *)
Theorem C05_expiry_rule_is_source :
  forall (prof : profile) (swarn : string -> bool) (gp : CommitmentPolicyGen.SimplePolicy)
         (name : string) (expiry current_height : N),
    CommitmentPolicyGen.gen_validate_expiry prof swarn gp name expiry current_height =
    CommitmentPolicyGenProofs.of_res
      (validate_expiry prof (CommitmentPolicyGenProofs.tag_filter swarn)
                       (CommitmentPolicyGenProofs.abs_policy gp) expiry current_height).
Proof. exact CommitmentPolicyGenProofs.gen_expiry_is_model. Qed.
Print Assumptions C05_expiry_rule_is_source.

(** side condition: the input sum is a u64 (it is: [setup.channel_value_sat]) *)
Theorem C05_fee_rule_is_source :
  forall (prof : profile) (swarn : string -> bool) (gp : CommitmentPolicyGen.SimplePolicy)
         (sum_inputs sum_outputs weight : N),
    (sum_inputs <=? U64MAX) = true ->
    CommitmentPolicyGen.gen_validate_fee prof swarn gp (tag_name T_fee_range) sum_inputs sum_outputs weight =
    CommitmentPolicyGenProofs.of_res
      (validate_fee est_new (CommitmentPolicyGenProofs.tag_filter swarn)
                    (CommitmentPolicyGenProofs.abs_policy gp) sum_inputs sum_outputs weight).
Proof. exact CommitmentPolicyGenProofs.gen_fee_is_model. Qed.
Print Assumptions C05_fee_rule_is_source.

(** side conditions ([commit_fits], a boolean that holds for every value of the Rust types):
    channel_value_sat <= u64::MAX, feerate_per_kw <= u32::MAX, and
    (offered + received HTLCs) * 172 + 1124 <= usize::MAX.  The LDK weights are the model's
    663 / 703 (read only for channel types without zero-fee HTLC transactions).  [estate] and
    [point] stand for the two arguments the function only logs. *)
Theorem C05_commitment_rules_are_source :
  forall (prof : profile) (swarn : string -> bool) (gp : CommitmentPolicyGen.SimplePolicy)
         (estate commit_num point : N) (gs : CommitmentPolicyGen.ChannelSetup)
         (gcs : CommitmentPolicyGen.ChainState) (gi : CommitmentPolicyGen.CommitmentInfo2),
    CommitmentPolicyGenProofs.commit_fits gs gi = true ->
    CommitmentPolicyGen.gen_validate_commitment_tx prof swarn gp HTLC_TIMEOUT_WEIGHT HTLC_SUCCESS_WEIGHT
      estate commit_num point gs gcs gi =
    CommitmentPolicyGenProofs.of_res
      (validate_commitment est_new prof (CommitmentPolicyGenProofs.tag_filter swarn)
         (CommitmentPolicyGenProofs.abs_policy gp) (CommitmentPolicyGenProofs.abs_setup gs)
         (CommitmentPolicyGenProofs.abs_chain gcs) commit_num (CommitmentPolicyGenProofs.abs_info gi)).
Proof. exact CommitmentPolicyGenProofs.gen_commitment_is_model. Qed.
Print Assumptions C05_commitment_rules_are_source.

(** Hence the bounds hold for what the *source's* function accepts: under a filter that
    downgrades nothing, [Ok(())] of the translated validate_commitment_tx implies the whole
    conjunction on the abstraction of its arguments (same premises as
    [C05_accept_implies_bounds]). *)
Theorem C05_source_accept_implies_bounds :
  forall (prof : profile) (swarn : string -> bool) (gp : CommitmentPolicyGen.SimplePolicy)
         (estate commit_num point : N) (gs : CommitmentPolicyGen.ChannelSetup)
         (gcs : CommitmentPolicyGen.ChainState) (gi : CommitmentPolicyGen.CommitmentInfo2),
    (forall t, swarn t = false) ->
    CommitmentPolicyGenProofs.commit_fits gs gi = true ->
    max_feerate (CommitmentPolicyGenProofs.abs_policy gp) < U32MAX ->
    heights_fit prof (CommitmentPolicyGenProofs.abs_policy gp) (CommitmentPolicyGenProofs.abs_chain gcs) ->
    CommitmentPolicyGen.gen_validate_commitment_tx prof swarn gp HTLC_TIMEOUT_WEIGHT HTLC_SUCCESS_WEIGHT
      estate commit_num point gs gcs gi = Val (Rust.OkR tt) ->
    Bounds (CommitmentPolicyGenProofs.abs_policy gp) (CommitmentPolicyGenProofs.abs_setup gs)
           (CommitmentPolicyGenProofs.abs_chain gcs) commit_num (CommitmentPolicyGenProofs.abs_info gi).
Proof. exact CommitmentPolicyGenProofs.source_accept_implies_bounds. Qed.
Print Assumptions C05_source_accept_implies_bounds.

(** The two entry points are the source's as well.  Gen/EnforcementRulesGen.v is the statement-by-statement
    translation of SimpleValidator's validate_counterparty_commitment_tx and
    validate_holder_commitment_tx - whole bodies: the call of validate_commitment_tx with its `?`, the
    revocation window (policy-commitment-previous-revoked), the retry rules against the stored point
    and contents (policy-commitment-retry-same; on the holder side a panic when there is no current
    commitment), policy-commitment-holder-not-revoked and the closed-channel rule
    (policy-commitment-spends-active-utxo) - over the EnforcementState record of Gen/EnforcementGen.v.
    In the translation the answer of the call `self.validate_commitment_tx(estate, commit_num,
    commitment_point, setup, cstate, info2)` is a parameter; here it is the translated
    validate_commitment_tx of Gen/CommitmentPolicyGen.v for the same number, so the statements are about
    the whole functions and compose with [C05_commitment_rules_are_source].  The entry points see the
    setup, the chain state and the content as identities ([sid], [csid], [c]; `==` on contents and
    points is equality of identities), and [abs_estate ge pt c] computes the model's comparison
    answers from the source-level state.  Dropped: the leading `if let Some(current) = .. { log the
    HTLC deltas }` block, the debugging guard, logging.  Same side condition as
    [C05_commitment_rules_are_source]; refusal tags and panics included, every filter, both profiles. *)
Theorem C05_counterparty_rules_are_source :
  forall (prof : profile) (swarn : string -> bool) (gp : CommitmentPolicyGen.SimplePolicy)
         (ge : EnforcementGen.res) (commit_num pt eid pid sid csid c : N)
         (gs : CommitmentPolicyGen.ChannelSetup) (gcs : CommitmentPolicyGen.ChainState)
         (gi : CommitmentPolicyGen.CommitmentInfo2),
    CommitmentPolicyGenProofs.commit_fits gs gi = true ->
    EnforcementRulesGen.gen_validate_counterparty_commitment_tx prof swarn
      (CommitmentPolicyGen.gen_validate_commitment_tx prof swarn gp HTLC_TIMEOUT_WEIGHT HTLC_SUCCESS_WEIGHT
         eid commit_num pid gs gcs gi)
      ge commit_num pt sid csid c =
    CommitmentPolicyGenProofs.of_res
      (validate_counterparty_commitment est_new prof (CommitmentPolicyGenProofs.tag_filter swarn)
         (CommitmentPolicyGenProofs.abs_policy gp) (CommitmentEntryGenProofs.abs_estate ge pt c)
         (CommitmentPolicyGenProofs.abs_setup gs) (CommitmentPolicyGenProofs.abs_chain gcs) commit_num
         (CommitmentPolicyGenProofs.abs_info gi)).
Proof. exact CommitmentEntryGenProofs.gen_counterparty_is_model. Qed.
Print Assumptions C05_counterparty_rules_are_source.

Theorem C05_holder_rules_are_source :
  forall (prof : profile) (swarn : string -> bool) (gp : CommitmentPolicyGen.SimplePolicy)
         (ge : EnforcementGen.res) (commit_num pt eid pid sid csid c : N)
         (gs : CommitmentPolicyGen.ChannelSetup) (gcs : CommitmentPolicyGen.ChainState)
         (gi : CommitmentPolicyGen.CommitmentInfo2),
    CommitmentPolicyGenProofs.commit_fits gs gi = true ->
    EnforcementRulesGen.gen_validate_holder_commitment_tx prof swarn
      (CommitmentPolicyGen.gen_validate_commitment_tx prof swarn gp HTLC_TIMEOUT_WEIGHT HTLC_SUCCESS_WEIGHT
         eid commit_num pid gs gcs gi)
      ge commit_num pt sid csid c =
    CommitmentPolicyGenProofs.of_res
      (validate_holder_commitment est_new prof (CommitmentPolicyGenProofs.tag_filter swarn)
         (CommitmentPolicyGenProofs.abs_policy gp) (CommitmentEntryGenProofs.abs_estate ge pt c)
         (CommitmentPolicyGenProofs.abs_setup gs) (CommitmentPolicyGenProofs.abs_chain gcs) commit_num
         (CommitmentPolicyGenProofs.abs_info gi)).
Proof. exact CommitmentEntryGenProofs.gen_holder_is_model. Qed.
Print Assumptions C05_holder_rules_are_source.

(** The channel-size rule is the source's.  SimpleValidator::validate_channel_value (whole body;
    `impl Validator for SimpleValidator`, policy/simple_validator.rs), which channel.rs calls before
    every counterparty-commitment signature with the policy in force at that moment, is translated on
    every run and equals the model's [validate_channel_value] (policy-funding-max) for every policy,
    setup, filter and both build profiles; under a filter that leaves the tag alone its Ok means
    channel_value_sat <= max_channel_size_sat. *)
From VLS Require Proofs.ChannelValueGenProofs.
Theorem C05_channel_value_rule_is_source :
  forall (prof : profile) (swarn : string -> bool) (gp : CommitmentPolicyGen.SimplePolicy)
         (gs : CommitmentPolicyGen.ChannelSetup),
    CommitmentPolicyGen.gen_validate_channel_value prof swarn gp gs =
    CommitmentPolicyGenProofs.of_res
      (validate_channel_value (CommitmentPolicyGenProofs.tag_filter swarn)
         (CommitmentPolicyGenProofs.abs_policy gp) (CommitmentPolicyGenProofs.abs_setup gs)).
Proof. exact ChannelValueGenProofs.gen_channel_value_is_model. Qed.
Print Assumptions C05_channel_value_rule_is_source.

Theorem C05_source_channel_value_ok_implies_bound :
  forall (prof : profile) (swarn : string -> bool) (gp : CommitmentPolicyGen.SimplePolicy)
         (gs : CommitmentPolicyGen.ChannelSetup),
    swarn "policy-funding-max"%string = false ->
    CommitmentPolicyGen.gen_validate_channel_value prof swarn gp gs = Val (Rust.OkR tt) ->
    CommitmentPolicyGen.ChannelSetup_channel_value_sat gs <= CommitmentPolicyGen.SimplePolicy_max_channel_size_sat gp.
Proof. exact ChannelValueGenProofs.gen_channel_value_ok_bound. Qed.
Print Assumptions C05_source_channel_value_ok_implies_bound.
