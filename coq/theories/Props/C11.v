(** C11 — every acknowledged state change is already durable.  Statements only; proofs are in
    Proofs/EnforcementProofs.v (channels), Proofs/RefusedProofs.v (node level) and
    Proofs/VelocityProofs.v (velocity controls). *)
From VLS Require Import Base.U64 Model.Enforcement Model.NodeOps
  Proofs.EnforcementProofs Proofs.RefusedProofs Props.C01.
From VLS Require Model.Velocity Proofs.VelocityProofs.

(** Channels: after every request of every history (restarts and aborts anywhere, both
    build profiles) the persisted enforcement state — counters, commitment contents,
    counterparty points and secrets, closed flag — is the one in memory: a signer restarted
    from the store continues from exactly the same state. *)
Theorem C11_channel_state_is_durable :
  forall (warn : tag -> bool) (prof : profile) (ops : list op) (ch : chan),
    c01_filter warn -> Forall wf_op ops -> short ops ->
    fst (grun warn prof (Stub, ghost0) ops) = Ready ch ->
    mem ch = disk ch.
Proof.
  intros warn prof ops ch [W1 [W2 [W3 W4]]] Hwf Hs Hr.
  pose proof (reach_inv warn prof W1 W2 W3 W4 ops Hwf Hs) as Hinv.
  unfold reach in Hinv. rewrite Hr in Hinv. destruct Hinv as [H _]. exact H.
Qed.
Print Assumptions C11_channel_state_is_durable.

(** ... so a restart between any two requests is invisible. *)
Theorem C11_restart_is_invisible :
  forall (warn : tag -> bool) (prof : profile) (ops : list op),
    c01_filter warn -> Forall wf_op ops -> short ops ->
    fst (step warn prof (fst (grun warn prof (Stub, ghost0) ops)) Restart)
    = fst (grun warn prof (Stub, ghost0) ops).
Proof.
  intros warn prof ops [W1 [W2 [W3 W4]]] Hwf Hs.
  pose proof (reach_inv warn prof W1 W2 W3 W4 ops Hwf Hs) as Hinv. unfold reach in Hinv.
  destruct (fst (grun warn prof (Stub, ghost0) ops)) as [|ch]; [reflexivity|].
  destruct Hinv as [H _]. unfold step. cbn [step0 st ok0 fst]. destruct ch as [m d]. cbn [mem disk] in *. subst. reflexivity.
Qed.
Print Assumptions C11_restart_is_invisible.

(** Node level: after every history of node-level requests what a restart reads back — channel
    slots with their forget flags, high-water mark, allowlist, approved invoices — is what the
    running signer has. *)
Theorem C11_node_state_is_durable :
  forall (ops : list nop),
    let s := nrun ninit ops in
    (forall d, slots (nrestore (ndsk s)) d = slots (nmem s) d) /\
    hwm (nrestore (ndsk s)) = hwm (nmem s) /\
    (forall k, allow (nrestore (ndsk s)) k = allow (nmem s) k) /\
    ninv (nrestore (ndsk s)) = ninv (nmem s).
Proof.
  intros ops s. destruct (nrun_sync ops ninit NSync_init) as [H1 [H2 [H3 [H4 _]]]]. auto.
Qed.
Print Assumptions C11_node_state_is_durable.

(** Velocity controls: what is persisted restores to itself (from C12). *)
Theorem C11_velocity_is_durable :
  forall (it : Velocity.itype) (lim0 : N) (ops : list Velocity.vop),
    fst (fst (Velocity.spec_triple it lim0)) < U64MAX ->
    Velocity.nondecreasing 0 (Velocity.op_times ops) = true ->
    Velocity.restore it lim0 (Velocity.disk (fst (Velocity.vrun it lim0 ops)))
    = Velocity.disk (fst (Velocity.vrun it lim0 ops)).
Proof. exact VelocityProofs.restart_keeps_counted. Qed.
Print Assumptions C11_velocity_is_durable.

(** Non-vacuity: a node history that creates, sets up and forgets channels, edits the
    allowlist, approves payments and restarts. *)
Example C11_nonvacuous :
  let ops := [NewChannel 1; NewChannel 2; SetupChannel 2; AddAllow 1 true; AddAllow 0 false; AddInvoice;
              ForgetChannel 2; NRestart; ForgetChannel 1; NewChannel 1; NewChannel 3; SetAllow 2 true] in
  let s := nrun ninit ops in
  map (slots (nmem s)) [1; 2; 3] = [SNone; SForgot; SStub] /\ hwm (nmem s) = 2 /\
  map (allow (nmem s)) [0; 1; 2] = [false; false; true] /\ ninv (nmem s) = 1.
Proof. vm_compute. repeat split. Qed.

(** forget_channel as it was before the repair did not write the tracker entry that holds the
    forget flag: a restart forgot that the node had forgotten the channel. *)
Example C11_old_forget_refuted :
  let s := forget_old (nrun ninit [NewChannel 1; SetupChannel 1]) 1 in
  slots (nmem s) 1 = SForgot /\ slots (nrestore (ndsk s)) 1 = SReady.
Proof. vm_compute. split; reflexivity. Qed.
