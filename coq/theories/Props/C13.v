(** C13 — the chain tracker follows only validated blocks and rejects atomically.
    Statements only; proofs are in Proofs/TrackerProofs.v.  The model ([Model/Tracker.v],
    variant [fixed]) is the repaired [ChainTracker]: the header window is popped after
    validation, and a refused streamed block drops every decode state. *)
From VLS Require Import Base.U64 Model.Tracker Model.TrackerCheck Proofs.TrackerProofs.

(** For every configuration, every start state and every sequence of add / remove / chunk
    requests: whenever a request is accepted, the block it adds (or removes) links to the
    previous tip (resp. to the header it retreats to), meets its proof-of-work target, obeys
    the retarget rules at that height, and -- unless the previous filter header is all zero
    or the policy filter downgrades the tag -- its proof verified against the watches and at
    least half of the trusted oracles attested ([block_valid]); the tip, height and window
    move by exactly that block; a removal retreats to the remembered parent (or, beyond the
    window, only when deep reorgs are allowed); chunks move nothing; a restart from the store
    moves nothing either, except that a tracker still at height 0 on a network with a
    compiled-in checkpoint is fast-forwarded to that checkpoint. *)
Theorem C13_advance_only_valid :
  forall (c : cfg) (s0 : tstate) (rs : list req),
    Forall (fun '(s, r, s', res) => res = Ok -> accepted_ok c s r s') (steps fixed c s0 rs).
Proof. intros c s0 rs. apply history_ok_valid. Qed.
Print Assumptions C13_advance_only_valid.

(** With a filter that does not downgrade policy-chain-validated, the only way past the
    proof is the documented one: a previous header recorded without a filter header. *)
Theorem C13_proof_or_documented_bypass :
  forall (c : cfg) (ht : N) (prev hd : headers) (p : proofinfo) (is_remove : bool),
    warn c = false -> block_valid c ht prev hd p is_remove ->
    snd prev = 0 \/ (pok p is_remove = true /\ half_attesting c p).
Proof. exact block_valid_strict. Qed.
Print Assumptions C13_proof_or_documented_bypass.

(** The quorum counts trusted oracles that attest, not attestations: it depends only on the
    set of attesting keys (repeating one oracle's attestation cannot raise it), and it never
    exceeds the number of trusted oracles. *)
Theorem C13_quorum_counts_distinct_oracles :
  forall (c : cfg) (p p' : proofinfo),
    (forall k, In k (attesters p) <-> In k (attesters p')) ->
    key_matches c p = key_matches c p' /\ key_matches c p <= N.of_nat (length (trusted c)).
Proof.
  intros c p p' H. split; [apply key_matches_set; exact H | apply key_matches_le_trusted].
Qed.
Print Assumptions C13_quorum_counts_distinct_oracles.

(** A refused request leaves tip, height, remembered headers, watches and monitor states
    exactly as before ([view]); the whole state is the one before the request, minus the
    block stream that belonged to a refused streamed request. *)
Theorem C13_reject_atomic :
  forall (c : cfg) (s0 : tstate) (rs : list req),
    Forall (fun '(s, r, s', res) =>
              forall e, res = Err e -> view s' = view s /\ s' = settled r s)
           (steps fixed c s0 rs).
Proof. intros c s0 rs. apply history_err_atomic. Qed.
Print Assumptions C13_reject_atomic.

(** ... so a later correct request still succeeds: after any refusal in any history, a
    correct compact add, a correct compact remove, and a correct streamed add are accepted. *)
Theorem C13_later_request_succeeds :
  forall (c : cfg) (s0 : tstate) (rs : list req),
    Forall (fun '(s, r, s', res) => forall e, res = Err e -> later_ok c s r s')
           (steps fixed c s0 rs).
Proof. intros c s0 rs. apply history_later_ok. Qed.
Print Assumptions C13_later_request_succeeds.

(** In every history the listeners hold a block decode state only while the tracker itself
    is in the middle of a stream (so the first chunk of a block never meets a stale one). *)
Theorem C13_no_stale_decode :
  forall (c : cfg) (rs : list req) (s0 : tstate), clean s0 -> clean (run fixed c s0 rs).
Proof. exact history_clean. Qed.
Print Assumptions C13_no_stale_decode.

(** In every history the remembered headers stay a hash-linked chain below the tip, at most
    MAX_REORG_SIZE long. *)
Theorem C13_window_linked :
  forall (c : cfg) (rs : list req) (s0 : tstate), window_ok s0 -> window_ok (run fixed c s0 rs).
Proof. exact history_window_ok. Qed.
Print Assumptions C13_window_linked.

(** * Non-vacuity: a concrete history with accepted and refused requests of every kind *)
Definition bits0 : N := 545259519.   (* 0x207fffff *)
Definition hd (k : N) : hdr := mkhdr k (k - 1) true bits0 0.
Definition cfg0 : cfg := mkcfg Regtest [1; 2; 3] false false Debug None.
Definition st0 : tstate :=
  mkts [(hd 9, 9); (hd 8, 8)] (hd 10, 10) 10 [mkslot 1 [1] [] [] 1] None false.
Definition good (t : ptype) (fh : N) (d : list N * list N * N) : proofinfo :=
  mkproof t (Some fh) true true [1; 3] (Some [d]).
Definition hist0 : list req :=
  [ Add (hd 11) (good PFilter 11 ([5], [], 2));                         (* accepted *)
    Remove (hd 10, 10) (mkproof PFilter (Some 11) false false [1; 3] (Some [([5], [], 1)]));
                                                                        (* proof for another block *)
    Remove (hd 10, 10) (good PFilter 11 ([5], [], 1));                  (* the correct removal *)
    Add (mkhdr 11 10 false bits0 0) (good PFilter 11 ([], [], 2));      (* bad proof of work *)
    Add (mkhdr 11 10 true 541065215 0) (good PFilter 11 ([], [], 2));   (* other bits off the boundary *)
    Chunk 12 true true true [1];
    Add (mkhdr 12 10 true bits0 0) (mkproof PExternal (Some 12) true true [1] (Some [([], [], 2)]));
                                                                        (* one of three trusted oracles *)
    Chunk 12 true true true [1];
    Add (mkhdr 12 10 true bits0 0) (good PExternal 12 ([], [], 2)) ].   (* the correct streamed add *)

Example C13_nonvacuous :
  map fst (trace fixed cfg0 st0 hist0) = [0; 6; 0; 3; 1; 0; 6; 0; 0] /\
  view_of (run fixed cfg0 st0 hist0) =
    (11, (12, 12), [(10, 10); (9, 9); (8, 8)], [(1, [1], [], [], 2)]) /\
  (* the hypotheses of [later_ok] are met by the requests that follow the refusals *)
  correct_remove cfg0 (run fixed cfg0 st0 (firstn 1 hist0)) (hd 10, 10) (good PFilter 11 ([5], [], 1)) /\
  correct_add cfg0 (run fixed cfg0 st0 (firstn 6 hist0)) (mkhdr 12 10 true bits0 0) (good PExternal 12 ([], [], 2)).
Proof.
  split; [vm_compute; reflexivity|]. split; [vm_compute; reflexivity|].
  split.
  - unfold correct_remove. vm_compute. repeat split; try congruence; try lia.
  - unfold correct_add. vm_compute. repeat split; try congruence; try lia. exists 12. reflexivity.
Qed.

(** one of three trusted oracles, its attestation repeated three times (plus an untrusted
    oracle): refused on the way up and on the way down; two distinct trusted oracles pass *)
Example C13_repeated_attestation_refused :
  let rep := mkproof PFilter (Some 11) true true [1; 1; 1; 7] (Some [([], [], 2)]) in
  let two := mkproof PFilter (Some 11) true true [3; 1] (Some [([], [], 2)]) in
  key_matches cfg0 rep = 1 /\ required_majority cfg0 = 2 /\
  step fixed cfg0 st0 (Add (hd 11) rep) = (st0, Err InvalidProof) /\
  snd (step fixed cfg0 st0 (Add (hd 11) two)) = Ok /\
  (let s1 := fst (step fixed cfg0 st0 (Add (hd 11) two)) in
   step fixed cfg0 s1 (Remove (hd 10, 10) rep) = (s1, Err InvalidProof) /\
   snd (step fixed cfg0 s1 (Remove (hd 10, 10) two)) = Ok).
Proof. vm_compute. repeat split. Qed.

(** a restart moves nothing once the tracker has left height 0, also on a network with a
    checkpoint; only a tracker still at height 0 is fast-forwarded to it *)
Example C13_restart_examples :
  let ck := ((mkhdr 900 899 true 436469756 0, 77), 2862000) in
  let c := mkcfg Testnet [1; 2; 3] false true Debug (Some ck) in
  let s5 := mkts [(hd 9, 9)] (hd 10, 10) 5 [mkslot 1 [1] [4] [] 3] (Some (12, true)) true in
  let s0 := mkts [] (hd 10, 10) 0 [mkslot 1 [1] [] [] 3] None false in
  view (fst (step fixed c s5 (Restart [3]))) = view s5 /\
  quiet (fst (step fixed c s5 (Restart [3]))) /\
  view (fst (step fixed c s0 (Restart [3]))) = ([], fst ck, 2862000, [mkslot 1 [1] [] [] 3]) /\
  view (fst (step fixed cfg0 s0 (Restart [3]))) = view s0.
Proof. vm_compute. repeat split. Qed.

(** the retarget window at an interval boundary: same bits and a halved target pass, an
    eighth does not, and nothing passes above the chain maximum *)
Example C13_retarget_examples :
  let c := mkcfg Regtest [] false false Debug None in
  chain_rule c 2015 (mkhdr 1 0 true 520159231 0) (mkhdr 2 1 true 520159231 0) = ROk /\
  chain_rule c 2015 (mkhdr 1 0 true 520159231 0) (mkhdr 2 1 true 511704960 0) = ROk /\
  chain_rule c 2015 (mkhdr 1 0 true 520159231 0) (mkhdr 2 1 true 505413600 0) = RErr InvalidChain /\
  chain_rule c 2015 (mkhdr 1 0 true bits0 0) (mkhdr 2 1 true 553713663 0) = RErr InvalidBlock /\
  chain_rule c 2014 (mkhdr 1 0 true 520159231 0) (mkhdr 2 1 true 511704960 0) = RErr InvalidChain.
Proof. vm_compute. repeat split. Qed.

(** * The code before the repairs violates the property *)

(** [remove_block] popped the window before validating: a removal refused for its proof loses
    a remembered header, and the correct removal that follows is refused (InvalidChain). *)
Example C13_old_remove_refuted :
  exists (c : cfg) (s : tstate) (prev : headers) (bad good : proofinfo) (s' : tstate) (e : err),
    step (mkvar true true) c s (Remove prev bad) = (s', Err e) /\
    view s' <> view s /\
    pty good = PFilter /\ correct_remove c s prev good /\
    snd (step (mkvar true true) c s' (Remove prev good)) = Err InvalidChain.
Proof.
  exists cfg0, (run fixed cfg0 st0 (firstn 1 hist0)), (hd 10, 10),
         (mkproof PFilter (Some 11) false false [1; 3] (Some [([5], [], 1)])),
         (good PFilter 11 ([5], [], 1)).
  eexists. exists InvalidProof.
  split; [vm_compute; reflexivity|].
  split; [vm_compute; congruence|].
  split; [reflexivity|].
  split; [unfold correct_remove; vm_compute; repeat split; try congruence; try lia|].
  vm_compute. reflexivity.
Qed.

(** a refused streamed block left the listeners' decode state behind: the stream of the next
    (correct) block panics at its first chunk. *)
Example C13_old_streamed_refuted :
  exists (c : cfg) (s : tstate) (h : hdr) (bad good : proofinfo) (s1 s2 : tstate) (e : err),
    quiet s /\
    step (mkvar false false) c s (Chunk (hid h) true true true [1]) = (s1, Ok) /\
    step (mkvar false false) c s1 (Add h bad) = (s2, Err e) /\
    pty good = PExternal /\ correct_add c s h good /\
    snd (step (mkvar false false) c s2 (Chunk (hid h) true true true [1])) = Abort.
Proof.
  exists cfg0, st0, (hd 11),
         (mkproof PExternal (Some 11) true true [1] (Some [([], [], 2)])),
         (good PExternal 11 ([], [], 2)).
  eexists. eexists. exists InvalidProof.
  split; [split; reflexivity|].
  split; [vm_compute; reflexivity|].
  split; [vm_compute; reflexivity|].
  split; [reflexivity|].
  split; [unfold correct_add; vm_compute; repeat split; try congruence; try lia; exists 11; reflexivity|].
  vm_compute. reflexivity.
Qed.

Check C13_advance_only_valid.
Check C13_reject_atomic.
Check C13_later_request_succeeds.
