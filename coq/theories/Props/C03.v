(** C03 — counterparty commitments advance only over properly revoked predecessors.
    Statements only; proofs are in Proofs/CounterpartyProofs.v (state machine) and
    Proofs/SecretsProofs.v (compact secret store). *)
From VLS Require Import Base.U64 Model.Enforcement Model.Secrets
  Proofs.EnforcementProofs Proofs.CounterpartyProofs Proofs.SecretsProofs.
From VLS Require Gen.EnforcementGen Proofs.EnforcementGenProofs.

Definition c03_filter (warn : tag -> bool) : Prop :=
  warn TPrevRevoked = false /\ warn TRetrySame = false /\ warn TOther = false.

(** A counterparty signature is returned only by a signing request for a number [n] such that
    every number below [n-1] has been revoked by an accepted revocation — for every history,
    both build profiles. *)
Theorem C03_sign_needs_revocations :
  forall (warn : tag -> bool) (prof : profile) (ops : list op) (o : op) (n : N) (p : point) (c : content),
    c03_filter warn -> Forall wf_op ops -> wf_op o ->
    o_cpsig (snd (gstep warn prof (grun warn prof (Stub, ghost0) ops) o)) = Some (n, p, c) ->
    (exists pl, o = SignCp n p c pl) /\
    forall j, j + 1 < n ->
      exists p', In (j, p') (cprevoked (snd (grun warn prof (Stub, ghost0) ops))).
Proof.
  intros warn prof ops o n p c [W5 [W6 W4]].
  exact (sign_needs_revocations warn prof W5 W6 W4 ops o n p c).
Qed.
Print Assumptions C03_sign_needs_revocations.

(** At every moment every signed counterparty commitment is either revoked or one of the two
    numbers [next_revoke], [next_revoke+1]: at most two unrevoked commitments carry a signature. *)
Theorem C03_at_most_two_unrevoked :
  forall (warn : tag -> bool) (prof : profile) (ops : list op) (ch : chan) (n : N) (p : point) (c : content),
    c03_filter warn -> Forall wf_op ops ->
    fst (grun warn prof (Stub, ghost0) ops) = Ready ch ->
    In (n, p, c) (cpsigned (snd (grun warn prof (Stub, ghost0) ops))) ->
    (exists p', In (n, p') (cprevoked (snd (grun warn prof (Stub, ghost0) ops)))) \/
    (next_r (mem ch) <= n /\ n < next_r (mem ch) + 2).
Proof.
  intros warn prof ops ch n p c [W5 [W6 W4]].
  exact (window warn prof W5 W6 W4 ops ch n p c).
Qed.
Print Assumptions C03_at_most_two_unrevoked.

(** An accepted revocation of [r] carried a secret whose public point is a point that was
    signed for [r] (and by [C03_resign_same] there is only one such point). *)
Theorem C03_revocation_matches_signed_point :
  forall (warn : tag -> bool) (prof : profile) (ops : list op) (r : N) (p : point),
    c03_filter warn -> Forall wf_op ops ->
    In (r, p) (cprevoked (snd (grun warn prof (Stub, ghost0) ops))) ->
    exists c, In (r, p, c) (cpsigned (snd (grun warn prof (Stub, ghost0) ops))).
Proof.
  intros warn prof ops r p [W5 [W6 W4]].
  exact (revocation_matches_signed_point warn prof W5 W6 W4 ops r p).
Qed.
Print Assumptions C03_revocation_matches_signed_point.

(** A number is signed again only for the identical point and content. *)
Theorem C03_resign_same :
  forall (warn : tag -> bool) (prof : profile) (ops : list op) (n : N) (p1 p2 : point) (c1 c2 : content),
    c03_filter warn -> Forall wf_op ops ->
    In (n, p1, c1) (cpsigned (snd (grun warn prof (Stub, ghost0) ops))) ->
    In (n, p2, c2) (cpsigned (snd (grun warn prof (Stub, ghost0) ops))) ->
    p1 = p2 /\ c1 = c2.
Proof.
  intros warn prof ops n p1 p2 c1 c2 [W5 [W6 W4]].
  exact (resign_same warn prof W5 W6 W4 ops n p1 c1 p2 c2).
Qed.
Print Assumptions C03_resign_same.

(** The compact store (Model/Secrets.v, VLS's CounterpartyCommitmentSecrets): a secret it
    accepts derives, under the BOLT-3 tree, every secret stored in a lower slot; and the whole
    descending sequence of a tree is accepted and retrievable (with at most 49 entries). *)
Theorem C03_store_accepts_only_consistent :
  forall (S : Type) (H : S -> S) (flip : nat -> S -> S) (eqS : S -> S -> bool),
    (forall a b, eqS a b = true -> a = b) ->
    forall (st : store S) (idx : N) (s : S) (st' : store S) (i : nat) (o : S) (oi : N),
      provide_secret S H flip eqS st idx s = (st', true) ->
      (i < place_secret idx)%nat -> nth_error st i = Some (o, oi) ->
      derive_secret S H flip s (place_secret idx) oi = o.
Proof. exact provide_accepted_derives. Qed.
Print Assumptions C03_store_accepts_only_consistent.

Theorem C03_store_keeps_the_tree :
  forall (S : Type) (H : S -> S) (flip : nat -> S -> S) (eqS : S -> S -> bool),
    (forall s, eqS s s = true) ->
    forall (seed : S) (n : nat), N.of_nat n <= TWO48 ->
      exists st, feed_first S H flip eqS seed n = (st, true) /\ (length st <= 49)%nat /\
        forall c, (c < n)%nat ->
          get_secret S H flip st (idx_of_commit c) =
          @Found S (build_commitment_secret S H flip seed (idx_of_commit c)).
Proof. exact feed_first_ok. Qed.
Print Assumptions C03_store_keeps_the_tree.

(** Non-vacuity: a history with two accepted revocations, a refused one (wrong point), a
    retry with identical content and a refused retry with changed content. *)
Example C03_nonvacuous :
  let ops := [Setup; SignCp 0 1000 0 true; SignCp 1 1001 4 true; SignCp 1 1001 4 true;
              SignCp 1 1001 5 true; ValidateRevocation 0 1007 7 true; ValidateRevocation 0 1000 0 true;
              SignCp 3 1003 4 true; SignCp 2 1002 5 true; ValidateRevocation 1 1001 1 true;
              Restart; SignCp 3 1003 6 true] in
  Forall wf_op ops /\
  cpsigned (snd (grun strict Debug (Stub, ghost0) ops)) =
    [(3, 1003, 6); (2, 1002, 5); (1, 1001, 4); (1, 1001, 4); (0, 1000, 0)] /\
  cprevoked (snd (grun strict Debug (Stub, ghost0) ops)) = [(1, 1001); (0, 1000)].
Proof.
  cbv zeta. split; [repeat constructor; cbv; discriminate|]. vm_compute. split; reflexivity.
Qed.

(** The two state updates the counterparty side of the model rests on are the ones in the source:
    Gen/EnforcementGen.v is the statement-by-statement translation of
    [EnforcementState::set_next_counterparty_commit_num] and [::set_next_counterparty_revoke_num]
    (vls-core/src/policy/validator.rs, regenerated on every run by tools/gen_rustfn.py), and for
    counters below 2^64-1 it computes, in both build profiles, exactly the model's [set_cp_commit] /
    [set_cp_revoke] - the same panic on a zero number, the same fields moved, cleared and kept. *)
Theorem C03_commit_update_is_source :
  forall (prof : profile) (fr : EnforcementGenProofs.frame) (e : estate) (num : N) (pt : point) (c : content),
    next_c e < U64MAX ->
    EnforcementGen.gen_set_next_counterparty_commit_num prof (EnforcementGenProofs.to_res fr e) num pt c =
    match set_cp_commit e num pt c with
    | Some e' => Val (EnforcementGenProofs.to_res fr e')
    | None => Trap
    end.
Proof. exact EnforcementGenProofs.gen_set_cp_commit_is_model. Qed.
Print Assumptions C03_commit_update_is_source.

Theorem C03_revoke_update_is_source :
  forall (prof : profile) (fr : EnforcementGenProofs.frame) (e : estate) (num : N) (secs : list (N * N)),
    num < U64MAX ->
    EnforcementGen.gen_set_next_counterparty_revoke_num prof (EnforcementGenProofs.to_res fr e) num =
    match set_cp_revoke e num secs with
    | Some e' => Val (EnforcementGenProofs.to_res fr e')
    | None => Trap
    end.
Proof. exact EnforcementGenProofs.gen_set_cp_revoke_is_model. Qed.
Print Assumptions C03_revoke_update_is_source.

(** ... and so are the two look-ups behind the retry rules ("a number is signed again only for the
    identical point and content"; "an accepted revocation carries the secret of the point signed
    for that number"): [num + 2] is only evaluated when [num + 1] is not the next number. *)
Theorem C03_previous_point_lookup_is_source :
  forall (prof : profile) (fr : EnforcementGenProofs.frame) (e : estate) (num : N),
    num + 2 <= U64MAX ->
    EnforcementGen.gen_get_previous_counterparty_point prof (EnforcementGenProofs.to_res fr e) num =
    Val (prev_point_for e (num + 1) (num + 2)).
Proof. exact EnforcementGenProofs.gen_prev_point_is_model. Qed.
Print Assumptions C03_previous_point_lookup_is_source.

Theorem C03_previous_info_lookup_is_source :
  forall (prof : profile) (fr : EnforcementGenProofs.frame) (e : estate) (num : N),
    num + 2 <= U64MAX ->
    EnforcementGen.gen_get_previous_counterparty_commit_info prof (EnforcementGenProofs.to_res fr e) num =
    Val (prev_info_for e (num + 1) (num + 2)).
Proof. exact EnforcementGenProofs.gen_prev_info_is_model. Qed.
Print Assumptions C03_previous_info_lookup_is_source.
