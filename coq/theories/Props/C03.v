(** C03 — counterparty commitments advance only over properly revoked predecessors.
    Statements only; proofs are in Proofs/CounterpartyProofs.v (state machine) and
    Proofs/SecretsProofs.v (compact secret store). *)
From VLS Require Import Base.U64 Model.Enforcement Model.Secrets
  Proofs.EnforcementProofs Proofs.CounterpartyProofs Proofs.SecretsProofs.
From VLS Require Gen.EnforcementGen Proofs.EnforcementGenProofs.
From Coq Require String.
From VLS Require Gen.EnforcementRulesGen Proofs.EnforcementRulesGenProofs Proofs.RustFacts.

Definition c03_filter (warn : tag -> bool) : Prop :=
  warn TPrevRevoked = false /\ warn TRetrySame = false /\ warn TOther = false.

(** A counterparty signature is returned only by a signing request for a number [n] such that
    every number below [n-1] has been revoked by an accepted revocation — for every history,
    both build profiles. *)
Theorem C03_sign_needs_revocations :
  forall (warn : tag -> bool) (prof : profile) (ops : list op) (o : op) (n : N) (p : point) (c : content),
    c03_filter warn -> Forall wf_op ops -> wf_op o ->
    o_cpsig (snd (gstep warn prof (grun warn prof (Stub, ghost0) ops) o)) = Some (n, p, c) ->
    (exists pl, o = SignCp n p c pl) /\
    forall j, j + 1 < n ->
      exists p', In (j, p') (cprevoked (snd (grun warn prof (Stub, ghost0) ops))).
Proof.
  intros warn prof ops o n p c [W5 [W6 W4]].
  exact (sign_needs_revocations warn prof W5 W6 W4 ops o n p c).
Qed.
Print Assumptions C03_sign_needs_revocations.

(** At every moment every signed counterparty commitment is either revoked or one of the two
    numbers [next_revoke], [next_revoke+1]: at most two unrevoked commitments carry a signature. *)
Theorem C03_at_most_two_unrevoked :
  forall (warn : tag -> bool) (prof : profile) (ops : list op) (ch : chan) (n : N) (p : point) (c : content),
    c03_filter warn -> Forall wf_op ops ->
    fst (grun warn prof (Stub, ghost0) ops) = Ready ch ->
    In (n, p, c) (cpsigned (snd (grun warn prof (Stub, ghost0) ops))) ->
    (exists p', In (n, p') (cprevoked (snd (grun warn prof (Stub, ghost0) ops)))) \/
    (next_r (mem ch) <= n /\ n < next_r (mem ch) + 2).
Proof.
  intros warn prof ops ch n p c [W5 [W6 W4]].
  exact (window warn prof W5 W6 W4 ops ch n p c).
Qed.
Print Assumptions C03_at_most_two_unrevoked.

(** An accepted revocation of [r] carried a secret whose public point is a point that was
    signed for [r] (and by [C03_resign_same] there is only one such point). *)
Theorem C03_revocation_matches_signed_point :
  forall (warn : tag -> bool) (prof : profile) (ops : list op) (r : N) (p : point),
    c03_filter warn -> Forall wf_op ops ->
    In (r, p) (cprevoked (snd (grun warn prof (Stub, ghost0) ops))) ->
    exists c, In (r, p, c) (cpsigned (snd (grun warn prof (Stub, ghost0) ops))).
Proof.
  intros warn prof ops r p [W5 [W6 W4]].
  exact (revocation_matches_signed_point warn prof W5 W6 W4 ops r p).
Qed.
Print Assumptions C03_revocation_matches_signed_point.

(** A number is signed again only for the identical point and content. *)
Theorem C03_resign_same :
  forall (warn : tag -> bool) (prof : profile) (ops : list op) (n : N) (p1 p2 : point) (c1 c2 : content),
    c03_filter warn -> Forall wf_op ops ->
    In (n, p1, c1) (cpsigned (snd (grun warn prof (Stub, ghost0) ops))) ->
    In (n, p2, c2) (cpsigned (snd (grun warn prof (Stub, ghost0) ops))) ->
    p1 = p2 /\ c1 = c2.
Proof.
  intros warn prof ops n p1 p2 c1 c2 [W5 [W6 W4]].
  exact (resign_same warn prof W5 W6 W4 ops n p1 c1 p2 c2).
Qed.
Print Assumptions C03_resign_same.

(** The compact store (Model/Secrets.v, VLS's CounterpartyCommitmentSecrets): a secret it
    accepts derives, under the BOLT-3 tree, every secret stored in a lower slot; and the whole
    descending sequence of a tree is accepted and retrievable (with at most 49 entries). *)
Theorem C03_store_accepts_only_consistent :
  forall (S : Type) (H : S -> S) (flip : nat -> S -> S) (eqS : S -> S -> bool),
    (forall a b, eqS a b = true -> a = b) ->
    forall (st : store S) (idx : N) (s : S) (st' : store S) (i : nat) (o : S) (oi : N),
      provide_secret S H flip eqS st idx s = (st', true) ->
      (i < place_secret idx)%nat -> nth_error st i = Some (o, oi) ->
      derive_secret S H flip s (place_secret idx) oi = o.
Proof. exact provide_accepted_derives. Qed.
Print Assumptions C03_store_accepts_only_consistent.

Theorem C03_store_keeps_the_tree :
  forall (S : Type) (H : S -> S) (flip : nat -> S -> S) (eqS : S -> S -> bool),
    (forall s, eqS s s = true) ->
    forall (seed : S) (n : nat), N.of_nat n <= TWO48 ->
      exists st, feed_first S H flip eqS seed n = (st, true) /\ (length st <= 49)%nat /\
        forall c, (c < n)%nat ->
          get_secret S H flip st (idx_of_commit c) =
          @Found S (build_commitment_secret S H flip seed (idx_of_commit c)).
Proof. exact feed_first_ok. Qed.
Print Assumptions C03_store_keeps_the_tree.

(** Non-vacuity: a history with two accepted revocations, a refused one (wrong point), a
    retry with identical content and a refused retry with changed content. *)
Example C03_nonvacuous :
  let ops := [Setup; SignCp 0 1000 0 true; SignCp 1 1001 4 true; SignCp 1 1001 4 true;
              SignCp 1 1001 5 true; ValidateRevocation 0 1007 7 true; ValidateRevocation 0 1000 0 true;
              SignCp 3 1003 4 true; SignCp 2 1002 5 true; ValidateRevocation 1 1001 1 true;
              Restart; SignCp 3 1003 6 true] in
  Forall wf_op ops /\
  cpsigned (snd (grun strict Debug (Stub, ghost0) ops)) =
    [(3, 1003, 6); (2, 1002, 5); (1, 1001, 4); (1, 1001, 4); (0, 1000, 0)] /\
  cprevoked (snd (grun strict Debug (Stub, ghost0) ops)) = [(1, 1001); (0, 1000)].
Proof.
  cbv zeta. split; [repeat constructor; cbv; discriminate|]. vm_compute. split; reflexivity.
Qed.

(** The two state updates the counterparty side of the model rests on are the ones in the source:
    Gen/EnforcementGen.v is the statement-by-statement translation of
    [EnforcementState::set_next_counterparty_commit_num] and [::set_next_counterparty_revoke_num]
    (vls-core/src/policy/validator.rs, regenerated on every run by tools/gen_rustfn.py), and for
    counters below 2^64-1 it computes, in both build profiles, exactly the model's [set_cp_commit] /
    [set_cp_revoke] - the same panic on a zero number, the same fields moved, cleared and kept. *)
Theorem C03_commit_update_is_source :
  forall (prof : profile) (fr : EnforcementGenProofs.frame) (e : estate) (num : N) (pt : point) (c : content),
    next_c e < U64MAX ->
    EnforcementGen.gen_set_next_counterparty_commit_num prof (EnforcementGenProofs.to_res fr e) num pt c =
    match set_cp_commit e num pt c with
    | Some e' => Val (EnforcementGenProofs.to_res fr e')
    | None => Trap
    end.
Proof. exact EnforcementGenProofs.gen_set_cp_commit_is_model. Qed.
Print Assumptions C03_commit_update_is_source.

Theorem C03_revoke_update_is_source :
  forall (prof : profile) (fr : EnforcementGenProofs.frame) (e : estate) (num : N) (secs : list (N * N)),
    num < U64MAX ->
    EnforcementGen.gen_set_next_counterparty_revoke_num prof (EnforcementGenProofs.to_res fr e) num =
    match set_cp_revoke e num secs with
    | Some e' => Val (EnforcementGenProofs.to_res fr e')
    | None => Trap
    end.
Proof. exact EnforcementGenProofs.gen_set_cp_revoke_is_model. Qed.
Print Assumptions C03_revoke_update_is_source.

(** ... and so are the two look-ups behind the retry rules ("a number is signed again only for the
    identical point and content"; "an accepted revocation carries the secret of the point signed
    for that number"): [num + 2] is only evaluated when [num + 1] is not the next number. *)
Theorem C03_previous_point_lookup_is_source :
  forall (prof : profile) (fr : EnforcementGenProofs.frame) (e : estate) (num : N),
    num + 2 <= U64MAX ->
    EnforcementGen.gen_get_previous_counterparty_point prof (EnforcementGenProofs.to_res fr e) num =
    Val (prev_point_for e (num + 1) (num + 2)).
Proof. exact EnforcementGenProofs.gen_prev_point_is_model. Qed.
Print Assumptions C03_previous_point_lookup_is_source.

Theorem C03_previous_info_lookup_is_source :
  forall (prof : profile) (fr : EnforcementGenProofs.frame) (e : estate) (num : N),
    num + 2 <= U64MAX ->
    EnforcementGen.gen_get_previous_counterparty_commit_info prof (EnforcementGenProofs.to_res fr e) num =
    Val (prev_info_for e (num + 1) (num + 2)).
Proof. exact EnforcementGenProofs.gen_prev_info_is_model. Qed.
Print Assumptions C03_previous_info_lookup_is_source.

(** The decisions in front of those updates are the ones in the source as well.  Gen/EnforcementRulesGen.v is
    the statement-by-statement translation of SimpleValidator's validate_counterparty_commitment_tx
    (whole body; the answer [v] of its call of validate_commitment_tx - the model's [pol_ok] - is a
    parameter) and validate_counterparty_revocation, over the EnforcementState record of
    Gen/EnforcementGen.v and calling its look-ups.  Outcomes are compared without the tag
    ([status_of]: accepted / refused / panic); the source's filter is a function of the tag string,
    read on the names of the model's tags by [etag_filter] (TPrevRevoked =
    policy-commitment-previous-revoked, TRetrySame = policy-commitment-retry-same: one source tag each).

    Signing.  After the content verdict the source decides what [do_sign_cp] decides in front of the
    setter guards: refused when [next_r e + 1 < n] (unless policy-commitment-previous-revoked is
    downgraded), abort when [n + 1] overflows, and then [validate_cp_state e n n1 n2 pt c] - on a retry
    ([n + 1 = next_c e]) the point must be the current point and the content the current content (each
    policy-commitment-retry-same).  [n2] is arbitrary: it is read only through [prev_info_for] in the
    retry branch, where the answer does not depend on it, and the source does not compute [n + 2] there.
    Side condition [next_r e < U64MAX]: the source computes next_counterparty_revoke_num + 1 with a
    plain [+]. *)
Theorem C03_sign_window_is_source :
  forall (prof : profile) (swarn : String.string -> bool) (fr : EnforcementGenProofs.frame) (e : estate)
         (v : trap (Rust.result unit)) (n : N) (pt : point) (setup cstate : N) (c : content) (n2 : N),
    next_r e < U64MAX ->
    RustFacts.status_of
      (EnforcementRulesGen.gen_validate_counterparty_commitment_tx prof swarn v
         (EnforcementGenProofs.to_res fr e) n pt setup cstate c) =
    EnforcementRulesGenProofs.after_content v
      (if (next_r e + 1 <? n) && perr (EnforcementRulesGenProofs.etag_filter swarn) TPrevRevoked
       then Some false
       else match add_p prof n 1 with
            | Trap => None
            | Val n1 => Some (validate_cp_state (EnforcementRulesGenProofs.etag_filter swarn) e n n1 n2 pt c)
            end).
Proof. exact EnforcementRulesGenProofs.gen_cp_checks_are_model. Qed.
Print Assumptions C03_sign_window_is_source.

(** Revocation.  The source decides what [do_revocation] decides up to [revocation_checks]: abort when
    [r + 1] overflows; [r + 2] is computed only when [r + 1] is not the next commitment number, and on
    its overflow the request is refused if the number check refuses and aborts otherwise; then
    [revocation_checks e r r1 r2 pt_of_secret]: [r] is the next number to revoke or the one before, and
    the point of the supplied secret is the point signed for [r].  The point of the secret is
    [point_of ctx secret] for an uninterpreted [point_of] (PublicKey::from_secret_key) - the model's
    oracle input.  No side condition. *)
Theorem C03_revocation_checks_are_source :
  forall (prof : profile) (swarn : String.string -> bool) (fr : EnforcementGenProofs.frame) (e : estate)
         (ctx : N) (point_of : N -> N -> N) (r secret : N),
    RustFacts.status_of
      (EnforcementRulesGen.gen_validate_counterparty_revocation prof swarn ctx point_of
         (EnforcementGenProofs.to_res fr e) r secret) =
    match add_p prof r 1 with
    | Trap => None
    | Val r1 =>
        match (if r1 =? next_c e then Val 0 else add_p prof r 2) with
        | Trap =>
            if negb (r =? next_r e) && negb (r1 =? next_r e)
               && perr (EnforcementRulesGenProofs.etag_filter swarn) TPrevRevoked
            then Some false else None
        | Val r2 =>
            Some (revocation_checks (EnforcementRulesGenProofs.etag_filter swarn) e r r1 r2 (point_of ctx secret))
        end
    end.
Proof. exact EnforcementRulesGenProofs.gen_revocation_checks_are_model. Qed.
Print Assumptions C03_revocation_checks_are_source.
