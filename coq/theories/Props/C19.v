(** C19 — protocol messages survive the wire unchanged.
    Statements only.  The per-struct codecs, the message sum [msg] and the dispatch [table]
    are regenerated from vls-protocol/src/{msgs,model}.rs by tools/gen_wire.py on every run
    (Gen/WireGen.v), so every theorem below is re-proved about what the source says now.
    Transaction / PSBT / TxoProof contents are opaque ([blob_ops]); their own round trips are
    the premise [blob_laws] (trusted: rust-bitcoin, txoo). *)
From Coq Require Import String.
From Coq Require Import List NArith Bool Lia.
From VLS Require Import Base.Codec Model.Wire Proofs.WireProofs Gen.WireGen.
Import ListNotations.
Open Scope N_scope.

(** No two arms of `Message::read_message` carry the same type id (computed over the
    generated table).  THIS is the obligation that fails when two messages share an id. *)
Theorem C19_ids_unique : forall B : blob_ops, NoDup (map e_id (table B)).
Proof. intros B. rewrite table_ids_ok. apply nodupb_NoDup. vm_compute. reflexivity. Qed.
Print Assumptions C19_ids_unique.

(** Every message struct of the registry: the dispatch table has an arm for it under its own
    id, and that arm's decoder inverts its encoder, consuming exactly the encoding.  (For every
    struct that is not closed by a TLV option stream, nested ones included, Gen/WireGen.v
    proves the stronger rt_T: the encoding followed by anything decodes to the value and
    exactly that rest.) *)
Theorem C19_struct_codecs :
  forall B : blob_ops, blob_laws B -> forall m : msg B, wf_msg B m = true ->
    fits 2 (msg_id B m) = true /\
    exists e, In e (table B) /\ e_id e = msg_id B m /\ e_dec e (enc_msg B m) = Some (m, []).
Proof. exact table_complete. Qed.
Print Assumptions C19_struct_codecs.

(** The property: for every message type of the registry and all field values — [wf_msg]:
    integers in their Rust type's range, fixed arrays of their length, Octets < 2^16 bytes and
    WireStrings without NUL (as_vec panics otherwise), array counts < 2^16, embedded blobs
    <= MAX_VEC_SIZE, streamed PSBTs consistent — whose encoding fits MAX_MESSAGE_SIZE,
    msgs::from_vec (as_vec m) is Ok of the same type with equal fields. *)
Theorem C19_registry :
  forall B : blob_ops, blob_laws B -> forall m : msg B,
    wf_msg B m = true ->
    lenN (as_vec B m) <= MAX_MESSAGE_SIZE ->
    from_vec MAX_MESSAGE_SIZE (table B) (as_vec B m) = Some (Known m).
Proof.
  intros B HB m Hw Hs. unfold as_vec in *.
  apply (registry_roundtrip MAX_MESSAGE_SIZE (table B) (msg_id B) (enc_msg B) (wf_msg B)).
  - apply C19_ids_unique.
  - apply table_complete. exact HB.
  - exact Hw.
  - exact Hs.
Qed.
Print Assumptions C19_registry.

(** Of the conditions in [wf_msg], the array-count and blob-size bounds are consequences of
    the encoding fitting MAX_MESSAGE_SIZE: one generated obligation per array field,
    MAX_MESSAGE_SIZE < min_size(element) * 2^16, closed by computation.  What remains,
    [ty_msg], is what every Rust value satisfies unless as_vec panics on it (integer ranges,
    fixed lengths, Octets < 2^16, NUL-free WireStrings), consistency of streamed PSBTs, and
    the count bound of arrays whose elements can be shorter than 3 bytes (Array<WireString>:
    `Array` writes its count with `as u16`, so 65536 one-byte strings are not denotable). *)
Theorem C19_wf_from_size :
  forall (B : blob_ops) (m : msg B),
    ty_msg B m = true -> lenN (as_vec B m) <= MAX_MESSAGE_SIZE -> wf_msg B m = true.
Proof. exact wf_from_size. Qed.
Print Assumptions C19_wf_from_size.

(** The property with only those hypotheses. *)
Theorem C19_registry_sized :
  forall B : blob_ops, blob_laws B -> forall m : msg B,
    ty_msg B m = true ->
    lenN (as_vec B m) <= MAX_MESSAGE_SIZE ->
    from_vec MAX_MESSAGE_SIZE (table B) (as_vec B m) = Some (Known m).
Proof.
  intros B HB m Ht Hs. apply (C19_registry B HB m); [|exact Hs].
  apply C19_wf_from_size; assumption.
Qed.
Print Assumptions C19_registry_sized.

(** ** on a stream: length framing (msgs::write / write_vec, msgs::read, read_message::<T>)
    The frame is u32 length + payload; msgs::write must produce frame (as_vec m) (compared on
    every run).  Unframing a frame followed by anything gives the payload and exactly that
    rest. *)
Theorem C19_frame :
  forall p rest, lenN p < 4294967296 -> unframe (frame p ++ rest) = Some (p, rest).
Proof. exact frame_roundtrip. Qed.
Print Assumptions C19_frame.

(** Any number of messages written back to back are read back one by one as the same
    messages, and what follows them on the stream is left untouched. *)
Theorem C19_framed_stream :
  forall B : blob_ops, blob_laws B -> forall (ms : list (msg B)) rest,
    (forall m, In m ms -> wf_msg B m = true /\ lenN (as_vec B m) <= MAX_MESSAGE_SIZE) ->
    read_stream MAX_MESSAGE_SIZE (table B) (length ms)
                (concat (map (fun m => frame (as_vec B m)) ms) ++ rest)
    = Some (map Known ms, rest).
Proof.
  intros B HB ms rest H. apply read_stream_frames; [reflexivity|].
  intros m Hin. destruct (H m Hin) as [Hw Hs]. apply C19_registry; assumption.
Qed.
Print Assumptions C19_framed_stream.

(** read_message::<T> on T's own frame: for every message there is its arm's decoder, under
    its own id, that reads the frame back and leaves the rest. *)
Theorem C19_read_message :
  forall B : blob_ops, blob_laws B -> forall (m : msg B) rest,
    wf_msg B m = true -> lenN (as_vec B m) <= MAX_MESSAGE_SIZE ->
    exists e, In e (table B) /\ e_id e = msg_id B m /\
      read_typed MAX_MESSAGE_SIZE (e_id e) (e_dec e) (frame (as_vec B m) ++ rest) = Some (m, rest).
Proof.
  intros B HB m rest Hw Hs. destruct (table_complete B HB m Hw) as (Hid & e & Hin & He & Hd).
  exists e. split; [exact Hin|]. split; [exact He|]. unfold as_vec, as_vec_of in *. rewrite He.
  apply (read_typed_frame MAX_MESSAGE_SIZE (msg_id B m) (enc_msg B) (e_dec e)).
  - reflexivity.
  - exact Hd.
  - exact Hid.
  - exact Hs.
Qed.
Print Assumptions C19_read_message.

(** Streamed PSBT, second sentence of the property: whenever the streamed decoder accepts,
    the decoded transaction is the encoded one, every input's previous output is the one the
    encoded PSBT designates, the per-input segwit flags are the reference flags, and no
    previous transaction is retained. *)
Theorem C19_psbt_sound :
  forall p p' flags, streamed_post p = Some (p', flags) ->
    p_tx p' = p_tx p /\ p_txins p' = p_txins p /\
    map i_wu (p_inputs p') = map2 ref_prevout (p_txins p) (p_inputs p) /\
    flags = map2 ref_flag (p_txins p) (p_inputs p) /\
    map i_nwu (p_inputs p') = map (fun _ => None) (p_inputs p) /\
    length flags = length (p_inputs p).
Proof. exact streamed_post_sound. Qed.
Print Assumptions C19_psbt_sound.

(** ... and it accepts exactly the consistent PSBTs (unsigned transaction really unsigned;
    a supplied previous transaction has the spent txid, has the spent output, and agrees
    with a supplied witness_utxo; a witness_utxo supplied WITHOUT the previous transaction
    is about a witness-program or p2sh output — [bare_claim_ok], the rule of /repo 6e3d302). *)
Theorem C19_psbt_accepts :
  forall p, (exists r, streamed_post p = Some r) <-> streamable p = true.
Proof. exact streamed_post_accepts_iff. Qed.
Print Assumptions C19_psbt_accepts.

(** Every previous output the signer is handed without its transaction is one whose spend
    commits to the amount: a bare claim about a legacy output never gets through. *)
Theorem C19_psbt_bare_claims :
  forall p r, streamed_post p = Some r ->
    forallb bare_claim_ok (p_inputs p) = true.
Proof. exact streamed_post_bare_claims. Qed.
Print Assumptions C19_psbt_bare_claims.

(** The two together at the field level: a request's streamed PSBT decodes (to the model
    value that was encoded), and what the signer is handed is [streamed_post] of its view. *)
Theorem C19_streamed_field :
  forall B : blob_ops, blob_laws B -> forall (x : PsbtT B) rest,
    wf_ws_streamed B x = true ->
    dec_ws_streamed B (enc_ws_streamed B x ++ rest) = Some (x, rest) /\
    exists p' flags, streamed_post (psbt_view B x) = Some (p', flags) /\
      p_tx p' = p_tx (psbt_view B x) /\
      map i_wu (p_inputs p') = map2 ref_prevout (p_txins (psbt_view B x)) (p_inputs (psbt_view B x)) /\
      flags = map2 ref_flag (p_txins (psbt_view B x)) (p_inputs (psbt_view B x)).
Proof.
  intros B HB x rest Hw. split; [apply (rt_ws_streamed B HB); exact Hw|].
  unfold wf_ws_streamed, wf_withsize in Hw. apply andb_true_iff in Hw. destruct Hw as [_ Hs].
  apply streamed_post_accepts_iff in Hs. destruct Hs as [[p' flags] Hr].
  exists p', flags. split; [exact Hr|].
  destruct (streamed_post_sound _ _ _ Hr) as (A & _ & C & D & _). repeat split; assumption.
Qed.
Print Assumptions C19_streamed_field.

(** Non-vacuity: the blob laws have a model ([B1_laws]); a concrete message with a nested
    array, both option cases and boundary integers meets the hypotheses of [C19_registry],
    and the conclusion is recomputed directly. *)
Example C19_nonvacuous :
  blob_laws B1 /\
  let u := Build_Utxo (rep 32 7) 4294967295 18446744073709551615 0 true (hx "0014aabb"%string)
                      (Some (Build_CloseInfo 9 (rep 33 2) None false 144)) false in
  let m := M_SignWithdrawal B1 (Build_SignWithdrawal B1 [u; u] (hx "70736274ff"%string)) in
  ty_msg B1 m = true /\ wf_msg B1 m = true /\ lenN (as_vec B1 m) <= MAX_MESSAGE_SIZE /\
  from_vec MAX_MESSAGE_SIZE (table B1) (as_vec B1 m) = Some (Known m).
Proof. split; [exact B1_laws|]. vm_compute. repeat split; congruence. Qed.

(** Non-vacuity for a message closed by a TLV option stream (developer feature): present and
    absent options, a string, a 32-byte value and an array. *)
Example C19_tlv_nonvacuous :
  let o := Build_HsmdDevPreinit2Options (Some true) None (Some 2) (Some (hx "74657374")) (Some (rep 32 7))
                                        (Some [hx "6263317161"; []; hx "7462"]) in
  let m := M_HsmdDevPreinit2 B1 (Build_HsmdDevPreinit2 o) in
  ty_msg B1 m = true /\ wf_msg B1 m = true /\ lenN (as_vec B1 m) <= MAX_MESSAGE_SIZE /\
  from_vec MAX_MESSAGE_SIZE (table B1) (as_vec B1 m) = Some (Known m).
Proof. vm_compute. repeat split; congruence. Qed.

(** Non-vacuity of the PSBT statement: one segwit input proved by its previous transaction
    (flag true, previous output filled in), one non-segwit, one without a previous tx. *)
Example C19_psbt_nonvacuous :
  let wpk := hx "0014be18d152a9b012039daf3da7de4f53349eecb985"%string in
  let pkh := hx "76a91485cff1097fd9e008bb34af709c62197b38978a4888ac"%string in
  let prev := {| pt_txid := rep 32 1; pt_outs := [{| o_value := 5; o_spk := pkh |}; {| o_value := 7; o_spk := wpk |}] |} in
  let sh := hx "a914339725ba21efd62ac753a9bcd067d6c7a6a39d0587" in
  let tin := fun id v => {| ti_txid := rep 32 id; ti_vout := v; ti_sig_empty := true; ti_wit_empty := true |} in
  let p := {| p_tx := [2]; p_txins := [ tin 1 1; tin 1 0; tin 9 3; tin 8 0; tin 7 2 ];
              p_inputs := [ {| i_nwu := Some prev; i_wu := None |};
                            {| i_nwu := Some prev; i_wu := Some {| o_value := 5; o_spk := pkh |} |};
                            {| i_nwu := None; i_wu := None |};
                            {| i_nwu := None; i_wu := Some {| o_value := 11; o_spk := wpk |} |};
                            {| i_nwu := None; i_wu := Some {| o_value := 13; o_spk := sh |} |} ] |} in
  streamable p = true /\
  exists p', streamed_post p = Some (p', [true; false; false; false; false]) /\
             map i_wu (p_inputs p') = [Some {| o_value := 7; o_spk := wpk |}; Some {| o_value := 5; o_spk := pkh |}; None;
                                       Some {| o_value := 11; o_spk := wpk |}; Some {| o_value := 13; o_spk := sh |}].
Proof. vm_compute. split; [reflexivity|]. eexists. split; reflexivity. Qed.

(** Consistency is per input: nothing relates the previous transactions of different inputs.
    Inputs spending different outputs of ONE previous transaction (a deposit swept together with
    its change) — adjacent or with another input in between, with that transaction attached to
    all, one or none of them — are accepted, and so is the same outpoint twice (the decoder has
    no rule about it). *)
Example C19_psbt_sibling_inputs :
  let wpk := hx "0014be18d152a9b012039daf3da7de4f53349eecb985" in
  let o := fun v => {| o_value := v; o_spk := wpk |} in
  let par := {| pt_txid := rep 32 1; pt_outs := [o 5; o 7; o 9] |} in
  let oth := {| pt_txid := rep 32 2; pt_outs := [o 3] |} in
  let tin := fun id v => {| ti_txid := rep 32 id; ti_vout := v; ti_sig_empty := true; ti_wit_empty := true |} in
  let p := {| p_tx := [2]; p_txins := [ tin 1 0; tin 2 0; tin 1 2; tin 1 1; tin 1 1 ];
              p_inputs := [ {| i_nwu := Some par; i_wu := None |};
                            {| i_nwu := Some oth; i_wu := Some (o 3) |};
                            {| i_nwu := Some par; i_wu := Some (o 9) |};
                            {| i_nwu := None; i_wu := Some (o 7) |};
                            {| i_nwu := Some par; i_wu := None |} ] |} in
  streamable p = true /\
  exists p', streamed_post p = Some (p', [true; true; true; false; true]) /\
             map i_wu (p_inputs p') = [Some (o 5); Some (o 3); Some (o 9); Some (o 7); Some (o 7)].
Proof. vm_compute. split; [reflexivity|]. eexists. split; reflexivity. Qed.

(** ... and a bare claim about a legacy (p2pkh) output, or about a script one byte off p2sh,
    is refused, while the same claim backed by the previous transaction is taken. *)
Example C19_psbt_bare_legacy_refused :
  let pkh := hx "76a91485cff1097fd9e008bb34af709c62197b38978a4888ac" in
  let sh24 := hx "a914339725ba21efd62ac753a9bcd067d6c7a6a39d058700" in
  let tin := {| ti_txid := rep 32 1; ti_vout := 0; ti_sig_empty := true; ti_wit_empty := true |} in
  let one := fun i => {| p_tx := [2]; p_txins := [tin]; p_inputs := [i] |} in
  streamed_post (one {| i_nwu := None; i_wu := Some {| o_value := 5; o_spk := pkh |} |}) = None /\
  streamed_post (one {| i_nwu := None; i_wu := Some {| o_value := 5; o_spk := sh24 |} |}) = None /\
  streamable (one {| i_nwu := None; i_wu := Some {| o_value := 5; o_spk := pkh |} |}) = false /\
  exists r, streamed_post (one {| i_nwu := Some {| pt_txid := rep 32 1; pt_outs := [{| o_value := 5; o_spk := pkh |}] |};
                                  i_wu := Some {| o_value := 5; o_spk := pkh |} |}) = Some r.
Proof. vm_compute. repeat split. eexists. reflexivity. Qed.

(** What a shared id does (the defect found in the unrepaired source, where SignRemoteHtlcTx
    and SignLocalHtlcTx2 both had #[message_id(20)]): the later arm's decoder is never
    consulted. *)
Theorem C19_duplicate_id_misroutes :
  forall (M : Type) (maxsz : N) (pre post : list (entry M)) (a : entry M) payload,
    ~ In (e_id a) (map e_id pre) -> fits 2 (e_id a) = true ->
    lenN (enc_u16 (e_id a) ++ payload) <= maxsz ->
    from_vec maxsz (pre ++ a :: post) (enc_u16 (e_id a) ++ payload) =
    match e_dec a payload with Some (m, []) => Some (Known m) | _ => None end.
Proof. exact @duplicate_id_misroutes. Qed.
Print Assumptions C19_duplicate_id_misroutes.

(** The old behaviour, on a frozen copy of the two old declarations (kept by hand here so the
    example does not depend on the generated names): an encoded SignLocalHtlcTx2 is handed to
    SignRemoteHtlcTx's decoder and does not come back. *)
Section OldId20.
  Let B := B1.
  Record old_local2 := { ol_tx : TxT B; ol_input : N; ol_n : N; ol_offered : bool; ol_cltv : N; ol_amt : N; ol_hash : bytes }.
  Record old_remote := { or_tx : TxT B; or_psbt : PsbtT B; or_wscript : bytes; or_point : bytes; or_anchors : bool }.
  Definition enc_old_local2 x := enc_ws_tx B (ol_tx x) ++ enc_u32 (ol_input x) ++ enc_u64 (ol_n x) ++ enc_bool (ol_offered x)
                                 ++ enc_u32 (ol_cltv x) ++ enc_u64 (ol_amt x) ++ enc_fixed 32 (ol_hash x).
  Definition dec_old_local2 : dec_t old_local2 := fun b0 =>
    bind (dec_ws_tx B b0) (fun '(a, b1) => bind (dec_u32 b1) (fun '(b, b2) => bind (dec_u64 b2) (fun '(c, b3) =>
    bind (dec_bool b3) (fun '(d, b4) => bind (dec_u32 b4) (fun '(e, b5) => bind (dec_u64 b5) (fun '(f, b6) =>
    bind (dec_fixed 32 b6) (fun '(g, b7) => Some (Build_old_local2 a b c d e f g, b7)))))))).
  Definition dec_old_remote : dec_t old_remote := fun b0 =>
    bind (dec_ws_tx B b0) (fun '(a, b1) => bind (dec_ws_psbt B b1) (fun '(b, b2) => bind (dec_octets b2) (fun '(c, b3) =>
    bind (dec_fixed 33 b3) (fun '(d, b4) => bind (dec_bool b4) (fun '(e, b5) => Some (Build_old_remote a b c d e, b5)))))).
  Definition old_table : list (entry (old_remote + old_local2)) :=
    [ {| e_id := 20; e_dec := dec_map inl dec_old_remote |}; {| e_id := 20; e_dec := dec_map inr dec_old_local2 |} ].

Example C19_old_id20_refuted :
    exists m : old_local2,
      dec_old_local2 (enc_old_local2 m) = Some (m, []) /\
      from_vec 131072 old_table (enc_u16 20 ++ enc_old_local2 m) <> Some (Known (inr m)).
  Proof.
    exists {| ol_tx := hx "0200000000000000000000"%string; ol_input := 0; ol_n := 7; ol_offered := true;
              ol_cltv := 500000; ol_amt := 1000; ol_hash := rep 32 3 |}.
    vm_compute. split; [reflexivity|discriminate].
  Qed.
End OldId20.
