(** C10 — a refused request changes nothing.  Statements only; proofs are in
    Proofs/RefusedProofs.v (channel enforcement state, node-level state, payments),
    Proofs/VelocityProofs.v and, for the chain tracker, Props/C13.v (C13_reject_atomic). *)
From VLS Require Import Base.U64 Model.Enforcement Model.NodeOps Model.Payments
  Proofs.EnforcementProofs Proofs.RefusedProofs.
From VLS Require Model.Velocity Model.Tracker Model.TrackerCheck Proofs.TrackerProofs.

(** Channel enforcement state: for every reachable channel (memory image = persisted image),
    every request of the channel alphabet (direct and handler composites, any u64 numbers,
    both build profiles) under the default filter: a refusal leaves the memory image AND the
    persisted image exactly as they were — in particular nothing was written, so a
    transactional store has no pending mutation. *)
Theorem C10_channel_refused_changes_nothing :
  forall (warn : tag -> bool) (prof : profile),
    (forall t, warn t = false) ->
    forall (ch : chan) (o : op), wf_refuse o -> mem ch = disk ch ->
    st (snd (step warn prof (Ready ch) o)) = Refused ->
    fst (step warn prof (Ready ch) o) = Ready ch.
Proof. exact refused_changes_nothing. Qed.
Print Assumptions C10_channel_refused_changes_nothing.

(** A slot that is not set up refuses every channel request and stays what it is. *)
Theorem C10_stub_refused_changes_nothing :
  forall (warn : tag -> bool) (prof : profile) (o : op),
    st (snd (step warn prof Stub o)) = Refused -> fst (step warn prof Stub o) = Stub.
Proof.
  intros warn prof o. unfold step.
  destruct o; cbn [step0 on_ready st refused ok0 ok_point fst snd crash]; try reflexivity; try discriminate;
    destruct ((n =? 0) || (n =? 1)); cbn; intros; reflexivity || discriminate.
Qed.
Print Assumptions C10_stub_refused_changes_nothing.

(** Node-level requests (new / setup / forget channel, heartbeat, allowlist edits, approvals,
    refused channel requests): a refusal returns the node it was given, both images. *)
Theorem C10_node_refused_changes_nothing :
  forall (s : nnode) (o : nop), snd (nstep s o) = false -> fst (nstep s o) = s.
Proof. exact nstep_refused. Qed.
Print Assumptions C10_node_refused_changes_nothing.

(** In particular the table of issued invoices: a SignInvoice for a payment hash that already has
    an issued invoice leaves the table (and everything else) as it was, whether it is the same
    invoice again (signed again) or another one (refused). *)
Theorem C10_issued_invoice_is_never_replaced :
  forall (s : nnode) (h a a' : N),
    iss (nmem s) h = Some a' ->
    fst (nstep s (IssueInvoice h a)) = s /\
    (a <> a' -> snd (nstep s (IssueInvoice h a)) = false).
Proof.
  intros s h a a' Hi. cbn [nstep]. destruct (MAX_INV <=? iss_count (iss (nmem s))).
  - split; [reflexivity | intros _; reflexivity].
  - rewrite Hi. cbn [fst snd]. split; [reflexivity|]. intros Hne. apply N.eqb_neq. congruence.
Qed.
Print Assumptions C10_issued_invoice_is_never_replaced.

(** Payment bookkeeping: a refused commitment update leaves invoices, payment records, ledger
    and channel contents as they were. *)
Theorem C10_payments_refused_changes_nothing :
  forall (nch : nat) (mf mp : N) (s : pnode) (o : pop),
    snd (pstep nch mf mp s o) = false -> fst (pstep nch mf mp s o) = s.
Proof. exact pstep_refused. Qed.
Print Assumptions C10_payments_refused_changes_nothing.

(** Velocity control: a refused insert records no amount; what it leaves is the control
    advanced to the request's time (bucket rotation by the clock is not a change of the
    recorded amounts), and the node does not write it. *)
Theorem C10_velocity_refused_records_nothing :
  forall (c : Velocity.vc) (now amt : N),
    snd (Velocity.insert c now amt) = false -> fst (Velocity.insert c now amt) = Velocity.advance c now.
Proof.
  intros c now amt. unfold Velocity.insert.
  destruct (Velocity.limit (Velocity.advance c now) <? sat_add (Velocity.velocity (Velocity.advance c now)) amt); cbn [fst snd];
    [reflexivity | discriminate].
Qed.
Print Assumptions C10_velocity_refused_records_nothing.

(** Chain tracker: re-exported from C13 — a refused add / remove leaves tip, height,
    remembered headers, watches and monitor states as before. *)
Theorem C10_tracker_refused_changes_nothing :
  forall (c : Tracker.cfg) (s0 : Tracker.tstate) (rs : list Tracker.req),
    Forall (fun '(s, r, s', res) =>
              forall e, res = Tracker.Err e -> Tracker.view s' = Tracker.view s /\ s' = Tracker.settled r s)
           (Tracker.steps Tracker.fixed c s0 rs).
Proof. intros c s0 rs. apply TrackerProofs.history_err_atomic. Qed.
Print Assumptions C10_tracker_refused_changes_nothing.

(** Non-vacuity: refusals of every kind on a non-trivial channel. *)
Definition c10_ch : chan :=
  match fst (grun strict Release (Stub, ghost0)
               [Setup; ValidateHolder 0 0 true true; Activate; ValidateHolder 1 4 true true]) with
  | Ready ch => ch
  | Stub => mkC fresh_estate fresh_estate
  end.
Definition c10_probe (o : op) : Prop :=
  st (snd (step strict Release (Ready c10_ch) o)) = Refused /\
  fst (step strict Release (Ready c10_ch) o) = Ready c10_ch.

Example C10_nonvacuous :
  mem c10_ch = disk c10_ch /\ next_h (mem c10_ch) = 1 /\ nxt_h (mem c10_ch) = Some 4 /\
  c10_probe (Revoke 3 true) /\ c10_probe (GetSecret 0) /\ c10_probe (ValidateHolder 0 1 true true) /\
  c10_probe (ValidateHolder 1 5 false true) /\ c10_probe (SignHolder 5) /\
  c10_probe (HValidateNew 2 5 true true) /\ c10_probe (HRevoke 18446744073709551615 true) /\
  c10_probe (SignCp 2 1002 4 true) /\ c10_probe (ValidateRevocation 0 1000 0 true).
Proof. unfold c10_probe, c10_ch. vm_compute. repeat split. Qed.

(** The pre-repair revocation stored the counterparty secret before the counter guard refused
    the request (revocation of the current, not yet superseded commitment). *)
Example C10_old_revocation_refuted :
  let ops := [Setup; SignCp 0 1000 0 true] in
  match fst (grun strict Debug (Stub, ghost0) ops) with
  | Ready ch =>
      st (snd (do_revocation_old strict ch 0 1000 0 true)) = Refused /\
      secrets (mem (fst (do_revocation_old strict ch 0 1000 0 true))) <> secrets (mem ch)
  | Stub => False
  end.
Proof. vm_compute. split; [reflexivity | discriminate]. Qed.

(** The pre-repair allowlist edit applied the entries before the unparsable one. *)
Example C10_old_allowlist_refuted :
  snd (add_allow_old_partial ninit 1) = false /\
  allow (nmem (fst (add_allow_old_partial ninit 1))) 1 <> allow (nmem ninit) 1.
Proof. vm_compute. split; [reflexivity | discriminate]. Qed.
