(** C07 — mutual close pays the holder its due to an owned or allowlisted destination.
    Statements only; proofs are in Proofs/MutualCloseProofs.v.

    The signature primitives ([sighash], [sign], the funding key), the wallet ([can_spend]) and
    the allowlist ([allowlisted]) are universally quantified: the theorems hold for every
    wallet, every allowlist content at signing time and every signature scheme.  The model
    describes the code with the repaired [estimate_feerate_per_kw] (no wrap, no truncation). *)
From VLS Require Import Base.U64 Base.Eqb Model.MutualClose Proofs.MutualCloseProofs.

(** Phase 2 ([sign_mutual_close_tx_phase2]): under a non-permissive filter, for every policy,
    channel setup (funder or fundee, upfront script or not), enforcement state, values, scripts
    and wallet path - all amounts unbounded, so every u64 overflow candidate is covered - a
    returned signature implies: both current commitments exist and hold no HTLC; the fee is
    within the policy range as a true (unwrapped) quantity; the side that does not pay the fee
    gets its balance of BOTH commitments within epsilon; a positive holder value goes to a
    present script that the wallet can spend under the given path or that is allowlisted, and
    that is the upfront shutdown script if one was fixed; the signed message is the digest of
    the canonical closing transaction of these arguments for the channel's funding outpoint and
    value; and afterwards the channel is marked closed in memory and in the store. *)
Theorem C07_accept_phase2 :
  forall (keyT msgT sigT : Type) (sighash : tx -> N -> msgT) (sign : keyT -> msgT -> sigT) (fk : keyT)
         (warn : tag -> bool) (can_spend : path -> script -> option bool)
         (allowlisted : script -> path -> bool) (pol : policy)
         (persist_ok : bool) (s : setup) (c c' : chan) (a : close_args) (sg : sigT),
    (forall t, warn t = false) ->
    max_feerate pol < U32MAX ->
    sign_close_phase2 keyT msgT sigT sighash sign fk warn can_spend allowlisted pol
                      persist_ok s c a = (c', Signed sg) ->
    CloseOk can_spend allowlisted pol s (c_mem c) a /\
    sg = sign fk (sighash (canon_close s (a_vh a) (a_vc a) (unwrap_script (a_sh a))
                                       (unwrap_script (a_sc a)))
                          (channel_value s)) /\
    closed (c_mem c') = true /\ c_disk c' = c_mem c' /\ c_mem c' = set_closed (c_mem c).
Proof.
  intros keyT msgT sigT sighash sign fk warn cs al pol pok s c c' a sg Hw Hm H.
  apply phase2_signed in H. destruct H as (V & _ & Hs & ->).
  split; [eapply validate_strict; eassumption|]. split; [exact Hs|].
  cbn [c_mem c_disk set_closed closed]. auto.
Qed.
Print Assumptions C07_accept_phase2.

(** Phase 1 ([sign_mutual_close_tx]): the request is a transaction and one wallet path per
    output.  A returned signature implies that there is an assignment of the request's outputs
    to holder and counterparty - the holder's output taken together with the path supplied for
    THAT output - for which the whole conjunction above holds (whichever of the two attempts
    passed is the one it holds for), that the request's transaction IS the canonical closing
    transaction of that assignment (version, lock time, the single input spending the funding
    outpoint with final sequence and no script_sig / witness, positive outputs in order), that
    the signed message is its digest, and that the channel is closed afterwards. *)
Theorem C07_accept_phase1 :
  forall (keyT msgT sigT : Type) (sighash : tx -> N -> msgT) (sign : keyT -> msgT -> sigT) (fk : keyT)
         (warn : tag -> bool) (can_spend : path -> script -> option bool)
         (allowlisted : script -> path -> bool) (pol : policy)
         (persist_ok : bool) (s : setup) (c c' : chan) (t : tx) (paths : list path) (sg : sigT),
    (forall tg, warn tg = false) ->
    max_feerate pol < U32MAX ->
    sign_close_phase1 keyT msgT sigT sighash sign fk warn can_spend allowlisted pol
                      persist_ok s c t paths = (c', Signed sg) ->
    exists a : close_args,
      length paths = length (tx_outs t) /\ Assignment t paths a /\
      CloseOk can_spend allowlisted pol s (c_mem c) a /\
      t = canon_close s (a_vh a) (a_vc a) (unwrap_script (a_sh a)) (unwrap_script (a_sc a)) /\
      sg = sign fk (sighash t (channel_value s)) /\
      closed (c_mem c') = true /\ c_disk c' = c_mem c' /\ c_mem c' = set_closed (c_mem c).
Proof.
  intros keyT msgT sigT sighash sign fk warn cs al pol pok s c c' t paths sg Hw Hm H.
  apply phase1_signed in H. destruct H as (a & D & _ & Hs & ->).
  apply decode_facts in D. destruct D as (Hl & Ha & V & Hr).
  specialize (Hr (Hw _)). exists a.
  split; [exact Hl|]. split; [exact Ha|]. split; [eapply validate_strict; eassumption|].
  split; [symmetry; exact Hr|]. split; [rewrite <- Hr; exact Hs|].
  cbn [c_mem c_disk set_closed closed]. auto.
Qed.
Print Assumptions C07_accept_phase1.

(** The same for a filter given as rules: no rule with action Warn. *)
Corollary C07_accept_phase2_rules :
  forall keyT msgT sigT sighash sign fk rules can_spend allowlisted pol persist_ok s c c' a sg,
    Forall (fun r => r_warn r = false) rules ->
    max_feerate pol < U32MAX ->
    sign_close_phase2 keyT msgT sigT sighash sign fk (warn_of rules) can_spend allowlisted pol
                      persist_ok s c a = (c', Signed sg) ->
    CloseOk can_spend allowlisted pol s (c_mem c) a /\ closed (c_mem c') = true.
Proof.
  intros keyT msgT sigT sighash sign fk rules cs al pol pok s c c' a sg Hr Hm H.
  eapply C07_accept_phase2 in H; try eassumption.
  - tauto.
  - intros t. apply filter_no_warn_rules. exact Hr.
Qed.

(** Per tag, for an arbitrary filter (either entry point, through the arguments decided on):
    a conjunct can only be missing when its own tag is downgraded to a warning; both
    commitments exist and the outputs never exceed the funding whatever the filter says. *)
Theorem C07_accept_per_tag :
  forall (warn : tag -> bool) can_spend allowlisted (pol : policy) (s : setup) (e : estate) (a : close_args),
    validate_mutual_close warn can_spend allowlisted pol s e a = Ok ->
    exists hi ci,
      holder_info e = Some hi /\ cp_info e = Some ci /\
      a_vh a + a_vc a <= channel_value s /\
      (warn T_no_htlcs = false -> NoHtlcs hi ci) /\
      (warn T_fee_range = false -> max_feerate pol < U32MAX -> FeeInRange pol s a) /\
      (warn T_value_matches = false -> NonFeePayerWithinEps pol s hi ci a) /\
      (warn T_destination = false -> HolderDestinationOk can_spend allowlisted s a).
Proof. exact validate_facts. Qed.
Print Assumptions C07_accept_per_tag.

(** ... and every signature of either entry point went through that validation; in phase 1
    the transaction signed differs from the request only if the recomposition tag is
    downgraded. *)
Theorem C07_signature_validated :
  forall keyT msgT sigT sighash sign fk warn can_spend allowlisted pol persist_ok s c c' sg,
    (forall a,
       sign_close_phase2 keyT msgT sigT sighash sign fk warn can_spend allowlisted pol
                         persist_ok s c a = (c', Signed sg) ->
       validate_mutual_close warn can_spend allowlisted pol s (c_mem c) a = Ok /\
       sg = sign fk (sighash (close_of s a) (channel_value s))) /\
    (forall t paths,
       sign_close_phase1 keyT msgT sigT sighash sign fk warn can_spend allowlisted pol
                         persist_ok s c t paths = (c', Signed sg) ->
       exists a, Assignment t paths a /\
         validate_mutual_close warn can_spend allowlisted pol s (c_mem c) a = Ok /\
         sg = sign fk (sighash (close_of s a) (channel_value s)) /\
         (warn T_format_standard = false -> close_of s a = t)).
Proof.
  intros keyT msgT sigT sighash sign fk warn cs al pol pok s c c' sg. split.
  - intros a H. apply phase2_signed in H. tauto.
  - intros t paths H. apply phase1_signed in H. destruct H as (a & D & _ & Hs & _).
    apply decode_facts in D. exists a. tauto.
Qed.

(** A signature is returned only after the store acknowledged the closed channel: whatever the
    filter, after a signature the stored enforcement state is the one in memory, closed, and
    otherwise unchanged.  Without a signature the store is left as it was (and the memory too,
    unless the store refused the write). *)
Theorem C07_closed_persisted :
  forall keyT msgT sigT sighash sign fk warn can_spend allowlisted pol persist_ok s c c' sg,
    (forall a,
       sign_close_phase2 keyT msgT sigT sighash sign fk warn can_spend allowlisted pol
                         persist_ok s c a = (c', Signed sg) ->
       persist_ok = true /\ c_disk c' = c_mem c' /\ c_mem c' = set_closed (c_mem c) /\
       closed (c_disk c') = true) /\
    (forall t paths,
       sign_close_phase1 keyT msgT sigT sighash sign fk warn can_spend allowlisted pol
                         persist_ok s c t paths = (c', Signed sg) ->
       persist_ok = true /\ c_disk c' = c_mem c' /\ c_mem c' = set_closed (c_mem c) /\
       closed (c_disk c') = true).
Proof.
  intros keyT msgT sigT sighash sign fk warn cs al pol pok s c c' sg. split.
  - intros a H. apply phase2_signed in H. destruct H as (_ & Hp & _ & ->).
    cbn [c_mem c_disk set_closed closed]. auto.
  - intros t paths H. apply phase1_signed in H. destruct H as (a & _ & Hp & _ & ->).
    cbn [c_mem c_disk set_closed closed]. auto.
Qed.
Print Assumptions C07_closed_persisted.

Theorem C07_unsigned_store_unchanged :
  forall keyT msgT sigT sighash sign fk warn can_spend allowlisted pol persist_ok s c c' o,
    (forall sg : sigT, o <> Signed sg) ->
    (forall a,
       sign_close_phase2 keyT msgT sigT sighash sign fk warn can_spend allowlisted pol
                         persist_ok s c a = (c', o) ->
       c_disk c' = c_disk c /\ (o <> Refused R_internal -> c' = c)) /\
    (forall t paths,
       sign_close_phase1 keyT msgT sigT sighash sign fk warn can_spend allowlisted pol
                         persist_ok s c t paths = (c', o) ->
       c_disk c' = c_disk c /\ (o <> Refused R_internal -> c' = c)).
Proof.
  intros keyT msgT sigT sighash sign fk warn cs al pol pok s c c' o Hn. split.
  - intros a H. eapply phase2_unsigned; eassumption.
  - intros t paths H. eapply phase1_unsigned; eassumption.
Qed.

(** What "canonical closing transaction" means: version 2, lock time 0, one input spending the
    funding outpoint with final sequence, empty script_sig and witness; the outputs are exactly
    the positive ones of (counterparty, holder), each once, in non-decreasing (value, script
    bytes) order - and outputs the order cannot tell apart are identical. *)
Theorem C07_canonical_close :
  forall s vh vc sh sc,
    let t := canon_close s vh vc sh sc in
    tx_version t = 2 /\ tx_locktime t = 0 /\
    tx_ins t = [mkIn (funding s) [] SEQUENCE_MAX []] /\
    (forall o, In o (tx_outs t) <-> (o = mkOut vc sc /\ 0 < vc) \/ (o = mkOut vh sh /\ 0 < vh)) /\
    length (tx_outs t) = Nat.add (if 0 <? vc then 1%nat else 0%nat) (if 0 <? vh then 1%nat else 0%nat) /\
    (forall a b, tx_outs t = [a; b] -> out_cmp a b <> Gt) /\
    (forall a b, out_cmp a b = Eq -> a = b).
Proof.
  intros s vh vc sh sc t. subst t. cbn [canon_close tx_version tx_locktime tx_ins tx_outs].
  repeat split; try (intros; apply canon_outs_in; assumption).
  - apply canon_outs_length.
  - apply canon_outs_sorted.
  - apply out_cmp_eq.
Qed.

(** The fee window in the form the code compares: [min*w <= 1000*fee + 999 < (max+1)*w]. *)
Theorem C07_fee_window_equiv :
  forall lo hi w fee,
    (bolt3_fee lo w <= fee /\ fee < bolt3_fee hi w) <->
    (lo * w <= fee * 1000 + 999 /\ fee * 1000 + 999 < hi * w).
Proof. exact bolt3_window_iff. Qed.

(** Filter semantics: the default filter downgrades nothing; only an explicit matching Warn
    rule that no earlier rule pre-empts does. *)
Theorem C07_filter_default : forall t, warn_of [] t = false.
Proof. exact warn_of_nil. Qed.

Theorem C07_filter_only_explicit :
  forall rules t,
    warn_of rules t = true ->
    exists pre r post, rules = pre ++ r :: post /\ rule_matches r (tag_name t) = true /\
                       r_warn r = true /\
                       Forall (fun q => rule_matches q (tag_name t) = false) pre.
Proof. intros rules t. apply filter_warn_explicit. Qed.

(** * Non-vacuity *)

Definition pol_ex : policy := mkPol 253 25000 10000.
Definition ours : script := [0; 20; 7; 7; 7].
Definition theirs : script := [0; 20; 9; 9; 9].
Definition elsewhere : script := [0; 20; 200; 1; 1].
(** a wallet that derives [ours] under path [7] (and nothing else), an allowlist that holds
    [elsewhere] *)
Definition cs_ex (p : path) (scr : script) : option bool :=
  match p with
  | [_] => Some (bytes_eqb p [7] && bytes_eqb scr ours)
  | [] => Some false
  | _ => None
  end.
Definition al_ex (scr : script) (_ : path) : bool := bytes_eqb scr elsewhere.
Definition fund_ex : outpoint := mkOP 2 0.
Definition sym_hash (t : tx) (amount : N) : tx * N := (t, amount).
Definition sym_sig (k : N) (m : tx * N) : N * (tx * N) := (k, m).

(** funder: holder 1 998 000 / counterparty 1 000 000 in both commitments (the counterparty's
    differs by epsilon exactly in the counterparty's own commitment) *)
Definition est_out : estate :=
  mkEstate (Some (mkInfo 1998000 1000000 0 0)) (Some (mkInfo 1010000 1988000 0 0)) false.
Definition setup_out : setup := mkSetup true 3000000 None fund_ex.

Example C07_nonvacuous_phase2 :
  let a := mkArgs 1999000 1000000 (Some ours) (Some theirs) [7] in
  let c := mkChan est_out est_out in
  exists c' sg,
    sign_close_phase2 N (tx * N) (N * (tx * N)) sym_hash sym_sig 11 strict cs_ex al_ex pol_ex
                      true setup_out c a = (c', Signed sg) /\
    max_feerate pol_ex < U32MAX /\
    tx_outs (close_of setup_out a) = [mkOut 1000000 theirs; mkOut 1999000 ours] /\
    closed (c_disk c') = true.
Proof. vm_compute. do 2 eexists. repeat split; reflexivity. Qed.

(** fundee with an upfront shutdown script that is only allowlisted (no wallet path) *)
Example C07_nonvacuous_phase2_fundee_upfront :
  let e := mkEstate (Some (mkInfo 1000000 1998000 0 0)) (Some (mkInfo 1998000 1000000 0 0)) false in
  let s := mkSetup false 3000000 (Some elsewhere) fund_ex in
  let a := mkArgs 990000 2009000 (Some elsewhere) (Some theirs) [] in
  exists c' sg,
    sign_close_phase2 N (tx * N) (N * (tx * N)) sym_hash sym_sig 11 strict cs_ex al_ex pol_ex
                      true s (mkChan e e) a = (c', Signed sg) /\
    (* one satoshi further away from the commitments, or to the wallet instead of the upfront
       script, and it is refused *)
    fst (sign_close_phase2 N (tx * N) (N * (tx * N)) sym_hash sym_sig 11 strict cs_ex al_ex pol_ex
           true s (mkChan e e) (mkArgs 989999 2010000 (Some elsewhere) (Some theirs) [])) = mkChan e e /\
    snd (sign_close_phase2 N (tx * N) (N * (tx * N)) sym_hash sym_sig 11 strict cs_ex al_ex pol_ex
           true s (mkChan e e) (mkArgs 990000 2009000 (Some ours) (Some theirs) [7]))
      = Refused (R_policy T_destination).
Proof. vm_compute. do 2 eexists. repeat split; reflexivity. Qed.

(** phase 1, where the FIRST attempt fails and the second passes: both sides hold 1 499 500,
    the outputs are equal in value and ordered by script, the guess takes output 0 for the
    holder's, neither wallet nor allowlist know it, the other assignment is the valid one *)
Definition theirs_low : script := [0; 20; 1; 1; 1].
Definition est_even : estate :=
  mkEstate (Some (mkInfo 1499500 1499500 0 0)) (Some (mkInfo 1499500 1499500 0 0)) false.
Definition tx_even (outs : list txout) : tx := mkTx 2 0 [mkIn fund_ex [] SEQUENCE_MAX []] outs.

Example C07_nonvacuous_phase1_second_attempt :
  let t := tx_even [mkOut 1499500 theirs_low; mkOut 1499500 ours] in
  let paths : list path := [[]; [7]] in
  let first := mkArgs 1499500 1499500 (Some theirs_low) (Some ours) [] in
  let second := mkArgs 1499500 1499500 (Some ours) (Some theirs_low) [7] in
  candidates pol_ex est_even (tx_outs t) paths = Some (first, second) /\
  validate_mutual_close strict cs_ex al_ex pol_ex setup_out est_even first = Err T_destination /\
  decode_and_validate strict cs_ex al_ex pol_ex setup_out est_even t paths = DOk second /\
  (exists c' sg,
     sign_close_phase1 N (tx * N) (N * (tx * N)) sym_hash sym_sig 11 strict cs_ex al_ex pol_ex
                       true setup_out (mkChan est_even est_even) t paths = (c', Signed sg) /\
     sg = (11, (t, 3000000)) /\ closed (c_disk c') = true) /\
  (* the same outputs in the other order are not the canonical transaction *)
  snd (sign_close_phase1 N (tx * N) (N * (tx * N)) sym_hash sym_sig 11 strict cs_ex al_ex pol_ex
         true setup_out (mkChan est_even est_even)
         (tx_even [mkOut 1499500 ours; mkOut 1499500 theirs_low]) [[7]; []])
    = Refused (R_policy T_format_standard).
Proof. vm_compute. repeat split; try reflexivity. do 2 eexists. repeat split; reflexivity. Qed.

(** * Why the side condition of the fee conjunct is there *)

(** [max_feerate = u32::MAX] means "no maximum": the estimate saturates there and is accepted *)
Example C07_max_feerate_u32max_is_unlimited :
  let pol := mkPol 253 U32MAX 10000 in
  let e := mkEstate (Some (mkInfo 0 1000000 0 0)) (Some (mkInfo 1000000 0 0 0)) false in
  let s := mkSetup true 10000000000 None fund_ex in
  let a := mkArgs 0 1000000 None (Some theirs) [] in
  validate_mutual_close strict cs_ex al_ex pol s e a = Ok /\ ~ FeeInRange pol s a.
Proof.
  split; [vm_compute; reflexivity|]. intros (_ & _ & H). vm_compute in H. discriminate.
Qed.

Check C07_accept_phase1.
Check C07_accept_phase2.
Check C07_closed_persisted.

(** The feerate estimate behind the fee-range clause of the mutual-close model is the one in the source.  Gen/TxUtilGen.v is the statement-by-statement translation of [estimate_feerate_per_kw]
    (vls-core/src/util/transaction_utils.rs, regenerated on every run by tools/gen_rustfn.py): for
    every u64 fee and every non-zero weight it returns, in both build profiles, the model's value. *)
From VLS Require Gen.TxUtilGen Proofs.TxUtilGenProofs.
Theorem C07_feerate_estimate_is_source :
  forall (prof : profile) (fee w : N),
    fee <= U64MAX -> 0 < w ->
    TxUtilGen.gen_estimate_feerate_per_kw prof fee w = Val (MutualClose.estimate_feerate_per_kw fee w).
Proof. exact TxUtilGenProofs.gen_estimate_is_model. Qed.
Print Assumptions C07_feerate_estimate_is_source.

(** The validator the theorems above are about is the one in the source.  Gen/MutualCloseGen.v is the
    statement-by-statement translation (tools/gen_rustfn.py, regenerated on every run) of
    SimpleValidator::validate_mutual_close_tx - the whole body: both commitment infos present
    (policy-mutual-value-matches-commitment, unfiltered), a positive value needs a script on either
    side, the upfront shutdown script, no pending HTLCs, the checked sum of the outputs, validate_fee
    on the weight of the closing transaction, the epsilon comparison of the side that does not pay the
    fee against both commitments, and the holder's script in the wallet or on the allowlist - with
    ::outside_epsilon_range and CommitmentInfo2::htlcs_is_empty; validate_fee is the translation of
    Gen/CommitmentPolicyGen.v.  Parameters of the translation: the wallet's two answers (uninterpreted
    functions of identities; None = the wallet's error), the policy filter, and the weight
    mutual_close_tx_weight returns for LDK's ClosingTransaction built from the function's own
    arguments - instantiated here with the model's [close_weight] of the canonical closing
    transaction.  Scripts and paths are identities on the source side; [dec] / [decp] say which byte /
    index list an identity stands for, and any faithful naming will do ([enc (dec i) = i]).  For every
    source-level policy, setup, enforcement state and arguments, every wallet, every filter and both
    build profiles the generated function answers what the model answers on the abstraction, refusal
    tags and panics included.  Side condition [close_fits] (boolean; true of every value of the Rust
    types): the channel value, the two output values and the commitments' values fit u64.
    Not translated: decode_and_validate_mutual_close_tx (script parsing, the recomposition against
    LDK's builder, the likely/unlikely retry) - it stays tied by the correspondence check. *)
From VLS Require Gen.CommitmentPolicyGen Gen.MutualCloseGen Proofs.MutualCloseGenProofs.
Theorem C07_close_rules_are_source :
  forall (prof : profile) (swarn : string -> bool) (gp : CommitmentPolicyGen.SimplePolicy)
         (wcs : N -> N -> N -> option bool) (wal : N -> N -> N -> bool) (wid : N)
         (gs : CommitmentPolicyGen.ChannelSetup) (ge : MutualCloseGen.EnforcementState)
         (vh vc : N) (hs cs : option N) (pid : N)
         (enc : script -> N) (dec : N -> script) (encp : path -> N) (decp : N -> path),
    (forall i, enc (dec i) = i) -> (forall i, encp (decp i) = i) ->
    MutualCloseGenProofs.close_fits gs ge vh vc = true ->
    MutualCloseGen.gen_validate_mutual_close_tx prof swarn gp
      (close_weight (tx_outs (close_of (MutualCloseGenProofs.abs_setup dec gs)
                                       (MutualCloseGenProofs.abs_args dec decp vh vc hs cs pid))))
      wcs wal wid gs ge vh vc hs cs pid =
    MutualCloseGenProofs.of_res
      (validate_mutual_close (MutualCloseGenProofs.tag_filter swarn)
         (fun p s => wcs wid (encp p) (enc s)) (fun s p => wal wid (enc s) (encp p))
         (MutualCloseGenProofs.abs_policy gp) (MutualCloseGenProofs.abs_setup dec gs)
         (MutualCloseGenProofs.abs_estate ge) (MutualCloseGenProofs.abs_args dec decp vh vc hs cs pid)).
Proof. exact MutualCloseGenProofs.gen_mutual_close_is_model. Qed.
Print Assumptions C07_close_rules_are_source.
