(** C20 — concurrent requests neither deadlock nor break per-channel atomicity (PARTIAL).

    What is proved: for the lock programs of the request kinds in [Gen/LockProgs.v] - recorded
    from the running code and regenerated on every run - a rank on the lock classes exists
    (found by the tool, checked here by computation) that every program respects; therefore,
    for ANY number of threads, each running ANY sequence of these requests on any channel
    instances, and for EVERY schedule: no reachable configuration is stuck, every run ends, and
    it ends with every request completed ([C20_deadlock_free_partial], [C20_completes_partial]);
    and the accesses to any mutex-protected value - in particular a channel's enforcement
    state - form whole critical sections, one thread at a time, in each thread's program order
    ([C20_slot_atomic_partial]); a commitment update takes its channel's lock exactly once, so
    its block is the whole request ([C20_updates_single_section]) and the per-channel theorems
    C01-C03 apply to the sequence of blocks.

    What is missing (hence "_partial"): equality of replies and of cross-channel node state
    with a sequential order (linearizability) is not proved, only that node state is accessed
    under its lock; lock paths that the recording corpus does not take are not in the programs;
    atomics and memory-model effects are outside the model.

    Statements only; proofs are in Proofs/LocksProofs.v. *)
From VLS Require Import Model.Locks Model.LocksOld Model.Atomics Proofs.LocksProofs Proofs.AtomicsProofs Gen.LockProgs.

(** The obligation that depends on the code: the searched rank orders every recorded program
    (each acquires only above what it holds, releases only what it holds, ends empty-handed).
    A lock-order cycle in the code makes this false for every rank. *)
Theorem C20_ranked : all_ranked rank progs = true.
Proof. vm_compute. reflexivity. Qed.
Print Assumptions C20_ranked.

(** every access to a protected value is under its lock, in every recorded program *)
Theorem C20_guarded : all_guarded progs = true.
Proof. vm_compute. reflexivity. Qed.
Print Assumptions C20_guarded.

(** Deadlock freedom: any number of threads; thread [n] runs the requests [nth n reqs] one
    after the other; a request is any recorded program on any instances ([instance_of]: a
    monotone renaming of the instance numbers).  From every reachable configuration somebody
    can move unless everybody has finished, and no run is longer than the programs. *)
Theorem C20_deadlock_free_partial :
  forall reqs : list (list program),
    Forall (Forall (instance_of progs)) reqs ->
    forall (tr : list event) (c : config),
      steps (init (map (@concat instr) reqs)) tr c ->
      (finished c \/ exists e c', step c e c') /\
      (length tr <= length (concat (map (@concat instr) reqs)))%nat.
Proof. exact (deadlock_free rank progs C20_ranked). Qed.
Print Assumptions C20_deadlock_free_partial.

(** no schedule is a dead end: whatever has happened so far, the run can be completed *)
Theorem C20_completes_partial :
  forall reqs : list (list program),
    Forall (Forall (instance_of progs)) reqs ->
    forall (tr : list event) (c : config),
      steps (init (map (@concat instr) reqs)) tr c ->
      exists tr' c', steps c tr' c' /\ finished c'.
Proof. exact (completes rank progs C20_ranked). Qed.
Print Assumptions C20_completes_partial.

(** Atomicity: in every complete run, what happens to the value protected by [g] (any lock,
    e.g. the slot of channel i) is a sequence of blocks; each block is one whole critical
    section [Acq g; Touch g ...; Rel g] of one thread; thread [n]'s blocks, in run order, are
    exactly the sections of its own requests in program order. *)
Theorem C20_slot_atomic_partial :
  forall (g : lock) (reqs : list (list program)),
    Forall (Forall (instance_of progs)) reqs ->
    forall (tr : list event) (c : config),
      steps (init (map (@concat instr) reqs)) tr c -> finished c ->
      exists bs : list block,
        proj g tr = flatten bs /\
        Forall (fun b => is_section g (snd b)) bs /\
        forall n rs, nth_error reqs n = Some rs ->
          filter (concerns g) (concat rs) =
          concat (map snd (filter (fun b => Nat.eqb (fst b) n) bs)).
Proof. intros g. exact (slot_atomic_threads rank progs g C20_ranked C20_guarded). Qed.
Print Assumptions C20_slot_atomic_partial.

(** the same at any moment at which [g] is free (not only at the end), for any programs that
    access protected values under their locks - no rank needed *)
Theorem C20_sections_at_quiescence :
  forall (g : lock) (ps : list program),
    Forall (fun p => guarded [] p = true) ps ->
    forall (tr : list event) (c : config),
      steps (init ps) tr c -> ~ In g (owned c) ->
      exists bs : list block, proj g tr = flatten bs /\ Forall (fun b => is_section g (snd b)) bs.
Proof. exact slot_atomic. Qed.
Print Assumptions C20_sections_at_quiescence.

(** every commitment-update request - the Channel entry points AND the protocol messages that
    reach them through ChannelHandler::do_handle at protocol 4 and 6 (ValidateCommitmentTx2,
    RevokeCommitmentTx, SignRemoteCommitmentTx2) - is ONE critical section of its channel slot:
    its block in [C20_slot_atomic_partial] is everything the request does to that channel.  A
    handler arm that validates under one hold of the channel lock and revokes / answers under
    a second one (seeded change C20f) makes this obligation fail. *)
Theorem C20_updates_single_section : forallb (single_section slot_class) update_progs = true.
Proof. vm_compute. reflexivity. Qed.
Print Assumptions C20_updates_single_section.

(** Stored state.  Every access to the store happens inside a critical section of a structural lock
    (node state, channel map, a channel slot, the tracker), so by [C20_slot_atomic_partial] the writes
    of two requests to one record are ordered like the sections that computed them; in particular an
    allowlist request writes the allowlist while it still holds the node state it has just changed.
    A request that releases the lock first and writes afterwards (seeded change C20h) makes these
    obligations fail: the store could then receive the snapshots in the other order. *)
Theorem C20_store_access_under_a_lock :
  forallb (nested_under structural_classes store_class []) progs = true.
Proof. vm_compute. reflexivity. Qed.
Print Assumptions C20_store_access_under_a_lock.

Theorem C20_allowlist_written_under_node_state :
  forallb (nested_under [state_class] store_class []) allowlist_progs = true /\ allowlist_progs <> [].
Proof. split; [vm_compute; reflexivity|vm_compute; discriminate]. Qed.
Print Assumptions C20_allowlist_written_under_node_state.

(** setup_channel publishes the ready channel in the channel map and writes the tracker and the channel
    record while it still holds the map: no request on that channel can run (and store a newer record)
    between the publication and setup_channel's own write of the initial state.  Releasing the map
    before the store is written (seeded change C20k) makes this fail. *)
Theorem C20_setup_channel_writes_under_the_map :
  forallb (nested_under [map_class] store_class []) setup_progs = true /\ setup_progs <> [].
Proof. split; [vm_compute; reflexivity|vm_compute; discriminate]. Qed.
Print Assumptions C20_setup_channel_writes_under_the_map.

Example C20_nested_under_rejects_late_write :
  nested_under [1] 8 [] [Acq (1, 0); Touch (1, 0); Rel (1, 0); Acq (8, 0); Rel (8, 0)] = false /\
  nested_under [1] 8 [] [Acq (1, 0); Acq (8, 0); Rel (8, 0); Rel (1, 0)] = true.
Proof. vm_compute. split; reflexivity. Qed.

(** Lock-free shared state.  The key manager's counters (generated channel ids, entropy, base-point
    indices) are used before or without any mutex, so the lock programs say nothing about them.
    [counter_progs] (generated from the source on every run) lists, per function, the atomic
    operations on each Atomic* field; the obligation: every write is ONE read-modify-write event
    (no separate store).  A load followed by a store makes it fail. *)
Theorem C20_counters_rmw : forallb (fun p => no_store (snd p)) counter_progs = true.
Proof. vm_compute. reflexivity. Qed.
Print Assumptions C20_counters_rmw.

(** ... and then, for any number of threads, each performing any sequence of the recorded counter
    uses, under EVERY interleaving of their atomic events, the values handed out (child indices,
    hence generated channel ids / entropy) are pairwise distinct.  Partial: one counter at a time,
    sequentially consistent interleaving of the atomic events (the code uses AcqRel). *)
Theorem C20_generated_ids_distinct_partial :
  forall (c0 : N) (uses : list (list aop)),
    Forall (fun u => exists ps, Forall (fun p => In p (map snd counter_progs)) ps /\ u = concat ps) uses ->
    forall sched s', arun (ainit c0 uses) sched = Some s' -> NoDup (handed s').
Proof.
  intros c0 uses Hu sched s' H.
  apply (rmw_values_distinct c0 uses) with (sched := sched); [|exact H].
  pose proof C20_counters_rmw as R. rewrite forallb_forall in R.
  apply Forall_forall. intros u Iu. rewrite Forall_forall in Hu. destruct (Hu u Iu) as [ps [Hps ->]].
  clear - Hps R. induction Hps as [|p ps Hp _ IH]; [reflexivity|].
  cbn [concat]. unfold no_store in *. rewrite forallb_app, IH, andb_true_r.
  apply in_map_iff in Hp. destruct Hp as [[nm q] [<- Hq]]. exact (R _ Hq).
Qed.
Print Assumptions C20_generated_ids_distinct_partial.

(** the load-then-store variant (seeded change C20g) hands the same value to two threads *)
Example C20_load_store_refuted :
  exists sched s', arun (ainit 0 [[Ld; St]; [Ld; St]]) sched = Some s' /\ ~ NoDup (handed s').
Proof.
  exists [0; 1; 0; 1]%nat. eexists. split; [vm_compute; reflexivity|].
  cbn [handed]. intros H. inversion H as [|x l N _]. apply N. left. reflexivity.
Qed.

Example C20_counters_nonvacuous :
  counter_progs <> [] /\
  exists s', arun (ainit 5 [[Rmw]; [Rmw]; [Rmw]]) [2; 0; 1]%nat = Some s' /\ handed s' = [7; 6; 5] /\ cnt s' = 8.
Proof. split; [vm_compute; discriminate|]. eexists. vm_compute. repeat split. Qed.

(** the request kinds taken out of [progs] because they contain an inversion listed in
    KNOWN_FINDINGS.json really do deadlock in the model (empty when nothing is listed): each
    witness is a set of recorded programs and a schedule that ends in a stuck configuration *)
Theorem C20_listed_inversions_deadlock :
  forall w, In w known_witnesses ->
    exists tr c, steps (init (fst w)) tr c /\ deadlocked c.
Proof.
  assert (H : forallb witness_ok known_witnesses = true) by (vm_compute; reflexivity).
  rewrite forallb_forall in H. intros w Hw. specialize (H w Hw). unfold witness_ok in H.
  destruct (exec (init (fst w)) (snd w)) as [[c tr]|] eqn:E; [|discriminate].
  apply andb_true_iff in H. destruct H as [H1 H2]. apply negb_true_iff in H1.
  exists tr, c. exact (deadlocked_by_exec _ _ _ _ E H1 H2).
Qed.
Print Assumptions C20_listed_inversions_deadlock.

(** Non-vacuity: the recorded list is not empty, contains nested acquisitions, and any two of
    the recorded requests run concurrently to completion. *)
Example C20_nonvacuous :
  (2 <= length progs)%nat /\
  existsb (fun p => Nat.leb 2 (max_nesting [] p)) progs = true /\
  forall p q, In p progs -> In q progs ->
    exists tr c, steps (init [p; q]) tr c /\ finished c /\ length tr = (length p + length q)%nat.
Proof.
  split; [vm_compute; lia|]. split; [vm_compute; reflexivity|].
  intros p q Hp Hq.
  assert (R : Forall (Forall (instance_of progs)) [[p]; [q]]).
  { repeat constructor; apply instance_self; assumption. }
  destruct (C20_completes_partial [[p]; [q]] R [] _ (steps_nil _)) as [tr [c [Hs Hf]]].
  cbn [map concat] in Hs. rewrite !app_nil_r in Hs.
  exists tr, c. split; [exact Hs|]. split; [exact Hf|].
  pose proof (steps_total _ _ _ Hs) as T. cbn [init map total fold_right rest] in T.
  assert (total c = O) as Z.
  { clear - Hf. induction c as [|t c IH]; [reflexivity|]. cbn [total fold_right].
    rewrite (Hf t (or_introl eq_refl)). cbn [length]. apply IH. intros u Hu. apply Hf. right. exact Hu. }
  lia.
Qed.

(** The statement was false for the code before the repairs: [Node::forget_channel] took node
    state, then the channel map, then the slot, while a channel request (here the balance
    query) holds the slot and takes node state.  Programs as recorded at /repo bf60549
    (accesses and the persister omitted).  The same schedule blocks two real threads for ever
    (harness: locks race forget_channel_ready:1 channel_balance_query). *)
Definition S0 : lock := (1, 0).
Definition M0 : lock := (2, 0).
Definition C1 : lock := (3, 1).
Definition old_forget_channel : program :=
  [Acq S0; Acq M0; Touch M0; Acq C1; Touch C1; Rel C1; Rel M0; Rel S0].
Definition balance_query : program :=
  [Acq M0; Touch M0; Rel M0; Acq C1; Touch C1; Acq S0; Touch S0; Rel S0; Rel C1].

Example C20_old_forget_channel_refuted :
  exists tr c, steps (init [old_forget_channel; balance_query]) tr c /\ deadlocked c.
Proof.
  destruct (exec (init [old_forget_channel; balance_query]) [0; 1; 1; 1; 1; 1; 0; 0]%nat)
    as [[c tr]|] eqn:E; [|vm_compute in E; discriminate].
  exists tr, c. apply (deadlocked_by_exec _ _ _ _ E).
  - vm_compute in E. inversion E. subst. vm_compute. reflexivity.
  - vm_compute in E. inversion E. subst. vm_compute. reflexivity.
Qed.

(** and no rank can order these two programs *)
Example C20_old_forget_channel_unrankable :
  forall rank, all_ranked rank [old_forget_channel; balance_query] = false.
Proof.
  intros r. unfold all_ranked. cbn [forallb].
  destruct (ranked (lock_lt r) [] old_forget_channel) eqn:A; [|reflexivity].
  destruct (ranked (lock_lt r) [] balance_query) eqn:B; [|reflexivity]. exfalso.
  cbn in A, B. rewrite !andb_true_r in A, B. rewrite !andb_true_iff in A.
  destruct A as [_ [_ [A _]]].
  pose proof (lock_lt_trans r _ _ _ A B) as T. rewrite lock_lt_irrefl in T. discriminate.
Qed.

(** Regression material (Model/LocksOld.v, frozen): the programs recorded on the code before the
    six lock-order repairs.  Each of the five schedules that blocked real threads for ever ends
    in a stuck configuration of the model too ... *)
Theorem C20_old_races_deadlock :
  forall w, In w old_races -> exists tr c, steps (init (fst w)) tr c /\ deadlocked c.
Proof.
  assert (H : forallb witness_ok old_races = true) by (vm_compute; reflexivity).
  rewrite forallb_forall in H. intros w Hw. specialize (H w Hw). unfold witness_ok in H.
  destruct (exec (init (fst w)) (snd w)) as [[c tr]|] eqn:E; [|discriminate].
  apply andb_true_iff in H. destruct H as [H1 H2]. apply negb_true_iff in H1.
  exists tr, c. exact (deadlocked_by_exec _ _ _ _ E H1 H2).
Qed.
Print Assumptions C20_old_races_deadlock.

(** ... and each of the five inversions (S/M and S/C: forget_channel; S/T: persist_all; M/T:
    new_channel; C/Mon: compact block decoding) by itself admits no rank at all, so the
    obligation [C20_ranked] could not be met by the old code, whatever the tool searched. *)
Theorem C20_old_inversions_unrankable :
  forall a b p q, In (a, b, p, q) old_inversions -> forall rank, all_ranked rank [p; q] = false.
Proof.
  assert (H : forallb (fun x => match x with (a, b, p, q) => has_edge a b p && has_edge b a q end)
                      old_inversions = true) by (vm_compute; reflexivity).
  rewrite forallb_forall in H. intros a b p q I rank. specialize (H _ I). cbn beta iota in H.
  apply andb_true_iff in H. destruct H as [H1 H2].
  apply (inversion_unrankable a b p q [p; q] H1 H2); cbn [In]; tauto.
Qed.
Print Assumptions C20_old_inversions_unrankable.

Theorem C20_old_programs_unrankable : forall rank, all_ranked rank old_progs = false.
Proof.
  apply (inversion_unrankable (1, 0) (2, 0) old_forget_channel_stub old_node_balance_query).
  - vm_compute. reflexivity.
  - vm_compute. reflexivity.
  - unfold old_progs. cbn [In]. tauto.
  - unfold old_progs. cbn [In]. tauto.
Qed.
Print Assumptions C20_old_programs_unrankable.

(** the checker itself refuses an inverted pair (negative control for [all_ranked]) *)
Example C20_checker_rejects_inversion :
  all_ranked (fun c => c) [[Acq (1,0); Acq (2,0); Rel (2,0); Rel (1,0)];
                           [Acq (2,0); Acq (1,0); Rel (1,0); Rel (2,0)]] = false /\
  all_ranked (fun c => c) [[Acq (1,0); Acq (1,0); Rel (1,0)]] = false /\
  all_ranked (fun c => c) [[Acq (1,0)]] = false /\
  all_guarded [[Acq (1,0); Rel (1,0); Touch (1,0)]] = false.
Proof. vm_compute. repeat split. Qed.
