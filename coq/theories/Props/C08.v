(** C08 — on-chain spends lose at most a bounded fee and fund only validated channels.
    Statements only; proofs are in Proofs/OnchainProofs.v (and Props/C12.v for the window).

    Reading of the vocabulary (Model/Onchain.v): an output [funds] a channel when it carries no
    wallet path, its script is not allowlisted, and a channel of this node has it as funding
    outpoint — the branch of [validate_onchain_tx] that treats the value as going into a channel.
    An output that the wallet can spend or whose script is allowlisted counts as returned to the
    wallet / allowlisted destination whatever channel points at it
    ([C08_allowlisted_shadows_channel] shows the consequence).

    The model describes [Node::check_onchain_tx] with the repair of
    notes/fixes/C08-fee-velocity-msat-no-wrap.patch (value * 1000 saturates);
    [C08_msat_wrap_refuted] keeps the witness against the code as found. *)
From VLS Require Import Base.U64 Model.Velocity Model.Onchain Proofs.OnchainProofs Props.C12.
From VLS Require Model.CommitmentPolicy.
From Coq Require Import List.

(** For every transaction (any number of inputs and outputs, any values — amounts are unbounded
    naturals with the code's checked / plain operations modelled, so every u64 overflow candidate
    is inside the quantifier), every classification of its outputs by the wallet and the allowlist,
    every set of channels pointing at it, every policy and every state of the fee velocity
    control: if [Node::check_onchain_tx] answers Ok under a non-permissive filter, then
    - every output is returned to the wallet, to an allowlisted script / xpub, or funds a channel
      that passed all channel checks;
    - inputs minus all outputs is exactly the non-beneficial value [nbv] (no sum overflowed);
    - [nbv] is below the fee at [max_feerate_per_kw + 1] for the weight lower bound [w];
    - every output funding a channel has the exact channel value and funding script, the channel
      is outbound, no satoshi is pushed and next_holder_commit_num = 1;
    - if any channel has an output of the transaction as funding outpoint, every input is segwit;
    - [nbv * 1000] (saturated to u64) was inserted into the fee velocity control, which approved
      it; the saturation never bites when the control has a finite limit or the weight is below 2^32. *)
Theorem C08_ok_implies :
  forall (warn : otag -> bool) (pol : opolicy) (c : vc) (now : N)
         (nc : nodecase) (nbv : N) (c1 : vc),
    (forall t, warn t = false) ->
    disable_beneficial pol = false ->
    max_feerate pol < U32MAX ->
    check_onchain warn pol c now nc = (COk nbv, c1) ->
    exists w,
      node_weight nc = Some w /\ w <> 0 /\
      Forall beneficial (n_outputs nc) /\
      sum_N (map i_value (n_prevs nc)) <= U64MAX /\
      nbv + sum_N (out_values (n_outputs nc)) = sum_N (map i_value (n_prevs nc)) /\
      nbv * 1000 + 999 < (max_feerate pol + 1) * w /\
      (forall o ch, In o (n_outputs nc) -> funds o ch -> chan_valid o ch) /\
      (any_chan (n_outputs nc) = true ->
         N.of_nat (length (n_flags nc)) = n_n_txin nc /\ Forall (fun b => b = true) (n_flags nc)) /\
      insert c now (sat_mul nbv 1000) = (c1, true) /\
      (limit c < U64MAX \/ w < two32 -> sat_mul nbv 1000 = nbv * 1000).
Proof.
  intros warn pol c now nc nbv c1 Hw Hd Hm H.
  apply check_ok_inv in H. destruct H as (w & W & V & -> & Ok).
  pose proof (validate_ok_strict warn pol _ nbv Hw V) as F.
  cbn [to_txcase t_version_two t_base_size t_outputs t_values t_weight t_flags t_n_txin] in F.
  destruct F as (_ & _ & B & Bin & _ & Eq & W0 & R & M).
  specialize (R Hd Hm). specialize (Ok (Hw _)).
  exists w. repeat (split; [assumption|]).
  split.
  { intros o ch Hin Hf. rewrite Forall_forall in B. eapply beneficial_funds; [apply B; exact Hin | exact Hf]. }
  split; [exact M|].
  split.
  { destruct (insert c now (sat_mul nbv 1000)) as [c' ok]. cbn [fst snd] in *. subst ok. reflexivity. }
  intros [L | L].
  - apply (accepted_exact c now nbv L Ok).
  - unfold sat_mul. pose proof (rate_bounds_msat nbv _ w Hm L R). lia.
Qed.
Print Assumptions C08_ok_implies.

(** The validator alone, for an arbitrary filter: a conjunct can be missing only when its own
    tag is downgraded to a warning; the sums never overflow whatever the filter says. *)
Theorem C08_ok_per_tag :
  forall (warn : otag -> bool) (pol : opolicy) (tx : txcase) (nbv : N),
    validate_onchain warn pol tx = VOk nbv ->
    (warn T_format_standard = false -> t_version_two tx = true) /\
    (warn T_max_size = false -> t_base_size tx <= MAX_ONCHAIN_TX_SIZE) /\
    (any_chan (t_outputs tx) = true ->
       N.of_nat (length (t_flags tx)) = t_n_txin tx /\
       (warn T_non_malleable = false -> Forall (fun b => b = true) (t_flags tx))) /\
    Forall (passable warn) (t_outputs tx) /\
    unknown_idx (t_outputs tx) = [] /\
    sum_N (t_values tx) <= U64MAX /\
    sum_N (map counted (t_outputs tx)) <= U64MAX /\
    nbv + sum_N (map counted (t_outputs tx)) = sum_N (t_values tx) /\
    t_weight tx <> 0 /\
    (warn T_fee_range = false -> disable_beneficial pol = false -> max_feerate pol < U32MAX ->
       nbv * 1000 + 999 < (max_feerate pol + 1) * t_weight tx).
Proof. exact validate_ok_facts. Qed.
Print Assumptions C08_ok_per_tag.

(** Each channel check, for an arbitrary filter, on every output that funds a channel. *)
Theorem C08_funded_checked :
  forall warn pol tx nbv o ch,
    validate_onchain warn pol tx = VOk nbv -> In o (t_outputs tx) -> funds o ch ->
    chan_valid_w warn o ch.
Proof.
  intros warn pol tx nbv o ch H Hin Hf. apply validate_ok_facts in H.
  destruct H as (_ & _ & _ & P & _). rewrite Forall_forall in P.
  eapply passable_funds; [apply P; exact Hin | exact Hf].
Qed.

(** Unknown destinations.  An answer UnknownDestinations carries exactly the indices of the
    outputs nobody vouches for, in order; a transaction with such an output is never accepted;
    and when nothing else refuses, that answer is what comes back. *)
Theorem C08_unknown_exact :
  forall warn pol tx u,
    validate_onchain warn pol tx = VUnknown u -> u = unknown_idx (t_outputs tx) /\ u <> [].
Proof. exact unknown_exact. Qed.

Theorem C08_unknown_never_ok :
  forall warn pol tx,
    unknown_idx (t_outputs tx) <> [] ->
    match validate_onchain warn pol tx with
    | VOk _ => False
    | VUnknown u => u = unknown_idx (t_outputs tx)
    | VErr _ | VPanic => True
    end.
Proof. exact unknown_never_ok. Qed.

Theorem C08_unknown_reported :
  forall warn pol tx,
    (t_version_two tx = true \/ warn T_format_standard = true) ->
    (t_base_size tx <= MAX_ONCHAIN_TX_SIZE \/ warn T_max_size = true) ->
    (any_chan (t_outputs tx) = true ->
       N.of_nat (length (t_flags tx)) = t_n_txin tx /\
       (Forall (fun b => b = true) (t_flags tx) \/ warn T_non_malleable = true)) ->
    Forall (quiet warn) (t_outputs tx) ->
    sum_N (map counted (t_outputs tx)) <= U64MAX ->
    unknown_idx (t_outputs tx) <> [] ->
    validate_onchain warn pol tx = VUnknown (unknown_idx (t_outputs tx)).
Proof. exact unknown_reported. Qed.
Print Assumptions C08_unknown_reported.

(** The approver lets a transaction through only if the node's check passed, or the check
    reported exactly the unclassified outputs and the approver said yes to that very list
    (in which case the fee velocity control is untouched). *)
Theorem C08_approval_needed :
  forall warn pol approve c now nc c1,
    handle_proposed warn pol approve c now nc = (HApproved, c1) ->
    (exists nbv, check_onchain warn pol c now nc = (COk nbv, c1)) \/
    (check_onchain warn pol c now nc = (CUnknown (unknown_idx (n_outputs nc)), c1) /\
     unknown_idx (n_outputs nc) <> [] /\
     approve (unknown_idx (n_outputs nc)) = true /\ c1 = c).
Proof. exact handle_approved. Qed.
Print Assumptions C08_approval_needed.

(** Explicit approvals are used once and name the transaction.  For the memorizing approver over
    a delegate that declines, in every history of [approve] calls and requests: a request is
    answered yes only if the operation immediately before it is an [approve] whose list contains
    this very transaction (identity = the whole transaction: inputs, outputs, locktime, version).
    Any request in between uses the approvals up; a transaction that merely shares outputs with
    an approved one is a different identity.  With [C08_approval_needed]: a transaction with
    unclassified outputs is signed only on such an approval. *)
Theorem C08_memo_exact_once :
  forall (pre : list mop) (tx : N),
    snd (mstep (fun _ => false) (fst (mrun (fun _ => false) [] pre)) (MAsk tx)) = Some true ->
    exists pre' txs, pre = pre' ++ [MSet txs] /\ In tx txs.
Proof. exact memo_exact_once. Qed.
Print Assumptions C08_memo_exact_once.

Example C08_memo_nonvacuous :
  snd (mrun (fun _ => false) [] [MSet [7]; MAsk 7; MAsk 7; MSet [7]; MAsk 8; MAsk 7; MSet [7; 8]; MAsk 8])
    = [true; false; false; false; true].
Proof. vm_compute. reflexivity. Qed.

(** Overflow candidates: input values or counted output values summing above u64 are refused
    whatever the filter. *)
Theorem C08_overflow_refused :
  forall warn pol tx nbv,
    U64MAX < sum_N (t_values tx) \/ U64MAX < sum_N (map counted (t_outputs tx)) ->
    validate_onchain warn pol tx <> VOk nbv.
Proof.
  intros warn pol tx nbv [H|H].
  - apply inputs_overflow_refused. exact H.
  - apply outputs_overflow_refused. exact H.
Qed.

(** Cumulative fees: for every policy (any maximum feerate, any dev flag), every spec with a
    finite fee limit and every history of on-chain requests (each followed by the signing that
    persists the node entry when it passed), other node-entry writes and restarts with
    non-decreasing times, the non-beneficial values (true values, in msat) of the accepted
    transactions inside any window no longer than the tracked interval minus one bucket sum to at
    most the limit.  This is [C12_window] for the fee control: the history is the velocity
    history whose approvals are the validated transactions. *)
Theorem C08_fee_velocity :
  forall (warn : otag -> bool) (pol : opolicy) (it : itype) (lim0 : N) (ops : list oop),
    warn T_fee_range = false ->
    let '(lim, ivl, nb) := spec_triple it lim0 in
    lim < U64MAX ->
    nondecreasing 0 (oop_times ops) = true ->
    forall t0 len : N,
      len <= (N.of_nat nb - 1) * ivl ->
      wsum (in_window t0 len) (snd (orun warn pol it lim0 ops)) <= lim.
Proof.
  intros warn pol it lim0 ops Hw.
  pose proof (orun_is_vrun warn pol it lim0 Hw) as Sim.
  pose proof (C12_window it lim0 (to_vops warn pol ops)) as H.
  destruct (spec_triple it lim0) as [[l i] n]. cbn [fst] in Sim.
  intros Hl Hnd t0 len Hlen. rewrite (Sim Hl ops).
  apply H; [exact Hl | | exact Hlen].
  apply to_vops_times. exact Hnd.
Qed.
Print Assumptions C08_fee_velocity.

(** * Non-vacuity *)

Definition pol_ex : opolicy := mkOPol 333333 false.
Definition ch_ok (v : N) : chanfacts := mkChan v true 1 true 0.

(** two wallet inputs (one swept from a unilateral close), change to the wallet, two channels
    funded at once, an allowlisted script and an allowlisted xpub: accepted with fee 1000 sat,
    which lands in the current bucket of the fee control *)
Definition nc_ex : nodecase :=
  mkNode true 400 1100 2 [true; true]
         [mkIn 3000000 true; mkIn 2101000 true] [None; Some 34]
         [ mkOut 1000000 WalletPath (Some true) (Some false) false None;
           mkOut 3000000 EmptyPath (Some false) (Some false) false (Some (ch_ok 3000000));
           mkOut 1000000 EmptyPath (Some false) (Some false) false (Some (ch_ok 1000000));
           mkOut 50000 EmptyPath (Some false) (Some true) true None;
           mkOut 50000 WalletPath (Some false) (Some true) false None ].

Example C08_nonvacuous :
  let c := of_spec Daily 1000000000 in
  check_onchain strict pol_ex c 7200 nc_ex
    = (COk 1000, mkvc 7200 3600 (1000000 :: repeat 0 23) 1000000000) /\
  node_weight nc_ex = Some 1321 /\
  (forall w, node_weight nc_ex = Some w -> w < two32) /\
  unknown_idx (n_outputs nc_ex) = [].
Proof.
  split; [vm_compute; reflexivity|]. split; [vm_compute; reflexivity|].
  split; [|vm_compute; reflexivity].
  intros w H. vm_compute in H. inversion H. vm_compute. reflexivity.
Qed.

(** the same transaction with two outputs nobody vouches for: reported by index, and approved
    only on the approver's word *)
Definition nc_unknown : nodecase :=
  mkNode true 400 1100 2 [true; true]
         [mkIn 3000000 true; mkIn 2101000 true] [None; None]
         [ mkOut 1000000 EmptyPath (Some false) (Some false) false None;
           mkOut 3000000 EmptyPath (Some false) (Some false) false (Some (ch_ok 3000000));
           mkOut 1000000 EmptyPath (Some false) (Some false) false None ].

Example C08_unknown_nonvacuous :
  let c := of_spec Daily 1000000000 in
  unknown_idx (n_outputs nc_unknown) = [0; 2] /\
  fst (check_onchain strict pol_ex c 7200 nc_unknown) = CUnknown [0; 2] /\
  fst (handle_proposed strict pol_ex (fun _ => false) c 7200 nc_unknown) = HRejected /\
  handle_proposed strict pol_ex (fun u => if list_eq_dec N.eq_dec u [0; 2] then true else false) c 7200 nc_unknown
    = (HApproved, c).
Proof. vm_compute. repeat split. Qed.

(** a history in which the daily fee limit is reached exactly, across a restart *)
Definition fee_tx (sat : N) : nodecase :=
  mkNode true 60 240 1 [] [mkIn sat true] [None] [].

Example C08_fee_velocity_nonvacuous :
  let pol := mkOPol 4000000000 false in
  let ops := [OTx 1000 (fee_tx 600000); ORestart; OTx 1200 (fee_tx 400000);
              OTx 1201 (fee_tx 1); OPersist; OTx 90000 (fee_tx 1000000)] in
  nondecreasing 0 (oop_times ops) = true /\
  snd (orun strict pol Daily 1000000000 ops)
    = [(1000, 600000000); (1200, 400000000); (90000, 1000000000)] /\
  wsum (in_window 1000 82800) (snd (orun strict pol Daily 1000000000 ops)) = 1000000000.
Proof. vm_compute. repeat split. Qed.

(** * Boundaries of the statement *)

(** [max_feerate_per_kw = u32::MAX] means "no maximum": the estimate saturates there *)
Example C08_max_feerate_u32max_is_unlimited :
  validate_onchain strict (mkOPol U32MAX false)
                   (mkTx true 60 1 [] [18446744073709551615] [] 240) = VOk 18446744073709551615.
Proof. vm_compute. reflexivity. Qed.

(** an output whose script is allowlisted is an allowlisted destination even when a channel that
    has not seen its initial commitment points at it: the channel checks belong to the branch
    that counts the value as going into a channel *)
Example C08_allowlisted_shadows_channel :
  let o := mkOut 1000000 EmptyPath (Some false) (Some true) true (Some (mkChan 5 false 0 false 7000)) in
  validate_onchain strict pol_ex (mkTx true 100 1 [true] [1001000] [o] 600) = VOk 1000 /\
  beneficial o /\ forall ch, ~ funds o ch.
Proof.
  split; [vm_compute; reflexivity|]. split; [left; reflexivity|].
  intros ch (_ & A & _). discriminate.
Qed.

(** a push below one satoshi is not a push for this check (push_value_msat / 1000 = 0) *)
Example C08_sub_satoshi_push :
  validate_onchain strict pol_ex
    (mkTx true 100 1 [true] [1001000]
          [mkOut 1000000 EmptyPath (Some false) (Some false) false (Some (mkChan 1000000 true 1 true 999))]
          600) = VOk 1000.
Proof. vm_compute. reflexivity. Qed.

(** * The estimator as found (before a9578bf): [((nbv * 1000 + 999) / weight) as u32] truncates, so a
    non-beneficial value of 25.7 BTC on a 600 wu transaction read as 302 sat/kw and passed; the
    repaired estimator saturates and refuses it *)
Definition validate_beneficial_old (p : profile) (pol : opolicy) (sum_in sum_out w : N) : vres :=
  match sub_checked sum_in sum_out with
  | None => VErr T_format_standard
  | Some nbv =>
      match CommitmentPolicy.estimate_feerate_per_kw_old p nbv w with
      | Trap => VPanic
      | Val r => if max_feerate pol <? r then VErr T_fee_range else VOk nbv
      end
  end.

Example C08_rate_truncation_refuted :
  exists nbv w,
    (forall p, validate_beneficial_old p pol_ex nbv 0 w = VOk nbv) /\
    ~ nbv * 1000 + 999 < (max_feerate pol_ex + 1) * w /\
    validate_beneficial strict pol_ex nbv 0 w = VErr T_fee_range.
Proof.
  exists 2576980558, 600.
  split; [intros []; vm_compute; reflexivity|].
  split; [vm_compute; intros H; discriminate | vm_compute; reflexivity].
Qed.

(** * [Node::check_onchain_tx] as found: [non_beneficial_sat * 1000] in plain u64 arithmetic.  With no
    effective rate bound (max_feerate_per_kw = u32::MAX) a non-beneficial value of 2^64 / 1000
    satoshi (rounded up) is counted as 384 msat by a release build — accepted under an hourly limit of
    10 000 000 msat — and panics a debug build; the repaired code refuses it *)
Example C08_msat_wrap_refuted :
  exists pol c now nc nbv c1,
    check_onchain_old Release strict pol c now nc = (COk nbv, c1) /\
    limit c < nbv * 1000 /\ velocity c1 = 384 /\
    check_onchain_old Debug strict pol c now nc = (CPanic, c) /\
    fst (check_onchain strict pol c now nc) = CErr T_fee_range.
Proof.
  exists (mkOPol U32MAX false), (of_spec Hourly 10000000), 161398, (fee_tx 18446744073709552).
  eexists. eexists. split; [vm_compute; reflexivity|].
  split; [vm_compute; reflexivity|]. split; [vm_compute; reflexivity|].
  split; vm_compute; reflexivity.
Qed.

Check C08_ok_implies.
Check C08_unknown_reported.
Check C08_fee_velocity.

(** The feerate estimate behind the non-beneficial-value bound of the on-chain model is the one in the source.  Gen/TxUtilGen.v is the statement-by-statement translation of [estimate_feerate_per_kw]
    (vls-core/src/util/transaction_utils.rs, regenerated on every run by tools/gen_rustfn.py): for
    every u64 fee and every non-zero weight it returns, in both build profiles, the model's value. *)
From VLS Require Gen.TxUtilGen Proofs.TxUtilGenProofs.
Theorem C08_feerate_estimate_is_source :
  forall (prof : profile) (fee w : N),
    fee <= U64MAX -> 0 < w ->
    TxUtilGen.gen_estimate_feerate_per_kw prof fee w = Val (Onchain.estimate fee w).
Proof. exact TxUtilGenProofs.gen_estimate_is_model. Qed.
Print Assumptions C08_feerate_estimate_is_source.

(** The numeric rules behind the non-beneficial-value bound are the ones in the source.
    Gen/OnchainGen.v is the statement-by-statement translation (tools/gen_rustfn.py, regenerated on
    every run) of SimpleValidator::validate_beneficial_value - the whole body: the checked
    difference of inputs and beneficial outputs (policy-onchain-format-standard, unfiltered), the
    feerate estimate of Gen/TxUtilGen.v, the maximum feerate, the developer flag through
    `dev_flags.as_ref().unwrap_or(&DEFAULT_DEV_FLAGS)` (DEFAULT_DEV_FLAGS read from the file),
    policy-onchain-fee-range through the filter - and of the fee tail of ::validate_onchain_tx: the
    statements from `let mut sum_inputs: u64 = 0;` to the end of the function (the checked sum of the
    input values, policy-onchain-fee-range unfiltered on overflow; the call of
    validate_beneficial_value with its `?`; Ok(non_beneficial)), read as a function of the three
    variables they use.  For every source-level policy, every filter and both build profiles the
    generated functions answer what [validate_beneficial] and the last two steps of
    [validate_onchain] answer - value, refusal tag or panic.  Side condition of the first theorem:
    the input sum is a u64; the tail needs none (its sum is made by checked additions).
    Not translated: the per-output loop of validate_onchain_tx (a local macro, locks on channel
    slots, a match on their state, a growing vector of unknown indices) and Node::check_onchain_tx
    (locks, iterator chains); they stay tied by the correspondence check. *)
From VLS Require Gen.CommitmentPolicyGen Gen.OnchainGen Proofs.OnchainGenProofs.
Theorem C08_beneficial_value_rule_is_source :
  forall (prof : profile) (swarn : string -> bool) (gp : CommitmentPolicyGen.SimplePolicy)
         (sum_inputs sum_beneficial weight : N),
    (sum_inputs <=? U64MAX) = true ->
    OnchainGen.gen_validate_beneficial_value prof swarn gp sum_inputs sum_beneficial weight =
    OnchainGenProofs.of_vres
      (validate_beneficial (OnchainGenProofs.otag_filter swarn) (OnchainGenProofs.abs_opolicy gp)
         sum_inputs sum_beneficial weight).
Proof. exact OnchainGenProofs.gen_beneficial_is_model. Qed.
Print Assumptions C08_beneficial_value_rule_is_source.

Theorem C08_onchain_rules_are_source :
  forall (prof : profile) (swarn : string -> bool) (gp : CommitmentPolicyGen.SimplePolicy)
         (beneficial_sum : N) (values_sat : list N) (weight_lower_bound : N),
    OnchainGen.gen_validate_onchain_tx_fee_tail prof swarn gp beneficial_sum values_sat weight_lower_bound =
    OnchainGenProofs.of_vres
      (match sum_checked values_sat 0 with
       | None => VErr T_fee_range
       | Some sum_inputs =>
           validate_beneficial (OnchainGenProofs.otag_filter swarn) (OnchainGenProofs.abs_opolicy gp)
             sum_inputs beneficial_sum weight_lower_bound
       end).
Proof. exact OnchainGenProofs.gen_fee_tail_is_model. Qed.
Print Assumptions C08_onchain_rules_are_source.
