(** Auxiliary theorems next to C06 (NOT deciding the property): the CLTV-delta rule of the payment
    check.  Property C06 is about amounts; the rule below is part of the same function
    (NodeState::validate_payments) and is what the C06_payment_check_* theorems assume to pass.  It is
    stated here over the translated source so that this part of the function is inside the development
    too.  A change of the CLTV rule in /repo breaks these theorems but not C06: the check reports them
    under coverage.auxiliary and raises no alarm for them. *)
From Coq Require Import String List.
From Coq Require Permutation.
From VLS Require Import Base.U64.
From VLS Require Base.Rust Gen.CommitmentPolicyGen Gen.NodePaymentsGen.

(** The CLTV-delta rule of the source is enforced (policy-routing-cltv-delta), not only assumed.  The
    C06_payment_check_* theorems above take the rule as a premise ([cltv_pass]) because Model/Payments.v
    has no CLTV values; the three theorems below state it directly over the translated source
    (Gen/NodePaymentsGen.v, regenerated from vls-core/src/node.rs and policy/simple_validator.rs on
    every run).  Whenever NodeState::validate_payments (whole body) accepts - for every state, every
    policy, every pair of summaries, every visiting order of the hash set and both build profiles -
    every hash of the two summaries whose payment record carries both bounds has
    outgoing_cltv_max < incoming_cltv_min and incoming_cltv_min - outgoing_cltv_max >= policy.cltv_delta
    (the tag not downgraded by the filter; the stored bounds are u32 as their field type says: with
    that the wrapped subtraction of a release build is never reached with incoming <= outgoing). *)
From VLS Require Proofs.CltvRuleProofs.
Theorem AUX_C06_cltv_rule_is_enforced_by_source :
  forall (prof : profile) (swarn : String.string -> bool) (gp : CommitmentPolicyGen.SimplePolicy)
         (ord : list N -> list N) (ns : NodePaymentsGen.NodeState) (ch : N)
         (im om : list (N * N)) (bd : NodePaymentsGen.BalanceDelta) (vid : N),
    (forall l, Permutation.Permutation (ord l) l) ->
    swarn "policy-routing-cltv-delta"%string = false ->
    CltvRuleProofs.bounds_u32 ns ->
    NodePaymentsGen.gen_NodeState_validate_payments prof swarn gp ord ns ch im om bd vid = Val (Rust.OkR tt) ->
    forall h, In h (Rust.set_extend (Rust.set_extend [] (Rust.map_keys im)) (Rust.map_keys om)) ->
      match Rust.map_get (NodePaymentsGen.NodeState_payments ns) h with
      | Some p =>
          match NodePaymentsGen.RoutedPayment_incoming_cltv_min p, NodePaymentsGen.RoutedPayment_outgoing_cltv_max p with
          | Some i, Some c => c < i /\ CommitmentPolicyGen.SimplePolicy_cltv_delta gp <= i - c
          | _, _ => True
          end
      | None => True
      end.
Proof. exact CltvRuleProofs.validate_payments_ok_cltv. Qed.
Print Assumptions AUX_C06_cltv_rule_is_enforced_by_source.

(** The same with the refusal made explicit: a record among the hashes whose stored bounds break the
    rule makes validate_payments answer something other than Ok - whatever the amounts are. *)
Theorem AUX_C06_cltv_violation_is_refused_by_source :
  forall (prof : profile) (swarn : String.string -> bool) (gp : CommitmentPolicyGen.SimplePolicy)
         (ord : list N -> list N) (ns : NodePaymentsGen.NodeState) (ch : N)
         (im om : list (N * N)) (bd : NodePaymentsGen.BalanceDelta) (vid : N)
         (h : N) (p : NodePaymentsGen.RoutedPayment) (i c : N),
    (forall l, Permutation.Permutation (ord l) l) ->
    swarn "policy-routing-cltv-delta"%string = false ->
    CltvRuleProofs.bounds_u32 ns ->
    In h (Rust.set_extend (Rust.set_extend [] (Rust.map_keys im)) (Rust.map_keys om)) ->
    Rust.map_get (NodePaymentsGen.NodeState_payments ns) h = Some p ->
    NodePaymentsGen.RoutedPayment_incoming_cltv_min p = Some i ->
    NodePaymentsGen.RoutedPayment_outgoing_cltv_max p = Some c ->
    (i <= c \/ i - c < CommitmentPolicyGen.SimplePolicy_cltv_delta gp) ->
    NodePaymentsGen.gen_NodeState_validate_payments prof swarn gp ord ns ch im om bd vid <> Val (Rust.OkR tt).
Proof. exact CltvRuleProofs.validate_payments_cltv_refuses. Qed.
Print Assumptions AUX_C06_cltv_violation_is_refused_by_source.

(** Booking only tightens the stored bounds: RoutedPayment::apply (whole body) never panics, lowers
    incoming_cltv_min or leaves it, raises outgoing_cltv_max or leaves it, never clears either and
    never touches the preimage - so a record that the rule refuses stays refused after any number of
    bookings (its margin incoming_min - outgoing_max never grows). *)
Theorem AUX_C06_cltv_bounds_only_tighten :
  forall (prof : profile) (p : NodePaymentsGen.RoutedPayment) (ch i o : N) (ic oc : option N) (a b delta : N),
    NodePaymentsGen.RoutedPayment_incoming_cltv_min p = Some a ->
    NodePaymentsGen.RoutedPayment_outgoing_cltv_max p = Some b ->
    (a <= b \/ a - b < delta) ->
    exists p' a' b', NodePaymentsGen.gen_RoutedPayment_apply prof p ch i o ic oc = Val p' /\
      NodePaymentsGen.RoutedPayment_incoming_cltv_min p' = Some a' /\
      NodePaymentsGen.RoutedPayment_outgoing_cltv_max p' = Some b' /\
      (a' <= b' \/ a' - b' < delta).
Proof. exact CltvRuleProofs.apply_keeps_cltv_violation. Qed.
Print Assumptions AUX_C06_cltv_bounds_only_tighten.

(** Over every booking history of a record: [book] folds the translated RoutedPayment::apply over any
    sequence of bookings (channel, amounts, optional incoming / outgoing expiry).  Starting from a
    record whose bounds are the extrema of what was seen so far (a fresh RoutedPayment::new with
    nothing seen is one), it never panics, and afterwards incoming_cltv_min is a lower bound of every
    incoming expiry ever booked and is one of them, outgoing_cltv_max an upper bound of every outgoing
    expiry ever booked and one of them - for histories of any length. *)
Theorem AUX_C06_cltv_bounds_are_extrema_of_history :
  forall (prof : profile) (l : list CltvRuleProofs.booking) (p : NodePaymentsGen.RoutedPayment)
         (seen_in seen_out : list N),
    CltvRuleProofs.opt_all_ge (NodePaymentsGen.RoutedPayment_incoming_cltv_min p) seen_in ->
    CltvRuleProofs.opt_all_le (NodePaymentsGen.RoutedPayment_outgoing_cltv_max p) seen_out ->
    (forall m, NodePaymentsGen.RoutedPayment_incoming_cltv_min p = Some m -> In m seen_in) ->
    (forall m, NodePaymentsGen.RoutedPayment_outgoing_cltv_max p = Some m -> In m seen_out) ->
    exists p', CltvRuleProofs.book prof p l = Val p' /\
      let all_in := seen_in ++ CltvRuleProofs.somes (map CltvRuleProofs.b_ic l) in
      let all_out := seen_out ++ CltvRuleProofs.somes (map CltvRuleProofs.b_oc l) in
      CltvRuleProofs.opt_all_ge (NodePaymentsGen.RoutedPayment_incoming_cltv_min p') all_in /\
      CltvRuleProofs.opt_all_le (NodePaymentsGen.RoutedPayment_outgoing_cltv_max p') all_out /\
      (forall m, NodePaymentsGen.RoutedPayment_incoming_cltv_min p' = Some m -> In m all_in) /\
      (forall m, NodePaymentsGen.RoutedPayment_outgoing_cltv_max p' = Some m -> In m all_out).
Proof. exact CltvRuleProofs.book_bounds_are_extrema. Qed.
Print Assumptions AUX_C06_cltv_bounds_are_extrema_of_history.

(** Non-vacuity on the whole translated function: a state with a forwarded payment whose record has both
    bounds (policy.cltv_delta = 34).  Bounds (1050, 1000): accepted, so the premise of
    AUX_C06_cltv_rule_is_enforced_by_source is met by a record with both bounds; bounds (1030, 1000):
    refused with policy-routing-cltv-delta although the amounts balance. *)
Theorem AUX_C06_cltv_nonvacuous :
  NodePaymentsGen.gen_NodeState_validate_payments Debug (fun _ => false) CltvRuleProofs.ex_policy (fun l => l)
    (CltvRuleProofs.ex_state 1050 1000) 0 [(7, 100)] [] (NodePaymentsGen.mk_BalanceDelta 0 0) 0 = Val (Rust.OkR tt)
  /\
  NodePaymentsGen.gen_NodeState_validate_payments Debug (fun _ => false) CltvRuleProofs.ex_policy (fun l => l)
    (CltvRuleProofs.ex_state 1030 1000) 0 [(7, 100)] [] (NodePaymentsGen.mk_BalanceDelta 0 0) 0
    = Val (Rust.ErrR "policy-routing-cltv-delta"%string).
Proof.
  split; [exact (proj1 CltvRuleProofs.validate_payments_accepts_with_bounds)
         | exact (proj1 CltvRuleProofs.validate_payments_refuses_small_margin)].
Qed.
Print Assumptions AUX_C06_cltv_nonvacuous.
