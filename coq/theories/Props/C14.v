(** C14 — channel monitors depend only on the current best chain.
    Statements only; proofs are in Proofs/Monitor*.v.  The model describes the code with the
    two repairs of on_remove_block_end / apply_backward_change ([repaired]); the behaviour
    before each repair is kept as a [_refuted] example. *)
From VLS Require Import Base.U64 Model.Monitor Proofs.MonitorProofs.

(** Connecting a block and then disconnecting it restores the previous view — the whole
    monitor state, the watched outpoints and the seen set (up to the sync flag saw_block,
    which is not part of a channel's view) — for every consistent chain, every block that
    extends it consistently, any grouping of transactions inside the block; and the
    disconnection does not abort. *)
Theorem C14_undo :
  forall (g : cfg) (h0 : N) (chain : list block) (b : block) (m m' : mon),
    consistent g (chain ++ [b]) = true ->
    run_adds g (init_mon g h0) chain = Ok m ->
    madd g m b = Ok m' ->
    mremove repaired g m' b = Ok (norm m).
Proof. exact undo. Qed.
Print Assumptions C14_undo.

(** After any admissible history of connections and disconnections (reorganisations of any
    depth down to the height at which the monitor was created) the monitor equals, up to the
    sync flag, the one obtained by connecting only the blocks of the surviving best chain. *)
Theorem C14_best_chain :
  forall (g : cfg) (h0 : N) (ops : list op),
    hist_ok g [] ops -> h0 + count_adds ops <= U32MAX ->
    exists m m',
      run repaired g (init_mon g h0) ops = Ok m
      /\ run_adds g (init_mon g h0) (best_chain ops) = Ok m'
      /\ norm m = norm m'.
Proof. exact best_chain_thm. Qed.
Print Assumptions C14_best_chain.

(** ... and that equality covers every view the property names. *)
Theorem C14_views :
  forall m m' : mon, norm m = norm m' ->
    funding_depth (m_state m) = funding_depth (m_state m')
    /\ double_spent_depth (m_state m) = double_spent_depth (m_state m')
    /\ closing_depth (m_state m) = closing_depth (m_state m')
    /\ (forall forgot, is_done (m_state m) forgot = is_done (m_state m') forgot)
    /\ clo (m_state m) = clo (m_state m')
    /\ closing_swept_h (m_state m) = closing_swept_h (m_state m')
    /\ our_swept_h (m_state m) = our_swept_h (m_state m')
    /\ m_watches m = m_watches m' /\ m_seen m = m_seen m'.
Proof. exact norm_views. Qed.
Print Assumptions C14_views.

(** The ChainState that as_chain_state hands to the validators (current height, funding,
    double-spend and closing depth) is part of that view, and it is the same closing depth
    as the monitor's own getter reports whenever at most one kind of close is recorded. *)
Theorem C14_chain_state :
  forall m m' : mon, norm m = norm m' -> chain_state (m_state m) = chain_state (m_state m').
Proof. exact norm_chain_state. Qed.
Print Assumptions C14_chain_state.
Theorem C14_chain_state_getters :
  forall s : state, (mutual_h s = None \/ unilateral_h s = None) ->
    chain_state s = (height s, funding_depth s, double_spent_depth s, closing_depth s).
Proof. exact chain_state_getters. Qed.
Print Assumptions C14_chain_state_getters.

(** Restarts anywhere in a history change nothing: the monitor is restored from exactly what
    it persisted (state, watches, seen), so the best-chain theorem holds with restarts. *)
Theorem C14_best_chain_restarts :
  forall (g : cfg) (h0 : N) (rops : list rop),
    hist_ok g [] (deliveries rops) -> h0 + count_adds (deliveries rops) <= U32MAX ->
    exists m m',
      run_r repaired g (init_mon g h0) rops = Ok m
      /\ run_adds g (init_mon g h0) (best_chain (deliveries rops)) = Ok m'
      /\ norm m = norm m'.
Proof. intros g h0 rops. rewrite restarts_transparent. apply best_chain_thm. Qed.
Print Assumptions C14_best_chain_restarts.

(** "Within the window": the tracker remembers up to MAX_REORG_SIZE = 100 previous headers;
    after any sequence of connections, disconnections and restarts, the next disconnection
    is accepted exactly when it neither goes below the height at which the tracker was
    created nor more than MAX_REORG_SIZE blocks below the highest block ever connected - in
    particular a reorganisation of exactly MAX_REORG_SIZE blocks is inside the window. *)
Theorem C14_window :
  forall ops : list wop,
    let s := wrun winit ops in
    snd (wnext s WRemove) = true <-> (0 < w_len s /\ w_peak s - w_len s < MAX_REORG_SIZE).
Proof. exact window_accepts. Qed.
Print Assumptions C14_window.
Example C14_window_edge :
  let connect n := repeat WAdd n in let disconnect n := repeat WRemove n in
  (* 103 connected, 99 back, 99 forward, exactly 100 back: all accepted; one more: refused *)
  win_trace winit (connect 103%nat ++ disconnect 99%nat ++ connect 99%nat ++ disconnect 100%nat ++ [WRemove])
  = map Some (map N.of_nat (seq 1 100)) ++ [Some 100; Some 100; Some 100]
    ++ map Some (map N.of_nat (rev (seq 1 99))) ++ map Some (map N.of_nat (seq 2 99))
    ++ map Some (map N.of_nat (rev (seq 0 100))) ++ [None].
Proof. vm_compute. reflexivity. Qed.

(** Processing an admissible history never aborts: neither a connection nor a disconnection. *)
Theorem C14_no_abort :
  forall (g : cfg) (h0 : N) (ops : list op),
    hist_ok g [] ops -> h0 + count_adds ops <= U32MAX ->
    run repaired g (init_mon g h0) ops <> Abort.
Proof. exact no_abort_thm. Qed.
Print Assumptions C14_no_abort.

(** Non-vacuity: funding; then {commitment with one HTLC, sweep of our output} in one block;
    then {HTLC spend, second-level spend} in one block; a reorganisation of depth 2 that
    re-connects the three transactions regrouped.  The history is admissible, runs, and ends
    in the monitor of its best chain with the closing output swept. *)
Definition ex_cfg : cfg := mkcfg 10 1 [(1, 0); (2, 0)].
Definition ex_F : tx := mktx 10 [(1, 0); (2, 0)] 2 NotCommitment.
Definition ex_C : tx := mktx 21 [(10, 1)] 3 (Commitment (Some 2) [0]).
Definition ex_S : tx := mktx 30 [(21, 2)] 1 NotCommitment.
Definition ex_H : tx := mktx 40 [(3, 5); (21, 0)] 2 NotCommitment.
Definition ex_X : tx := mktx 50 [(40, 1)] 1 NotCommitment.
Definition ex_ops : list op :=
  [Add [ex_F]; Add [ex_C; ex_S]; Add [ex_H; ex_X]; Remove [ex_H; ex_X]; Remove [ex_C; ex_S];
   Add [ex_C]; Add [ex_S; ex_H]; Add [ex_X]].
Lemma ex_ops_ok : hist_ok ex_cfg [] ex_ops.
Proof. cbn [hist_ok ex_ops]. repeat split; vm_compute; reflexivity. Qed.
Example C14_nonvacuous :
  hist_ok ex_cfg [] ex_ops
  /\ best_chain ex_ops = [[ex_F]; [ex_C]; [ex_S; ex_H]; [ex_X]]
  /\ exists m, run repaired ex_cfg (init_mon ex_cfg 5) ex_ops = Ok m
       /\ run_adds ex_cfg (init_mon ex_cfg 5) (best_chain ex_ops) = Ok m
       /\ height (m_state m) = 9 /\ closing_swept_h (m_state m) = Some 9 /\ our_swept_h (m_state m) = Some 8
       /\ m_watches m = [] /\ m_seen m = [(1, 0); (2, 0); (10, 1); (21, 0); (21, 2); (40, 1)].
Proof.
  split; [exact ex_ops_ok|]. split; [reflexivity|].
  eexists. split; [vm_compute; reflexivity|]. vm_compute. repeat split.
Qed.

(** The statements are false of the code before the first repair (backward changes applied
    first-to-last): disconnecting the block {commitment, sweep of our output} aborts
    ([unwrap] on [None] in apply_backward_change: the close is undone before the sweep). *)
Example C14_old_order_refuted :
  exists (g : cfg) (chain : list block) (b : block) (m m' : mon),
    consistent g (chain ++ [b]) = true /\ chain_wf g (chain ++ [b]) = true
    /\ run_adds g (init_mon g 0) chain = Ok m /\ madd g m b = Ok m'
    /\ mremove (mkfx false true) g m' b = Abort.
Proof.
  exists ex_cfg, [[ex_F]], [ex_C; ex_S]. eexists. eexists.
  split; [vm_compute; reflexivity|]. split; [vm_compute; reflexivity|].
  split; [vm_compute; reflexivity|]. split; [vm_compute; reflexivity|]. vm_compute. reflexivity.
Qed.

(** ... and of the code before the second repair (HTLCOutputSpent / SecondLevelHTLCOutputSpent
    reported exchanged add / remove lists on the way back): after disconnecting the block with
    the HTLC spend the HTLC output (21,0) is no longer watched and the second-level outpoint
    (40,1) still is. *)
Example C14_old_watch_deltas_refuted :
  exists (g : cfg) (chain : list block) (b : block) (m m' m'' : mon),
    consistent g (chain ++ [b]) = true /\ chain_wf g (chain ++ [b]) = true
    /\ run_adds g (init_mon g 0) chain = Ok m /\ madd g m b = Ok m'
    /\ mremove (mkfx true false) g m' b = Ok m''
    /\ m_watches m = [(21, 0); (21, 2)] /\ m_watches m'' = [(21, 2); (40, 1)]
    /\ m_state m'' = set_saw (m_state m) true.
Proof.
  exists ex_cfg, [[ex_F]; [ex_C]], [ex_H]. eexists. eexists. eexists.
  split; [vm_compute; reflexivity|]. split; [vm_compute; reflexivity|].
  split; [vm_compute; reflexivity|]. split; [vm_compute; reflexivity|].
  split; [vm_compute; reflexivity|]. vm_compute. repeat split.
Qed.

Check C14_undo.
Check C14_best_chain.
Check C14_no_abort.
