(** C01 — a holder commitment is revoked only after its successor is counter-signed.
    Statements only; proofs are in Proofs/EnforcementProofs.v. *)
From VLS Require Import Base.U64 Model.Enforcement Proofs.EnforcementProofs.
From Coq Require String.
From VLS Require Gen.EnforcementGen Gen.EnforcementRulesGen Proofs.EnforcementGenProofs
  Proofs.EnforcementRulesGenProofs Proofs.RustFacts.

(** The filter may downgrade any tag except the four this property rests on. *)
Definition c01_filter (warn : tag -> bool) : Prop :=
  warn TRevokeNewSigned = false /\ warn TRevokeNotClosed = false /\
  warn THolderNotRevoked = false /\ warn TOther = false.

(** For every request history on a channel slot (validate / revoke / activate / get-point /
    get-secret / sign, direct or through the handler composites of protocol versions below
    and above the revoke split, any commitment numbers that fit the wire format, restarts
    anywhere), in both build profiles: if the secret of holder commitment [k] ever left the
    signer then commitment [k+1] was accepted in that history by a validation request ... *)
Theorem C01_secret_needs_successor :
  forall (warn : tag -> bool) (prof : profile) (ops : list op) (k : N),
    c01_filter warn -> Forall wf_op ops -> short ops ->
    In k (disclosed (snd (grun warn prof (Stub, ghost0) ops))) ->
    exists c, In (k + 1, c) (validated (snd (grun warn prof (Stub, ghost0) ops))).
Proof.
  intros warn prof ops k [W1 [W2 [W3 W4]]].
  exact (disclosed_needs_successor warn prof W1 W2 W3 W4 ops k).
Qed.
Print Assumptions C01_secret_needs_successor.

(** ... and an entry of the validated ledger can only come from a request that carried
    counterparty signatures which verified against the rebuilt transaction. *)
Theorem C01_validated_means_signatures_verified :
  forall (warn : tag -> bool) (prof : profile) (ops : list op) (n : N) (c : content),
    In (n, c) (validated (snd (grun warn prof (Stub, ghost0) ops))) ->
    exists o, In o ops /\ validation_of o n c.
Proof.
  intros warn prof ops n c H.
  destruct (validated_origin warn prof ops (Stub, ghost0) n c H) as [H0|H0]; [contradiction|exact H0].
Qed.
Print Assumptions C01_validated_means_signatures_verified.

(** A channel that is not yet set up never discloses any secret. *)
Theorem C01_stub_never :
  forall (warn : tag -> bool) (prof : profile) (ops : list op),
    c01_filter warn -> Forall wf_op ops -> short ops ->
    fst (grun warn prof (Stub, ghost0) ops) = Stub ->
    disclosed (snd (grun warn prof (Stub, ghost0) ops)) = [].
Proof.
  intros warn prof ops [W1 [W2 [W3 W4]]].
  exact (stub_discloses_nothing warn prof W1 W2 W3 W4 ops).
Qed.
Print Assumptions C01_stub_never.

(** Non-vacuity: a history that discloses secrets 0 and 1 (once through the old-protocol
    composite, once through an explicit revoke after a restart). *)
Example C01_nonvacuous :
  let ops := [Setup; ValidateHolder 0 0 true true; Activate;
              HValidateOld 1 4 true true true; Restart;
              ValidateHolder 2 5 true true; ValidateHolder 2 6 false true; Revoke 2 true;
              GetSecret 1; GetSecret 2] in
  Forall wf_op ops /\ short ops /\
  disclosed (snd (grun strict Debug (Stub, ghost0) ops)) = [1; 1; 0] /\
  validated (snd (grun strict Debug (Stub, ghost0) ops)) = [(2, 5); (1, 4); (0, 0)].
Proof.
  cbv zeta. split; [repeat constructor; cbv; discriminate|].
  split; [cbv; discriminate|]. vm_compute. split; reflexivity.
Qed.

(** The guard of the secret getters as it was before the repair wraps in a release build:
    with next_holder_commit_num = 1 the request number 2^64-2 obtains the secret of holder
    commitment 2^48-2. *)
Example C01_old_wrapping_bound_refuted :
  exists (e : estate) (n : N),
    next_h e = 1 /\ n <= U64MAX /\
    secret_res_old_release e n = Some 281474976710654.
Proof.
  exists (mkE 1 (Some 0) None false 0 0 None None None None []), 18446744073709551614.
  vm_compute. repeat split; congruence.
Qed.

(** The holder-side checks of the model are the ones in the source.  Gen/EnforcementRulesGen.v is the
    statement-by-statement translation (tools/gen_rustfn.py, regenerated on every run) of
    SimpleValidator's validate_holder_commitment_tx - the whole body; the answer [v] of its call of
    validate_commitment_tx (the model's [pol_ok]; translated and tied to the policy model under C05)
    is a parameter - over the EnforcementState record of Gen/EnforcementGen.v.  For every model state
    [e] (as the source-level state [to_res fr e]), every request, every filter and both build
    profiles, its outcome - accepted, refused, panic ([status_of] forgets which tag refused) - is what
    [do_validate] / [do_sign_redundant] compute after the point check: the content verdict first, then
    [validate_holder_state]: retry-same against the current holder commitment (a panic when there is
    none), holder-not-revoked, and no new state on a closed channel.  The filter of the source is a
    function of the tag string; [etag_filter] reads it on the names of the model's tags
    (TRetrySame = policy-commitment-retry-same, THolderNotRevoked = policy-commitment-holder-not-revoked,
    TSpendsActive = policy-commitment-spends-active-utxo: one source tag each).
    Side condition [next_h e < U64MAX]: the model adds [n + 1] and [n + 2] before the retry rule, the
    source adds [n + 2] after it; the orders differ only in a debug build with
    next_holder_commit_num = 2^64 - 1, n = 2^64 - 2 and a changed content (source: refused with
    retry-same; model: abort). *)
Theorem C01_holder_validation_checks_are_source :
  forall (prof : profile) (swarn : String.string -> bool) (fr : EnforcementGenProofs.frame) (e : estate)
         (v : trap (Rust.result unit)) (n pt setup cstate : N) (c : content),
    next_h e < U64MAX ->
    RustFacts.status_of
      (EnforcementRulesGen.gen_validate_holder_commitment_tx prof swarn v (EnforcementGenProofs.to_res fr e)
         n pt setup cstate c) =
    EnforcementRulesGenProofs.after_content v
      (validate_holder_state (EnforcementRulesGenProofs.etag_filter swarn) prof e n c).
Proof. exact EnforcementRulesGenProofs.gen_holder_checks_are_model. Qed.
Print Assumptions C01_holder_validation_checks_are_source.

(** ... and so is the advance of the holder side at a revocation: Validator::set_next_holder_commit_num
    (provided method of the trait, not overridden) with EnforcementState::set_next_holder_commit_num
    (Gen/EnforcementGen.v).  A number that is neither the next number nor its successor is refused
    (policy-revoke-new-commitment-signed); the successor moves the state exactly like [advance_h] (the
    counterparty signatures go to the frame; the pending next commitment, outside the translated
    record, is cleared by channel.rs); the next number itself passes the guard and dies in the
    assert_eq! of the state-level setter.  [do_revoke] only advances when [n = next_h e], i.e. with
    the successor. *)
Theorem C01_holder_advance_is_source :
  forall (prof : profile) (swarn : String.string -> bool) (fr : EnforcementGenProofs.frame) (e : estate)
         (num : N) (c : content) (sigs : N),
    next_h e < U64MAX ->
    EnforcementRulesGen.gen_set_next_holder_commit_num prof swarn (EnforcementGenProofs.to_res fr e) num c sigs =
    if negb (num =? next_h e) && negb (num =? next_h e + 1)
       && perr (EnforcementRulesGenProofs.etag_filter swarn) TRevokeNewSigned
    then Val (Rust.ErrR (EnforcementRulesGenProofs.etag_name TRevokeNewSigned))
    else if num =? next_h e + 1
         then Val (Rust.OkR (EnforcementGenProofs.to_res
                               (EnforcementGenProofs.mkF (Some sigs) (EnforcementGenProofs.f_initial fr)
                                                         (EnforcementGenProofs.f_secrets fr))
                               (advance_h e c)))
         else Trap.
Proof. exact EnforcementRulesGenProofs.gen_holder_advance_is_model. Qed.
Print Assumptions C01_holder_advance_is_source.
