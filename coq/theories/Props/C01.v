(** C01 — a holder commitment is revoked only after its successor is counter-signed.
    Statements only; proofs are in Proofs/EnforcementProofs.v. *)
From VLS Require Import Base.U64 Model.Enforcement Proofs.EnforcementProofs.

(** The filter may downgrade any tag except the four this property rests on. *)
Definition c01_filter (warn : tag -> bool) : Prop :=
  warn TRevokeNewSigned = false /\ warn TRevokeNotClosed = false /\
  warn THolderNotRevoked = false /\ warn TOther = false.

(** For every request history on a channel slot (validate / revoke / activate / get-point /
    get-secret / sign, direct or through the handler composites of protocol versions below
    and above the revoke split, any commitment numbers that fit the wire format, restarts
    anywhere), in both build profiles: if the secret of holder commitment [k] ever left the
    signer then commitment [k+1] was accepted in that history by a validation request ... *)
Theorem C01_secret_needs_successor :
  forall (warn : tag -> bool) (prof : profile) (ops : list op) (k : N),
    c01_filter warn -> Forall wf_op ops -> short ops ->
    In k (disclosed (snd (grun warn prof (Stub, ghost0) ops))) ->
    exists c, In (k + 1, c) (validated (snd (grun warn prof (Stub, ghost0) ops))).
Proof.
  intros warn prof ops k [W1 [W2 [W3 W4]]].
  exact (disclosed_needs_successor warn prof W1 W2 W3 W4 ops k).
Qed.
Print Assumptions C01_secret_needs_successor.

(** ... and an entry of the validated ledger can only come from a request that carried
    counterparty signatures which verified against the rebuilt transaction. *)
Theorem C01_validated_means_signatures_verified :
  forall (warn : tag -> bool) (prof : profile) (ops : list op) (n : N) (c : content),
    In (n, c) (validated (snd (grun warn prof (Stub, ghost0) ops))) ->
    exists o, In o ops /\ validation_of o n c.
Proof.
  intros warn prof ops n c H.
  destruct (validated_origin warn prof ops (Stub, ghost0) n c H) as [H0|H0]; [contradiction|exact H0].
Qed.
Print Assumptions C01_validated_means_signatures_verified.

(** A channel that is not yet set up never discloses any secret. *)
Theorem C01_stub_never :
  forall (warn : tag -> bool) (prof : profile) (ops : list op),
    c01_filter warn -> Forall wf_op ops -> short ops ->
    fst (grun warn prof (Stub, ghost0) ops) = Stub ->
    disclosed (snd (grun warn prof (Stub, ghost0) ops)) = [].
Proof.
  intros warn prof ops [W1 [W2 [W3 W4]]].
  exact (stub_discloses_nothing warn prof W1 W2 W3 W4 ops).
Qed.
Print Assumptions C01_stub_never.

(** Non-vacuity: a history that discloses secrets 0 and 1 (once through the old-protocol
    composite, once through an explicit revoke after a restart). *)
Example C01_nonvacuous :
  let ops := [Setup; ValidateHolder 0 0 true true; Activate;
              HValidateOld 1 4 true true true; Restart;
              ValidateHolder 2 5 true true; ValidateHolder 2 6 false true; Revoke 2 true;
              GetSecret 1; GetSecret 2] in
  Forall wf_op ops /\ short ops /\
  disclosed (snd (grun strict Debug (Stub, ghost0) ops)) = [1; 1; 0] /\
  validated (snd (grun strict Debug (Stub, ghost0) ops)) = [(2, 5); (1, 4); (0, 0)].
Proof.
  cbv zeta. split; [repeat constructor; cbv; discriminate|].
  split; [cbv; discriminate|]. vm_compute. split; reflexivity.
Qed.

(** The guard of the secret getters as it was before the repair wraps in a release build:
    with next_holder_commit_num = 1 the request number 2^64-2 obtains the secret of holder
    commitment 2^48-2. *)
Example C01_old_wrapping_bound_refuted :
  exists (e : estate) (n : N),
    next_h e = 1 /\ n <= U64MAX /\
    secret_res_old_release e n = Some 281474976710654.
Proof.
  exists (mkE 1 (Some 0) None false 0 0 None None None None []), 18446744073709551614.
  vm_compute. repeat split; congruence.
Qed.
