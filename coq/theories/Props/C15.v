(** C15 — channel state is discarded only when safely buried, and ids are never reused.
    Statements only; proofs are in Proofs/PruneProofs.v (on top of the C14 results of
    Proofs/MonitorProofs.v).  The node model is Model/Prune.v; [p : params] covers both
    networks' stub allowance, every channel limit, and forget_channel with and without the
    tracker write (the repair of finding F10), so every statement holds for all of them. *)
From VLS Require Import Base.U64 Model.Monitor Model.Prune Proofs.MonitorSim Proofs.MonitorProofs Proofs.PruneProofs.
From VLS Require Gen.MonitorGen Proofs.MonitorGenProofs.

(** For every history of new / setup / forget / heartbeat / block connected / block
    disconnected / restart whose connected blocks keep the chain consistent, and every
    further step: a ready channel that is gone (or no longer ready) after the step was
    removed by a heartbeat, the node had asked to forget it, and on the channel's part of the
    current best chain ([g_view], a prefix of the chain that is connected right now) a
    double-spend of a funding input, a mutual close, or the completion of the sweep of a
    unilateral close lies MIN_DEPTH or more blocks deep: the monitor that connects only the
    part of the best chain up to some block records the event in that block, and at least
    MIN_DEPTH - 1 blocks follow. *)
Theorem C15_prune_sound :
  forall (p : params) (h : N) (ops : list nop) (s : node) (o : nop) (s' : node) (out : outcome)
         (id : chanid) (g : cfg) (a : bool) (m : mon) (fg fd : bool) (gh : ghost),
    h <= U32MAX ->
    nrun p (init_node h) ops = Ok s ->
    hist_admissible p (init_node h) ops = true ->
    step p s o = Ok (s', out) ->
    cfind id (chans s) = Some (Ready g a m fg fd gh) ->
    ~ ready_cfg id g s' ->
    o = Heartbeat /\ fg = true /\ g_asked gh = true
    /\ (exists older, chain s = g_view gh ++ older)
    /\ buried g (g_h0 gh) (rev (g_view gh)).
Proof. exact prune_sound. Qed.
Print Assumptions C15_prune_sound.

(** The same with the burial read off the transactions of the current best chain: the
    channel's view of it splits into an initial part [P], on which a registered funding input
    or the funding outpoint is spent, and at least MIN_DEPTH - 1 further blocks. *)
Theorem C15_prune_sound_chain :
  forall (p : params) (h : N) (ops : list nop) (s : node) (o : nop) (s' : node) (out : outcome)
         (id : chanid) (g : cfg) (a : bool) (m : mon) (fg fd : bool) (gh : ghost),
    h <= U32MAX ->
    nrun p (init_node h) ops = Ok s ->
    hist_admissible p (init_node h) ops = true ->
    step p s o = Ok (s', out) ->
    cfind id (chans s) = Some (Ready g a m fg fd gh) ->
    ~ ready_cfg id g s' ->
    exists older P Q, chain s = g_view gh ++ older /\ rev (g_view gh) = P ++ Q
      /\ MIN_DEPTH <= N.of_nat (length Q) + 1 /\ event_on g P.
Proof. exact prune_sound_chain. Qed.
Print Assumptions C15_prune_sound_chain.

(** What the three recorded events mean on a consistent chain [P] (oldest block first): a
    double-spend height only if a registered funding input is spent on [P]; a mutual-close
    height only if the funding outpoint is spent on [P]; "closing swept" only if the funding
    outpoint, the node's own output of the commitment transaction, every HTLC output the node
    can claim and every second-level output are all spent on [P]. *)
Theorem C15_event_meaning :
  forall (g : cfg) (h0 : N) (P : list block) (mP : mon),
    consistent g P = true -> run_adds g (init_mon g h0) P = Ok mP ->
    let s := m_state mP in
    (dsh s <> None -> exists i, In i (finputs g) /\ spent_on P i)
    /\ (mutual_h s <> None -> spent_on P (fund g))
    /\ (is_closing_swept s = true -> exists cl, clo s = Some cl
          /\ spent_on P (fund g)
          /\ (forall v b, c_our cl = Some (v, b) -> spent_on P (c_txid cl, v))
          /\ (forall v, In v (MonitorSim.htlc_idx cl) -> spent_on P (c_txid cl, v))
          /\ (forall o, In o (MonitorSim.slos cl) -> spent_on P o)).
Proof. exact event_meaning. Qed.
Print Assumptions C15_event_meaning.

(** [g_asked] is not a flag of the implementation; it means what it says: somewhere in the
    history there is a forget request for this id, made while the channel was ready. *)
Theorem C15_asked_means_forget_request :
  forall (p : params) (h : N) (ops : list nop) (s : node) (id : chanid) (g : cfg),
    nrun p (init_node h) ops = Ok s -> asked_in id g s ->
    exists ops1 ops2 s1, ops = ops1 ++ Forget id :: ops2 /\ nrun p (init_node h) ops1 = Ok s1 /\ ready_in id g s1.
Proof.
  intros p h ops s id g Hr Ha. destruct (asked_history p ops _ _ _ _ Hr Ha) as [(a & m & fg & fd & gh & [] & _) | H]; exact H.
Qed.
Print Assumptions C15_asked_means_forget_request.

(** Any step other than a heartbeat keeps every ready channel; a heartbeat keeps every
    ready channel that is not done (no assumption on the history at all). *)
Theorem C15_step_keeps :
  forall (p : params) (s : node) (o : nop) (s' : node) (out : outcome)
         (id : chanid) (g : cfg) (a : bool) (m : mon) (fg fd : bool) (gh : ghost),
    step p s o = Ok (s', out) ->
    cfind id (chans s) = Some (Ready g a m fg fd gh) ->
    (o = Heartbeat -> is_done (m_state m) fg = false) ->
    ready_cfg id g s'.
Proof. exact step_keeps_ready. Qed.
Print Assumptions C15_step_keeps.

(** In every reachable state, after any history: a ready channel that is not done (open, or
    merely closing, or closed but not yet buried, or not forgotten by the node) is still
    there, with the same monitor state, after any number of heartbeats and restarts. *)
Theorem C15_survives :
  forall (p : params) (h : N) (ops0 : list nop) (s : node) (ops : list nop) (s' : node)
         (id : chanid) (g : cfg) (a : bool) (m : mon) (fg fd : bool) (gh : ghost),
    nrun p (init_node h) ops0 = Ok s ->
    forallb quiet ops = true ->
    nrun p s ops = Ok s' ->
    cfind id (chans s) = Some (Ready g a m fg fd gh) ->
    is_done (m_state m) fg = false ->
    exists fg' fd', cfind id (chans s') = Some (Ready g a m fg' fd' gh) /\ is_done (m_state m) fg' = false.
Proof. exact survives. Qed.
Print Assumptions C15_survives.

(** With forget_channel writing the tracker entry (the code as repaired), a restart from the
    store, at any point of any history, restores exactly the state that was running: every
    monitor, forget flag, the high-water mark and the channel map.  Hence every later pruning
    decision (and every other answer) is the same with or without the restart. *)
Theorem C15_restart_changes_nothing :
  forall (p : params) (h : N) (ops : list nop) (s : node),
    forget_flush p = true -> nrun p (init_node h) ops = Ok s -> step p s Restart = Ok (s, Done).
Proof. exact restart_changes_nothing. Qed.
Print Assumptions C15_restart_changes_nothing.

(** The high-water mark never decreases, whatever happens (restarts included). *)
Theorem C15_hwm_monotone :
  forall (p : params) (ops : list nop) (s s' : node), nrun p s ops = Ok s' -> hwm s <= hwm s'.
Proof. exact nrun_hwm. Qed.
Print Assumptions C15_hwm_monotone.

(** Once an existing channel (stub or ready) with id [id] has been forgotten, then after any
    further history — restarts included — a request for a new channel with that or a lower
    dbid (for any peer) is refused and changes nothing, and no channel with such a dbid
    exists that did not exist when the forget request was answered. *)
Theorem C15_no_reuse :
  forall (p : params) (s1 : node) (id : chanid) (s2 : node) (out : outcome) (ops2 : list nop) (s3 : node) (id' : chanid),
    present id s1 ->
    step p s1 (Forget id) = Ok (s2, out) ->
    nrun p s2 ops2 = Ok s3 ->
    dbid id' <= dbid id ->
    step p s3 (NewChannel id') = Ok (s3, Refused EReuse) /\ (present id' s3 -> present id' s2).
Proof. exact no_reuse. Qed.
Print Assumptions C15_no_reuse.

(** Non-vacuity: a history with a mutual close, a forget request, a reorg across the
    threshold and a restart, in which the channel survives a heartbeat at depth 99 and is
    removed by the heartbeat at depth 100; the hypotheses of [C15_prune_sound] hold. *)
Definition ex_g : cfg := mkcfg 1010 1 [(1001, 0); (1002, 0)].
Definition ex_p : params := mkparams true 1000 true.
Definition ex_ops : list nop :=
  [NewChannel (0, 1); Setup (0, 1) true ex_g;
   AddBlock [mktx 1010 [(1001, 0); (1002, 0)] 2 NotCommitment];
   AddBlock [mktx 1020 [(1010, 1)] 2 NotCommitment];
   Forget (0, 1)] ++ repeat (AddBlock []) 99 ++ [RemoveBlock; Heartbeat; Restart; AddBlock []].
Example C15_nonvacuous :
  hist_admissible ex_p (init_node 0) ex_ops = true
  /\ (exists s s', nrun ex_p (init_node 0) ex_ops = Ok s
        /\ (exists a m gh, cfind (0, 1) (chans s) = Some (Ready ex_g a m true true gh) /\ is_done (m_state m) true = true)
        /\ step ex_p s Heartbeat = Ok (s', Done) /\ cfind (0, 1) (chans s') = None
        /\ step ex_p s' (NewChannel (1, 1)) = Ok (s', Refused EReuse)).
Proof.
  split; [vm_compute; reflexivity|].
  destruct (nrun ex_p (init_node 0) ex_ops) as [s|] eqn:E; [|vm_compute in E; discriminate].
  exists s. revert E. vm_compute. intros E. inversion E; subst. clear E.
  eexists. split; [reflexivity|]. split; [do 3 eexists; split; reflexivity|].
  vm_compute. repeat split; reflexivity.
Qed.

(** ... and it does survive the heartbeat one block earlier (the one in [ex_ops]) *)
Example C15_nonvacuous_survives :
  exists s, nrun ex_p (init_node 0) (firstn 106 ex_ops) = Ok s
    /\ (exists a m gh, cfind (0, 1) (chans s) = Some (Ready ex_g a m true true gh) /\ is_done (m_state m) true = false).
Proof. vm_compute. eexists. split; [reflexivity|]. do 3 eexists. split; reflexivity. Qed.

(** Preimages (Model/Prune.v, last section: blocks whose classification may need a preimage are
    resolved against what the signer knows when it decodes them).  With htlcs_fulfilled writing
    the node entry - the code as repaired - the signer's record of preimages, in memory and in
    the store, is exactly what it was handed, after every history, restarts included. *)
Theorem C15_preimages_durable :
  forall (p : params) (h : N) (ops : list pop) (s : pnode),
    prun true p (init_pnode h) ops = Ok s -> known s = given s /\ known_disk s = known s.
Proof. exact preimages_durable. Qed.
Print Assumptions C15_preimages_durable.

(** The code before that repair ([fulfill_flush = false]: htlcs_fulfilled recorded the preimage
    in memory only) violated the property.  Witness = the history that was replayed on the real
    signer (harness `prune`, scripted incoming-htlc-preimage-then-restart): a channel funded by
    the counterparty, the preimage of the HTLC they offer is handed over, restart, their
    commitment confirms with the HTLC pending (now classified without the preimage), only our main
    output is swept, forget, 100 blocks, heartbeat.  The channel is removed, although on the chain
    as it really is (classified with the preimage that WAS handed over) the monitor is not done:
    the HTLC output (1021, 1) is the node's to claim and unspent. *)
Definition old_g : cfg := mkcfg 1010 0 [].
Definition old_ops : list pop :=
  [PLift (NewChannel (0, 3)); PLift (Setup (0, 3) true old_g); PFulfill 7; PLift Restart;
   PAdd [mkptx 1010 [(3, 100)] 1 (PFixed NotCommitment)];
   PAdd [mkptx 1021 [(1010, 0)] 3 (PNeeds 7 (Commitment (Some 0) [1]) (Commitment (Some 0) []))];
   PAdd [mkptx 1030 [(1021, 0)] 1 (PFixed NotCommitment)];
   PLift (Forget (0, 3))] ++ repeat (PAdd []) 100.
Example C15_old_fulfill_not_persisted_refuted :
  exists s s' m,
    prun false ex_p (init_pnode 0) old_ops = Ok s
    /\ ready_cfg (0, 3) old_g (pn s)
    /\ pstep false ex_p s (PLift Heartbeat) = Ok (s', Done)
    /\ cfind (0, 3) (chans (pn s')) = None
    /\ In 7 (given s')
    /\ run_adds old_g (init_mon old_g 0) (true_chain s') = Ok m
    /\ is_done (m_state m) true = false
    /\ is_closing_swept (m_state m) = false.
Proof.
  destruct (prun false ex_p (init_pnode 0) old_ops) as [s|] eqn:E; [|vm_compute in E; discriminate].
  exists s. revert E. vm_compute. intros E. inversion E; subst. clear E.
  do 2 eexists. split; [reflexivity|]. split; [do 5 eexists; reflexivity|].
  vm_compute. repeat split; try reflexivity. left; reflexivity.
Qed.

(** the same history on the repaired code keeps the channel *)
Example C15_fulfill_persisted_keeps :
  exists s s', prun true ex_p (init_pnode 0) old_ops = Ok s
    /\ pstep true ex_p s (PLift Heartbeat) = Ok (s', Done) /\ ready_cfg (0, 3) old_g (pn s').
Proof.
  destruct (prun true ex_p (init_pnode 0) old_ops) as [s|] eqn:E; [|vm_compute in E; discriminate].
  exists s. revert E. vm_compute. intros E. inversion E; subst. clear E.
  eexists. split; [reflexivity|]. split; [reflexivity|]. do 5 eexists. reflexivity.
Qed.

Check C15_prune_sound.
Check C15_survives.
Check C15_hwm_monotone.
Check C15_no_reuse.

(** The decision "this channel's monitor is done" that every statement above rests on is the one
    in the source: Gen/MonitorGen.v is the statement-by-statement translation of
    [monitor::State::depth_of], [::deep_enough_and_saw_node_forget] and [::is_done]
    (vls-core/src/monitor.rs with its constant MIN_DEPTH, regenerated on every run by
    tools/gen_rustfn.py), and for every chain height below 2^32-1 it computes, in both build
    profiles, exactly the model's [Monitor.is_done]. *)
Theorem C15_done_decision_is_source :
  forall (prof : profile) (fr : MonitorGenProofs.mframe) (s : Monitor.state) (forgot : bool),
    Monitor.height s < U32MAX ->
    MonitorGen.gen_is_done prof (MonitorGenProofs.to_rms fr s forgot) = Val (Monitor.is_done s forgot).
Proof. exact MonitorGenProofs.gen_is_done_is_model. Qed.
Print Assumptions C15_done_decision_is_source.
