(** C06 — approved invoices are never overpaid in flight; unbacked payments are refused.
    Statements only; proofs are in Proofs/PaymentsProofs.v. *)
From VLS Require Import Base.U64 Model.Payments Proofs.PaymentsProofs.
From VLS Require Gen.PaymentsGen Proofs.PaymentsGenProofs.

(** For every number of channels, every policy allowance and every history of commitment
    updates (counterparty signing, holder validation, revocation) on any of the channels,
    invoice / keysend approvals and restarts, in which an approval arrives before its payment is
    attempted: for every hash with an approved amount, the value in flight towards it over all
    channels stays within the value in flight to the node plus the approved amount plus the
    routing-fee allowance (msat). *)
Theorem C06_no_overpay :
  forall (nch : nat) (max_fee_msat max_fee_pct : N) (ops : list pop) (h a : N),
    fresh_history nch max_fee_msat max_fee_pct pinit ops ->
    let s := prun nch max_fee_msat max_fee_pct pinit ops in
    inv s h = Some a ->
    out_total nch s h * 1000 <= in_total nch s h * 1000 + a + max_fee_msat.
Proof.
  intros nch mf mp ops h a Hf s Ha.
  exact (pi_pay nch mf _ (prun_keeps nch mf mp ops pinit (PInv_init nch mf) Hf) h a Ha).
Qed.
Print Assumptions C06_no_overpay.

(** The totals above are the in-flight values defined by the current commitments: the ledger row
    of every channel is the summary (larger of the two views for outgoing, smaller for incoming)
    of that channel's current holder and counterparty commitments — also after restarts. *)
Theorem C06_ledger_is_in_flight_value :
  forall (nch : nat) (max_fee_msat max_fee_pct : N) (ops : list pop) (ch h : N),
    fresh_history nch max_fee_msat max_fee_pct pinit ops ->
    ch < N.of_nat nch ->
    let s := prun nch max_fee_msat max_fee_pct pinit ops in
    led s h ch = (in_val (chans s ch) None None h, out_val (chans s ch) None None h).
Proof.
  intros nch mf mp ops ch h Hf Hc s.
  exact (pi_sync nch mf _ (prun_keeps nch mf mp ops pinit (PInv_init nch mf) Hf) ch h Hc).
Qed.
Print Assumptions C06_ledger_is_in_flight_value.

(** An accepted update (counterparty signature or revocation) that carries outgoing value for a
    hash without approval and without any earlier HTLC is covered, in that same update, by
    incoming value for the hash. *)
Theorem C06_unbacked_refused :
  forall (nch : nat) (max_fee_msat max_fee_pct : N) (s : pnode) (ch : N) (c : content) (h : N),
    inv s h = None -> known s h = false ->
    (snd (pstep nch max_fee_msat max_fee_pct s (PSignCp ch c true)) = true ->
       out_val (chans s ch) None (Some c) h <= in_val (chans s ch) None (Some c) h) /\
    (hnxt (chans s ch) = Some c ->
     snd (pstep nch max_fee_msat max_fee_pct s (PRevoke ch)) = true ->
       out_val (chans s ch) (Some c) None h <= in_val (chans s ch) (Some c) None h).
Proof.
  intros nch mf mp s ch c h Hi Hk. split.
  - cbn [pstep]. destruct (negb (in_range nch ch) || negb true); [discriminate|].
    destruct (validate_payments nch mf mp s ch None (Some c)) eqn:Ev; cbn [negb]; [|discriminate].
    intros _. apply (unbacked_refused nch mf mp s ch None (Some c) h Ev Hi Hk).
  - intros Hn. cbn [pstep]. destruct (negb (in_range nch ch)); [discriminate|]. rewrite Hn.
    destruct (validate_payments nch mf mp s ch (Some c) None) eqn:Ev; cbn [negb]; [|discriminate].
    intros _. apply (unbacked_refused nch mf mp s ch (Some c) None h Ev Hi Hk).
Qed.
Print Assumptions C06_unbacked_refused.

(** The balance rule all of the above rests on is the one in the source: Gen/PaymentsGen.v is the
    statement-by-statement translation of [SimpleValidator::validate_payment_balance]
    (vls-core/src/policy/simple_validator.rs, regenerated on every run by tools/gen_rustfn.py), and
    under the default policy filter it answers Ok exactly when the model's [balance_ok] holds - in both
    build profiles, without panic or wrap, whenever [outgoing * 100] and
    [incoming + approved + allowance] fit into u64 (msat amounts far beyond the supply of bitcoin). *)
Theorem C06_balance_rule_is_source :
  forall (prof : profile) (max_fee_msat max_fee_pct incoming_msat outgoing_msat : N) (invoiced : option N),
    PaymentsGenProofs.amounts_fit max_fee_msat incoming_msat outgoing_msat invoiced ->
    PaymentsGen.gen_validate_payment_balance prof PaymentsGenProofs.strict_filter
      max_fee_msat max_fee_pct incoming_msat outgoing_msat invoiced =
    Val (balance_ok max_fee_msat max_fee_pct incoming_msat outgoing_msat invoiced).
Proof. exact PaymentsGenProofs.gen_balance_is_model. Qed.
Print Assumptions C06_balance_rule_is_source.

(** Preimages.  The record that the "tolerated for a hash with a payment record" rule reads, and
    that decides which HTLC outputs of a force-closed channel are the node's to claim, is never
    lost by a restart once it carries a preimage: in every reachable state a hash whose preimage
    is recorded has a payment record, and a restart keeps both. *)
Theorem C06_preimage_records_survive_restart :
  forall (nch : nat) (max_fee_msat max_fee_pct : N) (ops : list pop) (h : N),
    let s := prun nch max_fee_msat max_fee_pct pinit ops in
    pre s h = true ->
    known s h = true /\
    let s' := fst (pstep nch max_fee_msat max_fee_pct s PRestart) in
    pre s' h = true /\ known s' h = true.
Proof.
  intros nch mf mp ops h s Hp. split.
  - exact (prun_pre_known nch mf mp ops pinit (PreKnown_init) h Hp).
  - cbn [pstep fst]. rewrite restore_pre. split; [exact Hp | exact (restore_known_of_pre nch s h Hp)].
Qed.
Print Assumptions C06_preimage_records_survive_restart.

(** ... and a preimage handed over for a hash that has a payment record is recorded at once. *)
Theorem C06_fulfil_records_preimage :
  forall (nch : nat) (max_fee_msat max_fee_pct : N) (s : pnode) (h : N),
    known s h = true ->
    let s1 := fst (pstep nch max_fee_msat max_fee_pct s (PFulfil h)) in
    let s2 := fst (pstep nch max_fee_msat max_fee_pct s1 PRestart) in
    pre s1 h = true /\ pre s2 h = true /\ known s2 h = true.
Proof. exact fulfil_then_restart. Qed.
Print Assumptions C06_fulfil_records_preimage.

(** Non-vacuity: an approved 100 000 sat payment split over two channels up to exactly the
    approved amount plus the allowance, one more satoshi refused, a restart in between. *)
Example C06_nonvacuous :
  let ops := [PAddInvoice 2 100000000;
              PSignCp 0 (mkCt [(2, 50000)] []) true; PSignCp 1 (mkCt [(2, 50222)] []) true;
              PSignCp 1 (mkCt [(2, 50223)] []) true; PRestart;
              PValidateHolder 0 (mkCt [(2, 50000)] []) true; PRevoke 0] in
  fresh_history 2 222000 10 pinit ops /\
  out_total 2 (prun 2 222000 10 pinit ops) 2 = 100222 /\
  snd (pstep 2 222000 10 (prun 2 222000 10 pinit (firstn 3 ops)) (PSignCp 1 (mkCt [(2, 50223)] []) true)) = false.
Proof. vm_compute. repeat split; intros; try reflexivity; discriminate. Qed.

(** The revocation as it was before the repair applied the payments of a holder commitment
    that had been validated against an older ledger: 200 000 sat in flight for 100 000 approved. *)
Example C06_old_revoke_refuted :
  let ops := [PAddInvoice 1 100000000; PValidateHolder 0 (mkCt [(1, 100000)] []) true;
              PSignCp 1 (mkCt [(1, 100000)] []) true] in
  let s := fst (prevoke_old (prun 2 222000 10 pinit ops) 0) in
  fresh_history 2 222000 10 pinit ops /\
  snd (prevoke_old (prun 2 222000 10 pinit ops) 0) = true /\
  in_total 2 s 1 * 1000 + 100000000 + 222000 < out_total 2 s 1 * 1000.
Proof. vm_compute. repeat split; intros; try reflexivity; discriminate. Qed.

(** The payment check the theorems above rest on is the one in the source.  Gen/NodePaymentsGen.v is
    the statement-by-statement translation (tools/gen_rustfn.py, regenerated on every run) of
    NodeState::validate_payments - the whole body: the hash set built from the keys of the two
    summaries, for every hash the per-channel amounts, the payment record, its CLTV bounds
    (validate_payment_cltv), RoutedPayment::updated_incoming_outgoing, the invoice, the call of
    validate_payment_balance (the translation of Gen/PaymentsGen.v), the issue-331 tolerance for an
    uninvoiced hash that has a record, the list of unbalanced hashes and
    policy-commitment-htlc-routing-balance, and the enforce_balance register - with the RoutedPayment
    methods and SimpleValidator::validate_payment_cltv / ::enforce_balance.  Maps and sets are
    association lists / duplicate-free lists (Base/Rust.v); payment hashes and channel ids are
    identities; the hash set (a hashbrown HashSet) is visited in the order [ord hashes] for an
    uninterpreted [ord] of which only [Permutation (ord l) l] is known.

    [abs_node] reads the model's functions ([inv], [known], [led]) off the source-level maps; the
    model's totals range over the channels 0 .. nch-1, so the per-channel maps must have one entry per
    key and keys below nch ([wf_node]).  For every such state, channel, pair of summaries, order of
    visiting, and both build profiles the source accepts exactly when every hash passes the model's
    [hash_ok] (written [hash_ok_sum] for summaries given as look-ups; [hash_ok] is that by
    definition), and refuses with policy-commitment-htlc-routing-balance otherwise.  Assumed, because
    the model does not have it: the CLTV rule passes for the records involved ([cltv_pass];
    policy-routing-cltv-delta is a rule of the source that Model/Payments.v does not describe),
    enforce_balance is off, the three tags involved are not downgraded by the filter, and nothing
    leaves u64 ([hash_fitsb], a boolean over the hashes). *)
From Coq Require Import String.
From Coq Require Permutation.
From Coq Require Import List.
From VLS Require Gen.CommitmentPolicyGen Gen.NodePaymentsGen Proofs.NodePaymentsGenProofs Proofs.RustFacts.
Theorem C06_payment_check_is_source :
  forall (nch : nat) (prof : profile) (swarn : String.string -> bool) (gp : CommitmentPolicyGen.SimplePolicy)
         (ord : list N -> list N) (chs : N -> pchan) (ns : NodePaymentsGen.NodeState) (ch : N)
         (im om : list (N * N)) (bd : NodePaymentsGen.BalanceDelta) (vid : N),
    (forall l, Permutation.Permutation (ord l) l) ->
    NodePaymentsGenProofs.wf_node nch ns ->
    swarn "policy-routing-balanced"%string = false ->
    swarn "policy-htlc-fee-range"%string = false ->
    swarn "policy-commitment-htlc-routing-balance"%string = false ->
    CommitmentPolicyGen.SimplePolicy_enforce_balance gp = false ->
    let s := NodePaymentsGenProofs.abs_node chs ns in
    let mf := CommitmentPolicyGen.SimplePolicy_max_routing_fee_msat gp in
    let mp := CommitmentPolicyGen.SimplePolicy_max_feerate_percentage gp in
    let hashes := Rust.set_extend (Rust.set_extend [] (Rust.map_keys im)) (Rust.map_keys om) in
    (forall h, In h hashes ->
               NodePaymentsGenProofs.cltv_pass prof swarn gp (Rust.map_get (NodePaymentsGen.NodeState_payments ns) h)) ->
    forallb (NodePaymentsGenProofs.hash_fitsb nch mf s ch (hget im) (hget om)) hashes = true ->
    NodePaymentsGen.gen_NodeState_validate_payments prof swarn gp ord ns ch im om bd vid =
    if forallb (NodePaymentsGenProofs.hash_ok_sum nch mf mp s ch (hget im) (hget om)) hashes
    then Val (Rust.OkR tt)
    else Val (Rust.ErrR "policy-commitment-htlc-routing-balance"%string).
Proof. exact NodePaymentsGenProofs.gen_validate_payments_is_model. Qed.
Print Assumptions C06_payment_check_is_source.

(** ... and when the two summaries hold what the model computes from the channel's commitments (the
    values [in_val] / [out_val], the hashes [sum_keys]) the source's answer is the model's
    [validate_payments]. *)
Theorem C06_payment_check_is_validate_payments :
  forall (nch : nat) (prof : profile) (swarn : String.string -> bool) (gp : CommitmentPolicyGen.SimplePolicy)
         (ord : list N -> list N) (chs : N -> pchan) (ns : NodePaymentsGen.NodeState) (ch : N)
         (im om : list (N * N)) (bd : NodePaymentsGen.BalanceDelta) (vid : N) (nh nc : option content),
    (forall l, Permutation.Permutation (ord l) l) ->
    NodePaymentsGenProofs.wf_node nch ns ->
    swarn "policy-routing-balanced"%string = false ->
    swarn "policy-htlc-fee-range"%string = false ->
    swarn "policy-commitment-htlc-routing-balance"%string = false ->
    CommitmentPolicyGen.SimplePolicy_enforce_balance gp = false ->
    let s := NodePaymentsGenProofs.abs_node chs ns in
    let mf := CommitmentPolicyGen.SimplePolicy_max_routing_fee_msat gp in
    let mp := CommitmentPolicyGen.SimplePolicy_max_feerate_percentage gp in
    let hashes := Rust.set_extend (Rust.set_extend [] (Rust.map_keys im)) (Rust.map_keys om) in
    (forall h, In h hashes ->
               NodePaymentsGenProofs.cltv_pass prof swarn gp (Rust.map_get (NodePaymentsGen.NodeState_payments ns) h)) ->
    forallb (NodePaymentsGenProofs.hash_fitsb nch mf s ch (hget im) (hget om)) hashes = true ->
    (forall h, hget im h = in_val (chs ch) nh nc h) ->
    (forall h, hget om h = out_val (chs ch) nh nc h) ->
    (forall h, In h hashes <-> In h (sum_keys (chs ch) nh nc)) ->
    NodePaymentsGen.gen_NodeState_validate_payments prof swarn gp ord ns ch im om bd vid =
    if validate_payments nch mf mp s ch nh nc
    then Val (Rust.OkR tt)
    else Val (Rust.ErrR "policy-commitment-htlc-routing-balance"%string).
Proof. exact NodePaymentsGenProofs.gen_validate_payments_is_validate. Qed.
Print Assumptions C06_payment_check_is_validate_payments.

(** The booking of one channel's amounts into a payment record is the source's: RoutedPayment::apply
    (translated, never panics) replaces the record's entry for the channel in the incoming and in the
    outgoing map - the ledger update [upd (led h) ch (i, o)] of the model's [apply_one] - keeps the
    preimage, keeps the maps well formed, and otherwise only moves the two CLTV bounds.
    NodeState::apply_payments around it (the entry API, the issued-invoice marking, iterator chains
    over the HTLC lists) is outside the translator's fragment and stays tied by the correspondence
    check. *)
Theorem C06_payment_booking_is_source :
  forall (prof : profile) (p : NodePaymentsGen.RoutedPayment) (ch i o : N) (ic oc : option N),
  exists p',
    NodePaymentsGen.gen_RoutedPayment_apply prof p ch i o ic oc = Val p' /\
    (forall c, (NodePaymentsGenProofs.get0 (NodePaymentsGen.RoutedPayment_incoming p') c,
                NodePaymentsGenProofs.get0 (NodePaymentsGen.RoutedPayment_outgoing p') c) =
               upd (fun c => (NodePaymentsGenProofs.get0 (NodePaymentsGen.RoutedPayment_incoming p) c,
                              NodePaymentsGenProofs.get0 (NodePaymentsGen.RoutedPayment_outgoing p) c)) ch (i, o) c) /\
    NodePaymentsGen.RoutedPayment_preimage p' = NodePaymentsGen.RoutedPayment_preimage p /\
    (forall nch, ch < N.of_nat nch ->
       NodePaymentsGenProofs.wf_map nch (NodePaymentsGen.RoutedPayment_incoming p) ->
       NodePaymentsGenProofs.wf_map nch (NodePaymentsGen.RoutedPayment_outgoing p) ->
       NodePaymentsGenProofs.wf_map nch (NodePaymentsGen.RoutedPayment_incoming p') /\
       NodePaymentsGenProofs.wf_map nch (NodePaymentsGen.RoutedPayment_outgoing p')).
Proof. exact NodePaymentsGenProofs.gen_apply_is_model. Qed.
Print Assumptions C06_payment_booking_is_source.

(** [iter().sum::<u64>()] over the values of a map does not depend on the order in which the map hands
    them out: the same value, the same wrap in a release build, the same overflow panic in a debug
    build (the translation sums in the order of the association list). *)
Theorem C06_value_sums_do_not_depend_on_order :
  forall (prof : profile) (l l' : list N), Permutation.Permutation l l' -> Rust.sum_p prof l = Rust.sum_p prof l'.
Proof. exact RustFacts.sum_p_perm. Qed.
Print Assumptions C06_value_sums_do_not_depend_on_order.

(** The two housekeeping steps of the model are the source's.  NodeState::htlc_fulfilled (whole body,
    translated in state-passing style; the hash of the preimage is an opaque value [ph]) records the
    preimage only in a payment record that exists: the state it leaves abstracts to the model's
    [PFulfil] step - [pre x := pre x || ((x =? ph) && known ph)], [known], [led] and [inv] unchanged -
    and it never panics when the record's sums fit u64 and enforce_balance is off.  The issued-invoice
    flag it also sets and the boolean it returns are outside the model. *)
Theorem C06_fulfil_is_source :
  forall (prof : profile) (swarn : String.string -> bool) (gp : CommitmentPolicyGen.SimplePolicy)
         (chs : N -> pchan) (ph : N) (ns : NodePaymentsGen.NodeState) (ch preimage vid : N),
    CommitmentPolicyGen.SimplePolicy_enforce_balance gp = false ->
    (forall p, Rust.map_get (NodePaymentsGen.NodeState_payments ns) ph = Some p ->
               sum_N (Rust.map_values (NodePaymentsGen.RoutedPayment_incoming p)) <= U64MAX /\
               sum_N (Rust.map_values (NodePaymentsGen.RoutedPayment_outgoing p)) <= U64MAX) ->
    exists ns' b,
      NodePaymentsGen.gen_NodeState_htlc_fulfilled prof swarn gp ph ns ch preimage vid = Val (Rust.OkR (ns', b)) /\
      (forall x, pre (NodePaymentsGenProofs.abs_node chs ns') x =
                 pre (NodePaymentsGenProofs.abs_node chs ns) x
                 || ((x =? ph) && known (NodePaymentsGenProofs.abs_node chs ns) ph)) /\
      (forall x, known (NodePaymentsGenProofs.abs_node chs ns') x = known (NodePaymentsGenProofs.abs_node chs ns) x) /\
      (forall x c, led (NodePaymentsGenProofs.abs_node chs ns') x c = led (NodePaymentsGenProofs.abs_node chs ns) x c) /\
      (forall x, inv (NodePaymentsGenProofs.abs_node chs ns') x = inv (NodePaymentsGenProofs.abs_node chs ns) x).
Proof. exact NodePaymentsGenProofs.gen_fulfil_is_model. Qed.
Print Assumptions C06_fulfil_is_source.

(** The pruning decision of the heartbeat: NodeState::is_forwarded_payment_prunable (translated) says
    "prune" for a record exactly when the model's [prunable] holds AND there is no issued invoice for
    the hash - the model does not have issued invoices.  (prune_forwarded_payments, which applies the
    decision with `retain`, is not translated.) *)
Theorem C06_prune_is_source :
  forall (nch : nat) (prof : profile) (chs : N -> pchan) (ns : NodePaymentsGen.NodeState) (h : N)
         (p : NodePaymentsGen.RoutedPayment),
    NodePaymentsGenProofs.wf_node nch ns ->
    Rust.map_get (NodePaymentsGen.NodeState_payments ns) h = Some p ->
    sum_N (Rust.map_values (NodePaymentsGen.RoutedPayment_incoming p)) <= U64MAX ->
    sum_N (Rust.map_values (NodePaymentsGen.RoutedPayment_outgoing p)) <= U64MAX ->
    NodePaymentsGen.gen_NodeState_is_forwarded_payment_prunable prof h
      (NodePaymentsGen.NodeState_invoices ns) (NodePaymentsGen.NodeState_issued_invoices ns) p =
    Val (prunable nch (NodePaymentsGenProofs.abs_node chs ns) h
         && Rust.is_none_of (Rust.map_get (NodePaymentsGen.NodeState_issued_invoices ns) h)).
Proof. exact NodePaymentsGenProofs.gen_prunable_is_model. Qed.
Print Assumptions C06_prune_is_source.

(** The booking of a whole commitment is the source's.  NodeState::apply_payments (whole body,
    translated in state-passing style: the entry API, the issued-invoice marking, the dummy preimage
    under enforce_balance, the CLTV bounds read off the commitment with filter / map / min / max, and
    RoutedPayment::apply for every hash) never panics and leaves a state whose abstraction is the
    model's [apply_payments]: [known h := true] and [led h ch := (in_val, out_val)] for every hash of
    the summaries, invoices and preimages untouched - for every order [ord] in which the hash set is
    visited (twice).  Stated for summaries that hold what the model computes, for hashes without an
    issued invoice and with enforce_balance off: the issued-invoice bookkeeping (and the register) is
    outside the model, and under these premises that part of the code does nothing. *)
Theorem C06_payment_booking_is_apply_payments :
  forall (prof : profile) (swarn : String.string -> bool) (gp : CommitmentPolicyGen.SimplePolicy)
         (ord : list N -> list N) (dp : N) (chs : N -> pchan) (ns : NodePaymentsGen.NodeState) (ch : N)
         (im om : list (N * N)) (bd : NodePaymentsGen.BalanceDelta) (vid : N)
         (ci : option CommitmentPolicyGen.CommitmentInfo2) (nh nc : option content),
    (forall l, Permutation.Permutation (ord l) l) ->
    CommitmentPolicyGen.SimplePolicy_enforce_balance gp = false ->
    let hashes := Rust.set_extend (Rust.set_extend [] (Rust.map_keys im)) (Rust.map_keys om) in
    (forall h, In h hashes -> Rust.map_get (NodePaymentsGen.NodeState_issued_invoices ns) h = None) ->
    (forall h, hget im h = in_val (chs ch) nh nc h) ->
    (forall h, hget om h = out_val (chs ch) nh nc h) ->
    (forall h, In h hashes <-> In h (sum_keys (chs ch) nh nc)) ->
    exists ns',
      NodePaymentsGen.gen_NodeState_apply_payments prof swarn gp ord dp ns ch im om bd vid ci = Val (Rust.OkR ns') /\
      let s' := apply_payments (NodePaymentsGenProofs.abs_node chs ns) ch nh nc in
      (forall x, known (NodePaymentsGenProofs.abs_node chs ns') x = known s' x) /\
      (forall x c, led (NodePaymentsGenProofs.abs_node chs ns') x c = led s' x c) /\
      (forall x, inv (NodePaymentsGenProofs.abs_node chs ns') x = inv s' x) /\
      (forall x, pre (NodePaymentsGenProofs.abs_node chs ns') x = pre s' x).
Proof. exact NodePaymentsGenProofs.gen_apply_payments_is_model. Qed.
Print Assumptions C06_payment_booking_is_apply_payments.

From VLS Require Gen.PaymentSummariesGen Proofs.PaymentSummariesGenProofs.

(** The per-hash totals are the source's.  EnforcementState::summarize_payments (translated: a loop
    over the HTLC slice with `entry(hash).and_modify(..).or_insert(value)` (value added to the entry), the addition in
    the arithmetic of the build profile) never panics on a list whose values sum within u64 and returns
    the map [summ l], which holds for every hash the total of the HTLCs of the list that carry it - the
    [c_out] / [c_in] maps of the model's [content] (abs_h / abs_c below). *)
Theorem C06_summarize_is_source :
  forall (prof : profile) (l : list CommitmentPolicyGen.HTLCInfo2),
    PaymentSummariesGenProofs.list_fits l = true ->
    PaymentSummariesGen.gen_EnforcementState_summarize_payments prof l =
      Val (Rust.OkR (PaymentSummariesGenProofs.summ l)) /\
    (forall h, hget (PaymentSummariesGenProofs.summ l) h = PaymentSummariesGenProofs.total_of l h) /\
    (forall h, In h (Rust.map_keys (PaymentSummariesGenProofs.summ l)) <->
               In h (map CommitmentPolicyGen.HTLCInfo2_payment_hash l)).
Proof.
  intros prof l H. split; [apply PaymentSummariesGenProofs.gen_summarize_is_summ; exact H|].
  split; [apply PaymentSummariesGenProofs.summ_total | apply PaymentSummariesGenProofs.summ_keys].
Qed.
Print Assumptions C06_summarize_is_source.

(** The summaries are the source's.  EnforcementState::incoming_payments_summary and ::payments_summary
    (whole bodies, translated: `new.or(current.as_ref())`, `.map(|h| &h.received_htlcs)`,
    `.map(|h| Self::summarize_payments(h)).unwrap_or_else(|| Map::new())`, `retain`, the consuming
    `for (k, v) in counterparty_summary` with `entry(k).and_modify(..)[.or_insert(v)]` (the entry set to the min / max of itself and v)
    and the `or_insert(0)` loops over the current commitments) never panic and return maps that hold
    exactly the model's [in_val] / [out_val] on exactly the model's [in_keys] / [out_keys]; the hash set
    NodeState::validate_payments / apply_payments build from them is the model's [sum_keys] - the premises
    of C06_payment_check_is_validate_payments and C06_payment_booking_is_apply_payments.  For every order
    [pord] in which the counterparty map is consumed (a hashbrown map: the order is unspecified), both
    build profiles, and HTLC lists whose values sum within u64.  The model's [content] of a commitment is
    [abs_h] (holder: offered = outgoing) / [abs_c] (counterparty: received = outgoing) of the source's
    CommitmentInfo2. *)
Theorem C06_summaries_are_source :
  forall (prof : profile) (pord : list (N * N) -> list (N * N))
         (ge : PaymentSummariesGen.EnforcementState)
         (nht nct : option CommitmentPolicyGen.CommitmentInfo2),
    (forall l, Permutation.Permutation (pord l) l) ->
    PaymentSummariesGenProofs.info_fits nht = true ->
    PaymentSummariesGenProofs.info_fits nct = true ->
    PaymentSummariesGenProofs.info_fits (PaymentSummariesGen.EnforcementState_current_holder_commit_info ge) = true ->
    PaymentSummariesGenProofs.info_fits (PaymentSummariesGen.EnforcementState_current_counterparty_commit_info ge) = true ->
    let p := PaymentSummariesGenProofs.abs_pchan ge in
    let nh := option_map PaymentSummariesGenProofs.abs_h nht in
    let nc := option_map PaymentSummariesGenProofs.abs_c nct in
    exists im om,
      PaymentSummariesGen.gen_EnforcementState_incoming_payments_summary prof pord ge nht nct = Val (Rust.OkR im) /\
      PaymentSummariesGen.gen_EnforcementState_payments_summary prof pord ge nht nct = Val (Rust.OkR om) /\
      (forall h, hget im h = in_val p nh nc h) /\
      (forall h, hget om h = out_val p nh nc h) /\
      (forall h, In h (Rust.map_keys im) <-> In h (in_keys p nh nc)) /\
      (forall h, In h (Rust.map_keys om) <-> In h (out_keys p nh nc)) /\
      (forall h, In h (Rust.set_extend (Rust.set_extend [] (Rust.map_keys im)) (Rust.map_keys om)) <->
                 In h (sum_keys p nh nc)).
Proof. exact PaymentSummariesGenProofs.gen_summaries_are_model. Qed.
Print Assumptions C06_summaries_are_source.

(** The payment-record part of the heartbeat is the source's.  NodeState::prune_forwarded_payments
    (whole body, translated in state-passing style: `let payments = &mut self.payments;`, the shared
    borrows of the two invoice maps, `payments.retain(|hash, payment| { .. })` with a block closure
    that calls is_forwarded_payment_prunable and raises the captured flag `modified` - map_retain_st
    of Base/Rust.v) never panics on a well-formed state whose records fit u64; it returns
    "some record was dropped", leaves both invoice maps alone, and the state it leaves abstracts to:
    [known] and [pre] restricted to the hashes that are NOT dropped, [led] and [inv] unchanged (a
    dropped record carried nothing on any channel).  Dropped means the model's [prunable] AND no
    issued invoice for the hash ([pruned]; the model does not have issued invoices, as in
    C06_prune_is_source).  Last conjunct: when no prunable record has an issued invoice this is
    exactly the model's PHeartbeat step.  The entries are visited in the order of the association list
    that represents the map; the state is universally quantified, so every visiting order of the
    hash map is covered. *)
Theorem C06_prune_step_is_source :
  forall (nch : nat) (mf mp : N) (prof : profile) (chs : N -> pchan) (ns : NodePaymentsGen.NodeState),
    NodePaymentsGenProofs.wf_node nch ns ->
    NoDup (Rust.map_keys (NodePaymentsGen.NodeState_payments ns)) ->
    (forall h p, Rust.map_get (NodePaymentsGen.NodeState_payments ns) h = Some p ->
                 sum_N (Rust.map_values (NodePaymentsGen.RoutedPayment_incoming p)) <= U64MAX /\
                 sum_N (Rust.map_values (NodePaymentsGen.RoutedPayment_outgoing p)) <= U64MAX) ->
    let s := NodePaymentsGenProofs.abs_node chs ns in
    let dropped := fun h => prunable nch s h
                            && Rust.is_none_of (Rust.map_get (NodePaymentsGen.NodeState_issued_invoices ns) h) in
    exists ns',
      NodePaymentsGen.gen_NodeState_prune_forwarded_payments prof ns =
        Val (Rust.OkR (ns', existsb dropped (Rust.map_keys (NodePaymentsGen.NodeState_payments ns)))) /\
      (forall x, known (NodePaymentsGenProofs.abs_node chs ns') x = known s x && negb (dropped x)) /\
      (forall x, pre (NodePaymentsGenProofs.abs_node chs ns') x = pre s x && negb (dropped x)) /\
      (forall x c, led (NodePaymentsGenProofs.abs_node chs ns') x c = led s x c) /\
      (forall x, inv (NodePaymentsGenProofs.abs_node chs ns') x = inv s x) /\
      NodePaymentsGen.NodeState_invoices ns' = NodePaymentsGen.NodeState_invoices ns /\
      NodePaymentsGen.NodeState_issued_invoices ns' = NodePaymentsGen.NodeState_issued_invoices ns /\
      ((forall x, known s x = true -> prunable nch s x = true ->
                  Rust.map_get (NodePaymentsGen.NodeState_issued_invoices ns) x = None) ->
       let s' := fst (pstep nch mf mp s PHeartbeat) in
       (forall x, known (NodePaymentsGenProofs.abs_node chs ns') x = known s' x) /\
       (forall x, pre (NodePaymentsGenProofs.abs_node chs ns') x = pre s' x) /\
       (forall x c, led (NodePaymentsGenProofs.abs_node chs ns') x c = led s' x c) /\
       (forall x, inv (NodePaymentsGenProofs.abs_node chs ns') x = inv s' x)).
Proof. exact NodePaymentsGenProofs.gen_prune_step_is_model. Qed.
Print Assumptions C06_prune_step_is_source.
